//@kani host=src/pdu_loop/frame_element/created_frame.rs
// C04: frames built by CreatedFrame on the real slot memory, compared with an independent encoder written here.
// BOUNDED in the storage configuration (DATA = 64 bytes => PDU area 48 bytes) and in the number of pushes (<= 2 + fill);
// commands (all 11 kinds, all addresses), payload bytes/lengths and length overrides are fully symbolic.
use super::*;
use crate::command::{Reads, Writes};
use crate::pdu_loop::frame_element::sendable_frame::SendableFrame;
use crate::pdu_loop::frame_element::verif_kani_slots::{peek, snapshot};
use crate::pdu_loop::frame_element::{FIRST_PDU_EMPTY, FrameElement, FrameState};
use crate::verif_vk as vk;
use atomic_waker::AtomicWaker;
use core::sync::atomic::{AtomicU16, Ordering};

const DATA: usize = 64;
const AREA: usize = DATA - 16;

fn blank() -> FrameElement<DATA> {
    let mut e: FrameElement<DATA> = Default::default();
    // arbitrary stale contents: claim_created/init must clean them
    e.ethernet_frame = vk::any_array::<DATA>();
    e
}

/// independent model of a command: (code, 4 address bytes)
fn any_command() -> (Command, u8, [u8; 4]) {
    let k: u8 = vk::any();
    let a: u16 = vk::any();
    let r: u16 = vk::any();
    let l: u32 = vk::any();
    let ar = [a.to_le_bytes()[0], a.to_le_bytes()[1], r.to_le_bytes()[0], r.to_le_bytes()[1]];
    let lb = l.to_le_bytes();
    match k % 11 {
        0 => (Command::Nop, 0x00, [0; 4]),
        1 => (Command::Read(Reads::Aprd { address: a, register: r }), 0x01, ar),
        2 => (Command::Write(Writes::Apwr { address: a, register: r }), 0x02, ar),
        3 => (Command::Read(Reads::Fprd { address: a, register: r }), 0x04, ar),
        4 => (Command::Write(Writes::Fpwr { address: a, register: r }), 0x05, ar),
        5 => (Command::Read(Reads::Brd { address: a, register: r }), 0x07, ar),
        6 => (Command::Write(Writes::Bwr { address: a, register: r }), 0x08, ar),
        7 => (Command::Read(Reads::Lrd { address: l }), 0x0a, lb),
        8 => (Command::Write(Writes::Lwr { address: l }), 0x0b, lb),
        9 => (Command::Write(Writes::Lrw { address: l }), 0x0c, lb),
        _ => (Command::Read(Reads::Frmw { address: a, register: r }), 0x0e, ar),
    }
}

/// check one datagram at `off` in the PDU area against the independent encoding
fn check_pdu(area: &[u8], off: usize, code: u8, idx: u8, addr: [u8; 4], len: usize, data: &[u8; 8], dlen: usize, more: bool) {
    assert!(area[off] == code && area[off + 1] == idx);
    assert!(area[off + 2] == addr[0] && area[off + 3] == addr[1] && area[off + 4] == addr[2] && area[off + 5] == addr[3]);
    let flags = (len as u16) | if more { 0x8000 } else { 0 };
    assert!(area[off + 6] == flags.to_le_bytes()[0] && area[off + 7] == flags.to_le_bytes()[1], "length / more-follows field");
    assert!(area[off + 8] == 0 && area[off + 9] == 0, "interrupt field is zero");
    let mut i = 0;
    while i < AREA {
        if i < len {
            let want = if i < dlen { data[i] } else { 0 };
            assert!(area[off + 10 + i] == want, "payload bytes, zero padded to the explicit length");
        }
        i += 1;
    }
    assert!(area[off + 10 + len] == 0 && area[off + 10 + len + 1] == 0, "working counter is zero on send");
}

//@h name=cmd_code_pack props=C04 fn=src/command/mod.rs::Command::pack obligation="Command::code / Command::pack for all 11 kinds and all addresses: code table of ETG.1000.4, 16-bit address then 16-bit register (little endian) resp. 32-bit logical address; auto-increment constructors negate the position (0 - pos mod 2^16)"
#[cfg_attr(kani, kani::proof)]
#[cfg_attr(all(test, verif_replay), test)]
fn cmd_code_pack() {
    let (c, code, addr) = any_command();
    assert!(c.code() == code);
    assert!(c.pack() == addr);
    let pos: u16 = vk::any();
    let reg: u16 = vk::any();
    let aprd: Command = Command::aprd(pos, reg).into();
    assert!(aprd == Command::Read(Reads::Aprd { address: 0u16.wrapping_sub(pos), register: reg }));
    let apwr: Command = Command::apwr(pos, reg).into();
    assert!(apwr == Command::Write(Writes::Apwr { address: 0u16.wrapping_sub(pos), register: reg }));
    let brd: Command = Command::brd(reg).into();
    assert!(brd == Command::Read(Reads::Brd { address: 0, register: reg }));
    let lrw: Command = Command::lrw(vk::any()).into();
    assert!(lrw.code() == 0x0c);
}

//@h name=cf_push_one props=C04 bounded="DATA=64 (PDU area 48 bytes); payload <= 8 bytes; one push into a fresh frame" fn=src/pdu_loop/frame_element/created_frame.rs::CreatedFrame::push_pdu obligation="push_pdu(cmd, data, override) into a fresh frame: Ok iff 12+len fits, len = max(override, data length); header/payload/padding/zero counter exactly as the independent encoder says; TooLong leaves buffer, used length and count unchanged; handle = (index 0, pdu index, code, 12+len)"
#[cfg_attr(kani, kani::proof)]
#[cfg_attr(kani, kani::unwind(70))]
#[cfg_attr(all(test, verif_replay), test)]
fn cf_push_one() {
    let e = blank();
    let idx0: u8 = vk::any();
    let pdu_idx = AtomicU8::new(idx0);
    let mut f = CreatedFrame::claim_created(NonNull::from(&e).cast(), 0, &pdu_idx, DATA).unwrap();
    let (cmd, code, addr) = any_command();
    let data: [u8; 8] = vk::any_array();
    let dlen: usize = vk::any();
    vk::assume(dlen <= 8);
    let ovr: Option<u16> = if vk::any() { Some(vk::any()) } else { None };
    let len = match ovr {
        Some(o) if (o as usize) > dlen => o as usize,
        _ => dlen,
    };
    let before = snapshot_area(&e);
    let r = f.push_pdu(cmd, &data[..dlen], ovr);
    match r {
        Ok(h) => {
            assert!(12 + len <= AREA, "a datagram that does not fit is refused");
            assert!(h.index_in_frame == 0 && h.pdu_idx == idx0 && h.command_code == code && h.alloc_size == 12 + len);
            assert!(e.pdu_payload_len == 12 + len);
            assert!(e.first_pdu.load(Ordering::SeqCst) == idx0 as u16);
            check_pdu(&e.ethernet_frame[16..], 0, code, idx0, addr, len, &data, dlen, false);
            let mut i = 12 + len;
            while i < AREA {
                assert!(e.ethernet_frame[16 + i] == 0, "rest of the area stays zero");
                i += 1;
            }
            assert!(!f.is_empty());
        }
        Err(err) => {
            assert!(err == PduError::TooLong && 12 + len > AREA);
            assert!(e.pdu_payload_len == 0 && f.is_empty());
            assert!(snapshot_area(&e) == before, "a refused push changes nothing");
        }
    }
    assert!(f.can_push_pdu_payload(0) == (e.pdu_payload_len + 12 <= AREA));
    core::mem::forget(f);
}

fn snapshot_area(e: &FrameElement<DATA>) -> [u8; DATA] {
    e.ethernet_frame
}

//@h name=cf_push_two props=C04 bounded="DATA=64; two pushes of <= 8 payload bytes" fn=src/pdu_loop/frame_element/created_frame.rs::CreatedFrame::push_pdu obligation="second push: placed right after the first, the first header gets 'more follows', the second does not; a refused second push leaves the first datagram and the frame untouched; can_push_pdu_payload(l) <=> the following push of length l succeeds"
#[cfg_attr(kani, kani::proof)]
#[cfg_attr(kani, kani::unwind(70))]
#[cfg_attr(all(test, verif_replay), test)]
fn cf_push_two() {
    let e = blank();
    let idx0: u8 = vk::any();
    let pdu_idx = AtomicU8::new(idx0);
    let mut f = CreatedFrame::claim_created(NonNull::from(&e).cast(), 0, &pdu_idx, DATA).unwrap();
    let (c1, code1, addr1) = any_command();
    let d1: [u8; 8] = vk::any_array();
    let l1: usize = vk::any();
    vk::assume(l1 <= 8);
    let r1 = f.push_pdu(c1, &d1[..l1], None);
    assert!(r1.is_ok());
    let (c2, code2, addr2) = any_command();
    let d2: [u8; 8] = vk::any_array();
    let l2: usize = vk::any();
    vk::assume(l2 <= 8);
    let o2: Option<u16> = if vk::any() { Some(vk::any()) } else { None };
    let len2 = match o2 {
        Some(o) if (o as usize) > l2 => o as usize,
        _ => l2,
    };
    let can = f.can_push_pdu_payload(len2);
    let before = snapshot_area(&e);
    let r2 = f.push_pdu(c2, &d2[..l2], o2);
    assert!(can == r2.is_ok(), "can_push_pdu_payload predicts push_pdu");
    let off = 12 + l1;
    match r2 {
        Ok(h) => {
            assert!(off + 12 + len2 <= AREA);
            assert!(h.index_in_frame == 1 && h.pdu_idx == idx0.wrapping_add(1) && h.command_code == code2 && h.alloc_size == 12 + len2);
            assert!(e.pdu_payload_len == off + 12 + len2);
            assert!(e.first_pdu.load(Ordering::SeqCst) == idx0 as u16, "the frame stays keyed by its FIRST datagram index");
            check_pdu(&e.ethernet_frame[16..], 0, code1, idx0, addr1, l1, &d1, l1, true);
            check_pdu(&e.ethernet_frame[16..], off, code2, idx0.wrapping_add(1), addr2, len2, &d2, l2, false);
        }
        Err(err) => {
            assert!(err == PduError::TooLong && off + 12 + len2 > AREA);
            assert!(e.pdu_payload_len == off);
            assert!(snapshot_area(&e) == before);
            check_pdu(&e.ethernet_frame[16..], 0, code1, idx0, addr1, l1, &d1, l1, false);
        }
    }
    core::mem::forget(f);
}

//@h name=cf_push_three props=C04 bounded="DATA=64; three pushes of <= 4 payload bytes each (symbolic, different sizes)" fn=src/pdu_loop/frame_element/created_frame.rs::CreatedFrame::push_pdu obligation="three datagrams of different sizes: each placed right after the previous one, 'more follows' on the first two and not on the last, interrupt fields and counters stay zero (the position of the previous header is tracked across pushes)"
#[cfg_attr(kani, kani::proof)]
#[cfg_attr(kani, kani::unwind(70))]
#[cfg_attr(all(test, verif_replay), test)]
fn cf_push_three() {
    let e = blank();
    let idx0: u8 = vk::any();
    let pdu_idx = AtomicU8::new(idx0);
    let mut f = CreatedFrame::claim_created(NonNull::from(&e).cast(), 0, &pdu_idx, DATA).unwrap();
    let d: [u8; 8] = vk::any_array();
    let l1: usize = vk::any();
    let l2: usize = vk::any();
    let l3: usize = vk::any();
    vk::assume(l1 <= 4 && l2 <= 4 && l3 <= 4);
    let (c1, k1, a1) = any_command();
    let (c2, k2, a2) = any_command();
    let (c3, k3, a3) = any_command();
    assert!(f.push_pdu(c1, &d[..l1], None).is_ok());
    assert!(f.push_pdu(c2, &d[..l2], None).is_ok());
    let h3 = f.push_pdu(c3, &d[..l3], None);
    assert!(h3.is_ok());
    let h3 = h3.unwrap();
    assert!(h3.index_in_frame == 2 && h3.pdu_idx == idx0.wrapping_add(2));
    let o2 = 12 + l1;
    let o3 = o2 + 12 + l2;
    assert!(e.pdu_payload_len == o3 + 12 + l3);
    check_pdu(&e.ethernet_frame[16..], 0, k1, idx0, a1, l1, &d, l1, true);
    check_pdu(&e.ethernet_frame[16..], o2, k2, idx0.wrapping_add(1), a2, l2, &d, l2, true);
    check_pdu(&e.ethernet_frame[16..], o3, k3, idx0.wrapping_add(2), a3, l3, &d, l3, false);
    core::mem::forget(f);
}

//@h name=cf_push_rest props=C04,C07 bounded="DATA=64; fill-the-rest push of <= 48 bytes after an optional first datagram of <= 8 bytes" fn=src/pdu_loop/frame_element/created_frame.rs::CreatedFrame::push_pdu_slice_rest obligation="push_pdu_slice_rest(cmd, bytes): None iff bytes empty or free space <= 12; otherwise Some(n) with n = min(bytes.len, free-12) > 0, the datagram carries exactly bytes[0..n] with length n, the previous header gets 'more follows'; never an error"
#[cfg_attr(kani, kani::proof)]
#[cfg_attr(kani, kani::unwind(70))]
#[cfg_attr(all(test, verif_replay), test)]
fn cf_push_rest() {
    let e = blank();
    let idx0: u8 = vk::any();
    let pdu_idx = AtomicU8::new(idx0);
    let mut f = CreatedFrame::claim_created(NonNull::from(&e).cast(), 0, &pdu_idx, DATA).unwrap();
    let first: bool = vk::any();
    let l1: usize = vk::any();
    vk::assume(l1 <= 30);
    let d1 = [0x5au8; 30];
    if first {
        assert!(f.push_pdu(Command::Read(Reads::Frmw { address: 1, register: 0x0910 }), &d1[..l1], None).is_ok());
    }
    let used = if first { 12 + l1 } else { 0 };
    let (cmd, code, addr) = any_command();
    let bytes: [u8; AREA] = vk::any_array();
    let blen: usize = vk::any();
    vk::assume(blen <= AREA);
    let before = snapshot_area(&e);
    let r = f.push_pdu_slice_rest(cmd, &bytes[..blen]);
    let free = AREA - used;
    let room = if free > 12 { free - 12 } else { 0 };
    let n = if blen < room { blen } else { room };
    match r {
        Ok(None) => {
            assert!(n == 0, "fill-the-rest refuses only when nothing fits or nothing was given");
            assert!(snapshot_area(&e) == before && e.pdu_payload_len == used);
        }
        Ok(Some((got, h))) => {
            assert!(n > 0 && got == n, "cut to the bytes that fit, and reported as such");
            assert!(h.alloc_size == n + 12 && h.command_code == code && h.index_in_frame == if first { 1 } else { 0 });
            assert!(e.pdu_payload_len == used + 12 + n && used + 12 + n <= AREA);
            let area = &e.ethernet_frame[16..];
            assert!(area[used] == code && area[used + 1] == h.pdu_idx);
            assert!(area[used + 2] == addr[0] && area[used + 3] == addr[1] && area[used + 4] == addr[2] && area[used + 5] == addr[3]);
            assert!(u16::from_le_bytes([area[used + 6], area[used + 7]]) == n as u16);
            let mut i = 0;
            while i < AREA {
                if i < n {
                    assert!(area[used + 10 + i] == bytes[i]);
                }
                i += 1;
            }
            if first {
                assert!(area[7] & 0x80 != 0, "previous datagram now says 'more follows'");
            }
        }
        Err(_) => assert!(false, "push_pdu_slice_rest never fails on a well-formed frame"),
    }
    core::mem::forget(f);
}

static mut VNOW: u64 = 0;
fn vnow() -> u64 {
    unsafe { VNOW }
}
fn vschedule(_at: u64, _w: &core::task::Waker) {}

//@h name=cf_mark_sendable props=C04,C02 bounded="DATA=64" fn=src/pdu_loop/frame_element/created_frame.rs::CreatedFrame::mark_sendable obligation="mark_sendable: EtherCAT header = payload length | 0x1000 (little endian), state Sendable, nothing else in the buffer changes; SendableFrame::as_bytes = 14 + 2 + payload length bytes <= frame size, starting ff*6, 10*6, 88 a4"
#[cfg_attr(kani, kani::proof)]
#[cfg_attr(kani, kani::unwind(70))]
#[cfg_attr(kani, kani::stub(embassy_time_driver::now, vnow))]
#[cfg_attr(kani, kani::stub(embassy_time_driver::schedule_wake, vschedule))]
fn cf_mark_sendable() {
    let storage = crate::pdu_loop::storage::PduStorage::<1, DATA>::new();
    let (_tx, _rx, pdu_loop) = storage.try_split().unwrap();
    let e = blank();
    let pdu_idx = AtomicU8::new(vk::any());
    let mut f = CreatedFrame::claim_created(NonNull::from(&e).cast(), 0, &pdu_idx, DATA).unwrap();
    let d: [u8; 8] = vk::any_array();
    let l: usize = vk::any();
    vk::assume(l <= 8);
    assert!(f.push_pdu(any_command().0, &d[..l], None).is_ok());
    let before = snapshot_area(&e);
    let fut = f.mark_sendable(
        &pdu_loop,
        crate::timer_factory::LabeledTimeout { duration: core::time::Duration::from_micros(10), kind: crate::timer_factory::TimeoutKind::Pdu },
        vk::any(),
    );
    assert!(peek(&e) == FrameState::Sendable);
    let plen = (12 + l) as u16;
    assert!(e.ethernet_frame[14] == (plen | 0x1000).to_le_bytes()[0] && e.ethernet_frame[15] == (plen | 0x1000).to_le_bytes()[1]);
    let mut i = 0;
    while i < DATA {
        if i != 14 && i != 15 {
            assert!(e.ethernet_frame[i] == before[i]);
        }
        i += 1;
    }
    let sf = SendableFrame::claim_sending(NonNull::from(&e).cast(), &pdu_idx, DATA).unwrap();
    assert!(sf.len() == 14 + 2 + 12 + l && sf.len() <= DATA);
    assert!(e.ethernet_frame[0..6] == [0xff; 6] && e.ethernet_frame[6..12] == [0x10; 6] && e.ethernet_frame[12] == 0x88 && e.ethernet_frame[13] == 0xa4);
    core::mem::forget(fut);
}

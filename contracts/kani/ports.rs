//@kani host=src/subdevice/ports.rs
// C17: the 4-port functions of `Ports` against closed-form specifications, for all 16 activity patterns,
// all u32 receive times and all downstream assignments.  Every loop in these functions runs over the fixed 4-element
// port array (iterator adapters); harnesses carry an unwind bound of 10 with unwinding assertions ON, so a passing
// run is complete, not bounded.
use super::*;
use crate::verif_vk as vk;

/// type invariant of `Ports` (established by `Ports::new`, the only constructor): numbers are 0,3,1,2 in slot order
pub(crate) fn any_ports() -> Ports {
    let mut p = Ports::new(vk::any(), vk::any(), vk::any(), vk::any());
    p.set_receive_times(vk::any(), vk::any(), vk::any(), vk::any());
    let mut i = 0;
    while i < 4 {
        let d: u16 = vk::any();
        p.0[i].downstream_to = NonZeroU16::new(d);
        i += 1;
    }
    p
}

fn n_active(p: &Ports) -> u8 {
    p.0[0].active as u8 + p.0[1].active as u8 + p.0[2].active as u8 + p.0[3].active as u8
}

//@h name=ports_topology_total props=C17 fn=src/subdevice/ports.rs::Ports::topology obligation="topology() never panics for any link report with >=1 open port and equals the open-port count mapping"
#[cfg_attr(kani, kani::proof)]
#[cfg_attr(kani, kani::unwind(10))]
#[cfg_attr(all(test, verif_replay), test)]
fn ports_topology_total() {
    let p = any_ports();
    vk::assume(n_active(&p) >= 1);
    let t = p.topology();
    match n_active(&p) {
        1 => assert!(t == Topology::LineEnd),
        2 => assert!(t == Topology::Passthrough),
        3 => assert!(t == Topology::Fork),
        _ => assert!(t == Topology::Cross),
    }
    assert!(t.is_junction() == (n_active(&p) >= 3));
}

//@h name=ports_entry_port props=C17 fn=src/subdevice/ports.rs::Ports::entry_port obligation="entry_port() = first active port with minimal receive time; no panic when >=1 port is open"
#[cfg_attr(kani, kani::proof)]
#[cfg_attr(kani, kani::unwind(10))]
#[cfg_attr(all(test, verif_replay), test)]
fn ports_entry_port() {
    let p = any_ports();
    vk::assume(n_active(&p) >= 1);
    let e = p.entry_port();
    let ei = e.index();
    assert!(ei < 4);
    assert!(p.0[ei] == e && e.active);
    let mut i = 0;
    while i < 4 {
        if p.0[i].active {
            assert!(e.dc_receive_time <= p.0[i].dc_receive_time);
            if i < ei {
                assert!(p.0[i].dc_receive_time > e.dc_receive_time);
            }
        }
        i += 1;
    }
}

//@h name=ports_last_port props=C17 fn=src/subdevice/ports.rs::Ports::last_port obligation="last_port() = highest-slot active port, None iff no port open"
#[cfg_attr(kani, kani::proof)]
#[cfg_attr(kani, kani::unwind(10))]
#[cfg_attr(all(test, verif_replay), test)]
fn ports_last_port() {
    let p = any_ports();
    match p.last_port() {
        None => assert!(n_active(&p) == 0),
        Some(l) => {
            let li = l.index();
            assert!(l.active && p.0[li] == *l);
            let mut i = li + 1;
            while i < 4 {
                assert!(!p.0[i].active);
                i += 1;
            }
            assert!(p.is_last_port(l));
        }
    }
}

fn spec_minmax(p: &Ports, lo: usize, hi: usize) -> Option<u32> {
    // max - min of the receive times of active ports with slot index in [lo, hi]; None if none / zero
    let mut mx: Option<u32> = None;
    let mut mn: Option<u32> = None;
    let mut i = 0;
    while i < 4 {
        if p.0[i].active && i >= lo && i <= hi {
            let t = p.0[i].dc_receive_time;
            mx = Some(match mx { Some(m) if m >= t => m, _ => t });
            mn = Some(match mn { Some(m) if m <= t => m, _ => t });
        }
        i += 1;
    }
    match (mx, mn) {
        (Some(a), Some(b)) if a - b > 0 => Some(a - b),
        _ => None,
    }
}

//@h name=ports_total_propagation_time props=C17 fn=src/subdevice/ports.rs::Ports::total_propagation_time obligation="total_propagation_time() = max-min over active ports (None when 0), never panics"
#[cfg_attr(kani, kani::proof)]
#[cfg_attr(kani, kani::unwind(10))]
#[cfg_attr(all(test, verif_replay), test)]
fn ports_total_propagation_time() {
    let p = any_ports();
    assert!(p.total_propagation_time() == spec_minmax(&p, 0, 3));
}

//@h name=ports_propagation_time_to props=C17 fn=src/subdevice/ports.rs::Ports::propagation_time_to obligation="propagation_time_to(port) = max-min over active ports between the entry port and `port` (slot order)"
#[cfg_attr(kani, kani::proof)]
#[cfg_attr(kani, kani::unwind(10))]
#[cfg_attr(all(test, verif_replay), test)]
fn ports_propagation_time_to() {
    let p = any_ports();
    vk::assume(n_active(&p) >= 1);
    let k: usize = vk::any();
    vk::assume(k < 4);
    let target = p.0[k];
    let e = p.entry_port().index();
    assert!(p.propagation_time_to(&target) == if e <= k { spec_minmax(&p, e, k) } else { None });
}

//@h name=ports_intermediate_time props=C17 fn=src/subdevice/ports.rs::Ports::intermediate_propagation_time_to obligation="intermediate_propagation_time_to(port) = sum (saturating at u32::MAX) of saturating deltas of adjacent active slot pairs before `port`; never panics"
#[cfg_attr(kani, kani::proof)]
#[cfg_attr(kani, kani::unwind(10))]
#[cfg_attr(all(test, verif_replay), test)]
fn ports_intermediate_time() {
    let p = any_ports();
    let k: usize = vk::any();
    vk::assume(k < 4);
    let target = p.0[k];
    let got = p.intermediate_propagation_time_to(&target);
    let mut want: u64 = 0;
    let mut i = 0;
    while i < 3 {
        if i < k && p.0[i].active && p.0[i + 1].active {
            want += p.0[i + 1].dc_receive_time.saturating_sub(p.0[i].dc_receive_time) as u64;
        }
        i += 1;
    }
    assert!(got as u64 == if want > u32::MAX as u64 { u32::MAX as u64 } else { want });
}

//@h name=ports_assign_next props=C17 fn=src/subdevice/ports.rs::Ports::assign_next_downstream_port obligation="assign_next_downstream_port(i): picks the first unassigned active port after the entry port in cyclic slot order, sets only that port's downstream, returns its number; None iff no active port is unassigned; no panic when >=1 port open"
#[cfg_attr(kani, kani::proof)]
#[cfg_attr(kani, kani::unwind(12))]
#[cfg_attr(all(test, verif_replay), test)]
fn ports_assign_next() {
    let mut p = any_ports();
    vk::assume(n_active(&p) >= 1);
    let before = p;
    let idx: u16 = vk::any();
    vk::assume(idx != 0);
    let e = before.entry_port().index();
    let r = p.assign_next_downstream_port(NonZeroU16::new(idx).unwrap());
    match r {
        Some(number) => {
            // exactly one slot changed, it was active and unassigned, and now points at idx
            let mut changed = 0;
            let mut i = 0;
            while i < 4 {
                if p.0[i] != before.0[i] {
                    changed += 1;
                    assert!(before.0[i].active && before.0[i].downstream_to.is_none());
                    assert!(p.0[i].downstream_to == NonZeroU16::new(idx));
                    assert!(p.0[i].number == number && p.0[i].active == before.0[i].active);
                    assert!(p.0[i].dc_receive_time == before.0[i].dc_receive_time);
                }
                i += 1;
            }
            assert!(changed == 1);
        }
        None => {
            assert!(p == before);
        }
    }
}

//@h name=ports_assign_next_order props=C17 fn=src/subdevice/ports.rs::Ports::assign_next_downstream_port obligation="with the entry at slot 0 (upstream port 0, the tree assumption of C17) downstream ports are handed out in slot order 3,1,2 and a free active port is always found"
#[cfg_attr(kani, kani::proof)]
#[cfg_attr(kani, kani::unwind(12))]
#[cfg_attr(all(test, verif_replay), test)]
fn ports_assign_next_order() {
    let mut p = any_ports();
    vk::assume(p.0[0].active);
    let before = p;
    vk::assume(before.entry_port().index() == 0);
    let r = p.assign_next_downstream_port(NonZeroU16::new(7).unwrap());
    // first active, unassigned slot among 1,2,3 (else slot 0 itself when unassigned)
    let mut want: Option<usize> = None;
    let mut i = 1;
    while i < 4 {
        if want.is_none() && before.0[i].active && before.0[i].downstream_to.is_none() {
            want = Some(i);
        }
        i += 1;
    }
    if want.is_none() && before.0[0].downstream_to.is_none() {
        want = Some(0);
    }
    match want {
        Some(w) => assert!(r == Some(before.0[w].number) && p.0[w].downstream_to == NonZeroU16::new(7)),
        None => assert!(r.is_none()),
    }
}

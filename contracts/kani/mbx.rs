//@kani host=src/subdevice/mod.rs
// C15: the mailbox counter carried by every CoE request (SubDevice::mailbox_counter, a fetch_update on an AtomicU8).
// Loop-free for a single caller (the CAS of fetch_update succeeds at once; unwinding assertions on) and over every stored
// value: complete, not bounded.  The stored value is initialised to 1 by SubDevice::new - proved on the extracted tail of
// `new` in the Verus unit init_addr (postcondition `mailbox_counter.init == 1`).
use super::*;
use crate::verif_vk as vk;

fn device(counter: u8) -> SubDevice {
    SubDevice {
        configured_address: 0x1000,
        alias_address: 0,
        config: SubDeviceConfig::default(),
        identity: Default::default(),
        name: Default::default(),
        ports: Default::default(),
        dc_support: Default::default(),
        dc_receive_time: 0,
        index: 0,
        parent_index: None,
        propagation_delay: 0,
        mailbox_counter: AtomicU8::new(counter),
        dc_sync: DcSync::Disabled,
        oversampling_config: &[],
    }
}

//@h name=mbx_counter_cycle props=C15 fn=src/subdevice/mod.rs::SubDevice::mailbox_counter obligation="with a stored counter n in 1..=7 (the invariant, established by SubDevice::new with 1): the call returns n - a value in 1..=7, never the reserved 0 - and stores n+1, wrapping 7 -> 1: consecutive requests cycle through 1,2,..,7,1,.. and the invariant is kept"
#[cfg_attr(kani, kani::proof)]
#[cfg_attr(kani, kani::unwind(3))]
#[cfg_attr(all(test, verif_replay), test)]
fn mbx_counter_cycle() {
    let n: u8 = vk::any();
    vk::assume(n >= 1 && n <= 7);
    let sd = device(n);
    let a = sd.mailbox_counter();
    let b = sd.mailbox_counter();
    let stored = sd.mailbox_counter.load(Ordering::Acquire);
    assert!(a == n, "the request carries the stored counter");
    assert!(a >= 1 && a <= 7, "counter in 1..=7");
    assert!(b == if n == 7 { 1 } else { n + 1 }, "the next request carries the successor, 7 wraps to 1");
    assert!(stored >= 1 && stored <= 7, "the stored counter stays in 1..=7");
    assert!(a != b, "two consecutive requests never carry the same counter");
}

//@h name=mbx_counter_any props=C15,C16 fn=src/subdevice/mod.rs::SubDevice::mailbox_counter obligation="for ANY stored byte the call neither panics (the unwrap is on Some) nor overflows, and whatever was stored the value stored afterwards is in 1..=7"
#[cfg_attr(kani, kani::proof)]
#[cfg_attr(kani, kani::unwind(3))]
#[cfg_attr(all(test, verif_replay), test)]
fn mbx_counter_any() {
    let n: u8 = vk::any();
    let sd = device(n);
    let a = sd.mailbox_counter();
    let stored = sd.mailbox_counter.load(Ordering::Acquire);
    assert!(a == n);
    assert!(stored >= 1 && stored <= 7);
}

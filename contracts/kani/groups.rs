//@kani host=src/subdevice_group/handle.rs
// C09: SubDeviceGroupHandle::push - how MainDevice::init hands the SubDevices it found to the caller's groups: a group takes
// SubDevices up to its capacity, one more is refused with Error::Capacity(SubDevice) and changes nothing (never a panic, never a
// silently dropped device).
use super::*;
use crate::verif_vk as vk;
use crate::subdevice_group::PreOp;

fn dev(addr: u16) -> SubDevice {
    SubDevice {
        configured_address: addr,
        alias_address: 0,
        config: Default::default(),
        identity: Default::default(),
        name: Default::default(),
        ports: Default::default(),
        dc_support: Default::default(),
        dc_receive_time: 0,
        index: 0,
        parent_index: None,
        propagation_delay: 0,
        mailbox_counter: core::sync::atomic::AtomicU8::new(1),
        dc_sync: crate::DcSync::Disabled,
        oversampling_config: &[],
    }
}

//@h name=group_push_capacity props=C09 bounded="group capacity 2" fn=src/subdevice_group/handle.rs::SubDeviceGroupHandle::push obligation="push: the first two SubDevices are taken in order (the group then holds exactly them), the third is refused with Error::Capacity(Item::SubDevice) and the group still holds the first two"
#[cfg_attr(kani, kani::proof)]
#[cfg_attr(kani, kani::unwind(4))]
#[cfg_attr(all(test, verif_replay), test)]
fn group_push_capacity() {
    let g = SubDeviceGroup::<2, 8, crate::DefaultLock, PreOp>::default();
    let a: u16 = vk::any();
    let b: u16 = vk::any();
    assert!(g.len() == 0);
    assert!(unsafe { SubDeviceGroupHandle::push(&g, dev(a)) }.is_ok());
    assert!(unsafe { SubDeviceGroupHandle::push(&g, dev(b)) }.is_ok());
    assert!(g.len() == 2);
    let r = unsafe { SubDeviceGroupHandle::push(&g, dev(0x7777)) };
    assert!(r == Err(Error::Capacity(crate::error::Item::SubDevice)));
    assert!(g.len() == 2);
    let inner = unsafe { &*g.inner.get() };
    assert!(inner.subdevices[0].configured_address == a && inner.subdevices[1].configured_address == b);
}

//@kani host=ethercrab-wire/src/impls.rs crate=ethercrab-wire
// C19: the hand-written wire impls of ethercrab-wire/src/impls.rs (primitives, bool, unit, byte arrays and slices, arrays and
// heapless vectors of sized items, tuples).  Loop-free or fixed small sizes; every value / every byte symbolic: complete for the
// instantiations named (the impls are generic over N resp. the element type - other instantiations are not covered).
use super::*;
use crate::verif_vk as vk;

macro_rules! prim_harness {
    ($name:ident, $ty:ty, $size:expr) => {
        #[cfg_attr(kani, kani::proof)]
        #[cfg_attr(all(test, verif_replay), test)]
        fn $name() {
            let v: $ty = vk::any();
            let le = v.to_le_bytes();
            // sized pack / length
            assert!(<$ty as EtherCrabWireWriteSized>::pack(&v) == le);
            assert!(<$ty as EtherCrabWireWrite>::packed_len(&v) == $size && <$ty as EtherCrabWireSized>::PACKED_LEN == $size);
            assert!(<$ty as EtherCrabWireSized>::buffer().as_ref().len() == $size);
            // checked pack: exactly the first $size bytes change; a short destination is refused
            let before: [u8; $size + 2] = vk::any_array();
            let mut buf = before;
            let n = {
                let w = <$ty as EtherCrabWireWrite>::pack_to_slice(&v, &mut buf).unwrap();
                assert!(w == &le[..]);
                w.len()
            };
            assert!(n == $size && buf[..$size] == le && buf[$size..] == before[$size..]);
            let mut short = [0u8; $size - 1];
            assert!(matches!(<$ty as EtherCrabWireWrite>::pack_to_slice(&v, &mut short), Err(WireError::WriteBufferTooShort)));
            // unpack: little endian from the first $size bytes, the rest ignored; short buffer refused; round trip
            let raw: [u8; $size + 2] = vk::any_array();
            let mut first = [0u8; $size];
            first.copy_from_slice(&raw[..$size]);
            assert!(<$ty as EtherCrabWireRead>::unpack_from_slice(&raw) == Ok(<$ty>::from_le_bytes(first)));
            assert!(<$ty as EtherCrabWireRead>::unpack_from_slice(&raw[..$size - 1]) == Err(WireError::ReadBufferTooShort));
            assert!(<$ty as EtherCrabWireRead>::unpack_from_slice(&le) == Ok(v));
        }
    };
}

//@h name=wire_prim_u8 props=C19 fn=ethercrab-wire/src/impls.rs::impl_primitive_wire_field obligation="u8: pack = to_le_bytes, checked pack touches exactly the first byte and refuses a short destination, unpack reads little endian from the first byte(s) and refuses a short buffer, round trip, buffer() holds PACKED_LEN bytes - for every value and every byte"
prim_harness!(wire_prim_u8, u8, 1);
//@h name=wire_prim_u16 props=C19 fn=ethercrab-wire/src/impls.rs::impl_primitive_wire_field obligation="u16: as wire_prim_u8"
prim_harness!(wire_prim_u16, u16, 2);
//@h name=wire_prim_u32 props=C19 fn=ethercrab-wire/src/impls.rs::impl_primitive_wire_field obligation="u32: as wire_prim_u8"
prim_harness!(wire_prim_u32, u32, 4);
//@h name=wire_prim_u64 props=C19 fn=ethercrab-wire/src/impls.rs::impl_primitive_wire_field obligation="u64: as wire_prim_u8"
prim_harness!(wire_prim_u64, u64, 8);
//@h name=wire_prim_i8 props=C19 fn=ethercrab-wire/src/impls.rs::impl_primitive_wire_field obligation="i8: as wire_prim_u8"
prim_harness!(wire_prim_i8, i8, 1);
//@h name=wire_prim_i16 props=C19 fn=ethercrab-wire/src/impls.rs::impl_primitive_wire_field obligation="i16: as wire_prim_u8"
prim_harness!(wire_prim_i16, i16, 2);
//@h name=wire_prim_i32 props=C19 fn=ethercrab-wire/src/impls.rs::impl_primitive_wire_field obligation="i32: as wire_prim_u8"
prim_harness!(wire_prim_i32, i32, 4);
//@h name=wire_prim_i64 props=C19 fn=ethercrab-wire/src/impls.rs::impl_primitive_wire_field obligation="i64: as wire_prim_u8"
prim_harness!(wire_prim_i64, i64, 8);

//@h name=wire_bool_unit props=C19 fn=ethercrab-wire/src/impls.rs::bool obligation="bool: true packs to 0xff, false to 0x00; any non-zero byte unpacks to true; empty buffer refused; round trip. unit: zero bytes, always Ok"
#[cfg_attr(kani, kani::proof)]
#[cfg_attr(all(test, verif_replay), test)]
fn wire_bool_unit() {
    let b: bool = vk::any();
    assert!(b.pack() == [if b { 0xffu8 } else { 0 }]);
    let mut buf = [0x55u8; 2];
    assert!(b.pack_to_slice(&mut buf).unwrap() == &[if b { 0xffu8 } else { 0 }][..]);
    assert!(buf[1] == 0x55);
    let mut none: [u8; 0] = [];
    assert!(matches!(b.pack_to_slice(&mut none), Err(WireError::WriteBufferTooShort)));
    let raw: [u8; 2] = vk::any_array();
    assert!(bool::unpack_from_slice(&raw) == Ok(raw[0] != 0));
    assert!(bool::unpack_from_slice(&raw[..0]) == Err(WireError::ReadBufferTooShort));
    assert!(bool::unpack_from_slice(&b.pack()) == Ok(b));
    assert!(<() as EtherCrabWireSized>::PACKED_LEN == 0 && ().packed_len() == 0 && <()>::unpack_from_slice(&raw) == Ok(()));
}

//@h name=wire_byte_arrays props=C19 fn=ethercrab-wire/src/impls.rs::[u8;N] obligation="[u8; 5] and &[u8]: packed verbatim into the first len bytes, the rest untouched, short destination refused; [u8; 5] unpacks from the first 5 bytes, short buffer refused"
#[cfg_attr(kani, kani::proof)]
#[cfg_attr(kani, kani::unwind(10))]
#[cfg_attr(all(test, verif_replay), test)]
fn wire_byte_arrays() {
    let a: [u8; 5] = vk::any_array();
    let before: [u8; 7] = vk::any_array();
    let mut buf = before;
    assert!(a.pack_to_slice(&mut buf).unwrap() == &a[..]);
    assert!(buf[..5] == a && buf[5..] == before[5..] && a.packed_len() == 5);
    let mut short = [0u8; 4];
    assert!(matches!(a.pack_to_slice(&mut short), Err(WireError::WriteBufferTooShort)));
    let s: &[u8] = &a[..3];
    let mut buf2 = before;
    assert!(s.pack_to_slice(&mut buf2).unwrap() == &a[..3]);
    assert!(buf2[..3] == a[..3] && buf2[3..] == before[3..] && s.packed_len() == 3);
    let mut two = [0u8; 2];
    assert!(matches!(s.pack_to_slice(&mut two), Err(WireError::WriteBufferTooShort)));
    let raw: [u8; 7] = vk::any_array();
    let mut first = [0u8; 5];
    first.copy_from_slice(&raw[..5]);
    assert!(<[u8; 5]>::unpack_from_slice(&raw) == Ok(first));
    assert!(<[u8; 5]>::unpack_from_slice(&raw[..4]) == Err(WireError::ReadBufferTooShort));
}

//@h name=wire_array_of_words props=C19,C15 fn=ethercrab-wire/src/impls.rs::[T;N] obligation="[u16; 3]: unpacks three little-endian words from the first 6 bytes, short buffer refused; PACKED_LEN = 6; buffer() holds PACKED_LEN bytes (the trait's documented contract: 'a buffer sized to contain the packed representation')"
#[cfg_attr(kani, kani::proof)]
#[cfg_attr(kani, kani::unwind(10))]
#[cfg_attr(all(test, verif_replay), test)]
fn wire_array_of_words() {
    let raw: [u8; 8] = vk::any_array();
    let want = [u16::from_le_bytes([raw[0], raw[1]]), u16::from_le_bytes([raw[2], raw[3]]), u16::from_le_bytes([raw[4], raw[5]])];
    assert!(<[u16; 3]>::unpack_from_slice(&raw) == Ok(want));
    assert!(<[u16; 3]>::unpack_from_slice(&raw[..5]) == Err(WireError::ReadBufferTooShort));
    assert!(<[u16; 3] as EtherCrabWireSized>::PACKED_LEN == 6);
    assert!(<[u16; 3] as EtherCrabWireSized>::buffer().as_ref().len() == <[u16; 3] as EtherCrabWireSized>::PACKED_LEN, "C19-A1 buffer() of an array of multi-byte items holds PACKED_LEN bytes");
}

//@h name=wire_tuple props=C19 fn=ethercrab-wire/src/impls.rs::impl_tuples obligation="(u32, u8, u16): fields packed / unpacked back to back in order, little endian; packed_len 7; a buffer shorter than 7 bytes is refused on unpack"
#[cfg_attr(kani, kani::proof)]
#[cfg_attr(kani, kani::unwind(10))]
#[cfg_attr(all(test, verif_replay), test)]
fn wire_tuple() {
    let raw: [u8; 9] = vk::any_array();
    let want = (u32::from_le_bytes([raw[0], raw[1], raw[2], raw[3]]), raw[4], u16::from_le_bytes([raw[5], raw[6]]));
    assert!(<(u32, u8, u16)>::unpack_from_slice(&raw) == Ok(want));
    let n: usize = vk::any();
    vk::assume(n < 7);
    assert!(<(u32, u8, u16)>::unpack_from_slice(&raw[..n]).is_err());
    let t: (u32, u8, u16) = (vk::any(), vk::any(), vk::any());
    let mut buf = [0u8; 9];
    assert!(t.packed_len() == 7);
    let w = t.pack_to_slice(&mut buf).unwrap();
    assert!(w.len() == 7);
    assert!(<(u32, u8, u16)>::unpack_from_slice(&buf) == Ok(t));
}

//@h name=wire_floats props=C19 fn=ethercrab-wire/src/impls.rs::impl_primitive_wire_field obligation="f32 / f64: pack = the IEEE-754 bit pattern little endian, unpack rebuilds exactly that bit pattern (NaN payloads included) from the first 4 / 8 bytes, a short buffer is refused - for every bit pattern"
#[cfg_attr(kani, kani::proof)]
#[cfg_attr(all(test, verif_replay), test)]
fn wire_floats() {
    let b32: u32 = vk::any();
    let v = f32::from_bits(b32);
    assert!(<f32 as EtherCrabWireWriteSized>::pack(&v) == b32.to_le_bytes());
    assert!(<f32 as EtherCrabWireSized>::PACKED_LEN == 4 && v.packed_len() == 4);
    let raw: [u8; 6] = vk::any_array();
    match <f32 as EtherCrabWireRead>::unpack_from_slice(&raw) {
        Ok(x) => assert!(x.to_bits() == u32::from_le_bytes([raw[0], raw[1], raw[2], raw[3]])),
        Err(_) => assert!(false, "four bytes always decode"),
    }
    assert!(<f32 as EtherCrabWireRead>::unpack_from_slice(&raw[..3]).is_err());
    let b64: u64 = vk::any();
    let w = f64::from_bits(b64);
    assert!(<f64 as EtherCrabWireWriteSized>::pack(&w) == b64.to_le_bytes());
    assert!(<f64 as EtherCrabWireSized>::PACKED_LEN == 8 && w.packed_len() == 8);
    let raw8: [u8; 9] = vk::any_array();
    match <f64 as EtherCrabWireRead>::unpack_from_slice(&raw8) {
        Ok(x) => assert!(x.to_bits() == u64::from_le_bytes([raw8[0], raw8[1], raw8[2], raw8[3], raw8[4], raw8[5], raw8[6], raw8[7]])),
        Err(_) => assert!(false, "eight bytes always decode"),
    }
    assert!(<f64 as EtherCrabWireRead>::unpack_from_slice(&raw8[..7]).is_err());
}

//@h name=wire_heapless_vec props=C19 fn=ethercrab-wire/src/impls.rs::heapless::Vec obligation="heapless::Vec<u16, 3>: a buffer of any length 0..=8 unpacks to its whole little-endian words in order, at most 3 of them (trailing odd byte and words beyond the capacity ignored), never a panic; Vec<u8, 4>: PACKED_LEN 4 and buffer() of 4 bytes"
#[cfg_attr(kani, kani::proof)]
#[cfg_attr(kani, kani::unwind(10))]
#[cfg_attr(all(test, verif_replay), test)]
fn wire_heapless_vec() {
    let raw: [u8; 8] = vk::any_array();
    let n: usize = vk::any();
    vk::assume(n <= 8);
    let r = <heapless::Vec<u16, 3> as EtherCrabWireRead>::unpack_from_slice(&raw[..n]);
    let want_len = if n / 2 < 3 { n / 2 } else { 3 };
    match r {
        Ok(v) => {
            assert!(v.len() == want_len);
            let mut i = 0;
            while i < want_len {
                assert!(v[i] == u16::from_le_bytes([raw[2 * i], raw[2 * i + 1]]));
                i += 1;
            }
        }
        Err(_) => assert!(false, "whole words always decode"),
    }
    assert!(<heapless::Vec<u8, 4> as EtherCrabWireSized>::PACKED_LEN == 4);
    assert!(<heapless::Vec<u8, 4> as EtherCrabWireSized>::buffer().len() == 4);
}

//@h name=wire_heapless_string props=C19 bounded="String<3>, buffers of 0..=4 bytes (UTF-8 validation loop unrolled for 4 bytes)" fn=ethercrab-wire/src/impls.rs::heapless::String obligation="heapless::String<3>: ASCII bytes unpack to exactly those characters; a buffer longer than the capacity is ArrayLength; a byte >= 0x80 that is no valid UTF-8 start is InvalidUtf8; never a panic; PACKED_LEN / buffer() = capacity"
#[cfg_attr(kani, kani::proof)]
#[cfg_attr(kani, kani::unwind(8))]
#[cfg_attr(all(test, verif_replay), test)]
fn wire_heapless_string() {
    let raw: [u8; 4] = vk::any_array();
    let n: usize = vk::any();
    vk::assume(n <= 4);
    let ascii = (n < 1 || raw[0] < 0x80) && (n < 2 || raw[1] < 0x80) && (n < 3 || raw[2] < 0x80) && (n < 4 || raw[3] < 0x80);
    let r = <heapless::String<3> as EtherCrabWireRead>::unpack_from_slice(&raw[..n]);
    match r {
        Ok(s) => {
            assert!(n <= 3 && s.len() == n);
            let b = s.as_bytes();
            let mut i = 0;
            while i < n {
                assert!(b[i] == raw[i]);
                i += 1;
            }
        }
        Err(e) => {
            assert!(!(ascii && n <= 3), "ASCII text that fits the capacity always decodes");
            if ascii {
                assert!(e == WireError::ArrayLength);
            }
            if n >= 1 && raw[0] >= 0x80 && raw[0] < 0xc2 {
                assert!(e == WireError::InvalidUtf8);
            }
        }
    }
    assert!(<heapless::String<3> as EtherCrabWireSized>::PACKED_LEN == 3);
    assert!(<heapless::String<3> as EtherCrabWireSized>::buffer().len() == 3);
}

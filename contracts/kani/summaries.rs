//@kani host=src/subdevice_group/tx_rx_response.rs
// C10: the per-cycle summaries of TxRxResponse against their plain meaning, for EVERY combination of states the devices can
// report (AL status is a 4-bit field: 16 values, decoded as None/Init/PreOp/Bootstrap/SafeOp/Op/Other(n)) in groups of
// 1..=3 devices.  BOUNDED in the group size (3); complete in the state values.
use super::*;
use crate::verif_vk as vk;

/// what the 4-bit AL status value n decodes to (src/subdevice_state.rs, catch_all = Other)
fn st(n: u8) -> SubDeviceState {
    match n {
        0 => SubDeviceState::None,
        1 => SubDeviceState::Init,
        2 => SubDeviceState::PreOp,
        3 => SubDeviceState::Bootstrap,
        4 => SubDeviceState::SafeOp,
        8 => SubDeviceState::Op,
        n => SubDeviceState::Other(n),
    }
}

fn any_state() -> (SubDeviceState, u8) {
    let n: u8 = vk::any();
    vk::assume(n < 16);
    (st(n), n)
}

fn response(len: usize, s: [SubDeviceState; 3]) -> TxRxResponse<3, ()> {
    let mut v = heapless::Vec::<SubDeviceState, 3>::new();
    let mut i = 0;
    while i < len {
        let _ = v.push(s[i]);
        i += 1;
    }
    TxRxResponse { working_counter: 0, subdevice_states: v, extra: () }
}

//@h name=summary_predicates props=C10 bounded="groups of 1..=3 devices; every 4-bit state value per device and for the query" fn=src/subdevice_group/tx_rx_response.rs::TxRxResponse::is_in_state obligation="is_in_state(d) is true exactly when EVERY device reported d; all_op() exactly when every device reported OP; group_in_single_state() is Some(s) exactly when every device reported s (else None); group_state() is the union of the reported state bits - a device reporting state 0 (e.g. one that no longer answers) is never counted as being in another state"
#[cfg_attr(kani, kani::proof)]
#[cfg_attr(kani, kani::unwind(6))]
#[cfg_attr(all(test, verif_replay), test)]
fn summary_predicates() {
    let len: usize = vk::any();
    vk::assume(len >= 1 && len <= 3);
    let (s0, n0) = any_state();
    let (s1, n1) = any_state();
    let (s2, n2) = any_state();
    let (d, _) = any_state();
    let r = response(len, [s0, s1, s2]);
    let all_d = s0 == d && (len < 2 || s1 == d) && (len < 3 || s2 == d);
    let all_op = s0 == SubDeviceState::Op && (len < 2 || s1 == SubDeviceState::Op) && (len < 3 || s2 == SubDeviceState::Op);
    let all_same = (len < 2 || s1 == s0) && (len < 3 || s2 == s0);
    let bits = n0 | (if len >= 2 { n1 } else { 0 }) | (if len >= 3 { n2 } else { 0 });
    assert!(r.is_in_state(d) == all_d, "is_in_state(d) <=> every device reported d");
    assert!(r.all_op() == all_op, "all_op() <=> every device reported OP");
    match r.group_in_single_state() {
        Some(s) => assert!(all_same && s == s0, "group_in_single_state() = Some(s) only if every device reported s"),
        None => assert!(!all_same, "group_in_single_state() = None only if two devices differ"),
    }
    assert!(r.group_state().bits() == bits, "group_state() is the union of the reported state bits");
}

//@kani host=src/pdu_loop/frame_element/mod.rs
// C01/C02/C03/C06: per-operation contracts of the frame-slot protocol on the REAL slot (real pointers, real atomics).
// Each harness builds one slot in an ARBITRARY state (all 8 states, arbitrary first_pdu / payload length / buffer bytes)
// and checks the single operation against the protocol table in /verif/specs/slot_protocol.json.
// All harnesses are loop-free over a fixed-size slot => complete for the stated storage configuration (DATA below).
use super::created_frame::{CreatedFrame, PduResponseHandle};
use super::received_frame::{ReceivedFrame, ReceivedPdu};
use super::receiving_frame::{ReceiveFrameFut, ReceivingFrame};
use super::sendable_frame::SendableFrame;
use super::*;
use crate::error::{Error, PduError, TimeoutError};
use crate::pdu_loop::{PduLoop, storage::PduStorage};
use crate::verif_vk as vk;
use core::sync::atomic::AtomicU8;
use core::{future::Future, task::Poll};

pub(crate) const DATA: usize = 44;

pub(crate) fn state_from(k: u8) -> FrameState {
    match k % 8 {
        0 => FrameState::None,
        1 => FrameState::Created,
        2 => FrameState::Sendable,
        3 => FrameState::Sending,
        4 => FrameState::Sent,
        5 => FrameState::RxBusy,
        6 => FrameState::RxDone,
        _ => FrameState::RxProcessing,
    }
}

pub(crate) fn any_state() -> FrameState {
    state_from(vk::any::<u8>())
}

/// A slot with arbitrary contents.  `ethernet_frame` bytes symbolic.
pub(crate) fn any_slot(st: FrameState) -> FrameElement<DATA> {
    FrameElement {
        storage_slot_index: vk::any(),
        status: AtomicFrameState::new(st),
        waker: AtomicWaker::new(),
        pdu_payload_len: {
            let l: usize = vk::any();
            vk::assume(l <= DATA - 16);
            l
        },
        first_pdu: AtomicU16::new(vk::any()),
        ethernet_frame: vk::any_array::<DATA>(),
    }
}

pub(crate) fn peek<const N: usize>(e: &FrameElement<N>) -> FrameState {
    e.status.load(Ordering::SeqCst)
}

pub(crate) unsafe fn peek_ptr(p: NonNull<FrameElement<0>>) -> (FrameState, u16, usize) {
    unsafe {
        (
            (*addr_of!((*p.as_ptr()).status)).load(Ordering::SeqCst),
            (*addr_of!((*p.as_ptr()).first_pdu)).load(Ordering::SeqCst),
            *addr_of!((*p.as_ptr()).pdu_payload_len),
        )
    }
}

pub(crate) unsafe fn poke_ptr(p: NonNull<FrameElement<0>>, st: FrameState, first_pdu: u16, payload_len: usize) {
    unsafe {
        (*addr_of_mut!((*p.as_ptr()).status)).store(st, Ordering::SeqCst);
        (*addr_of_mut!((*p.as_ptr()).first_pdu)).store(first_pdu, Ordering::SeqCst);
        *addr_of_mut!((*p.as_ptr()).pdu_payload_len) = payload_len;
    }
}

/// whole ethernet frame buffer of a slot with data length `len`
pub(crate) unsafe fn bytes_ptr<'a>(p: NonNull<FrameElement<0>>, len: usize) -> &'a mut [u8] {
    unsafe { core::slice::from_raw_parts_mut(FrameElement::<0>::ptr(p).as_ptr(), len) }
}

pub(crate) fn snapshot(e: &FrameElement<DATA>) -> ([u8; DATA], u16, usize) {
    (e.ethernet_frame, e.first_pdu.load(Ordering::SeqCst), e.pdu_payload_len)
}

//@h name=slot_claim_created props=C02,C03 fn=src/pdu_loop/frame_element/mod.rs::FrameElement::claim_created obligation="claim_created succeeds iff the slot is None; then Created, payload length 0, slot index recorded; otherwise nothing changes"
#[cfg_attr(kani, kani::proof)]
#[cfg_attr(all(test, verif_replay), test)]
fn slot_claim_created() {
    let st = any_state();
    let e = any_slot(st);
    let before = snapshot(&e);
    let idx: u8 = vk::any();
    let p: NonNull<FrameElement<DATA>> = NonNull::from(&e);
    let r = unsafe { FrameElement::claim_created(p, idx) };
    match r {
        Ok(_) => {
            assert!(st == FrameState::None);
            assert!(peek(&e) == FrameState::Created);
            assert!(e.pdu_payload_len == 0 && e.storage_slot_index == idx);
            assert!(e.ethernet_frame == before.0);
        }
        Err(err) => {
            assert!(st != FrameState::None && err == PduError::SwapState);
            assert!(peek(&e) == st);
            assert!(snapshot(&e) == before);
        }
    }
}

//@h name=slot_claim_sending props=C02 fn=src/pdu_loop/frame_element/mod.rs::FrameElement::claim_sending obligation="claim_sending succeeds iff Sendable (-> Sending); otherwise state and contents unchanged"
#[cfg_attr(kani, kani::proof)]
#[cfg_attr(all(test, verif_replay), test)]
fn slot_claim_sending() {
    let st = any_state();
    let e = any_slot(st);
    let before = snapshot(&e);
    let r = unsafe { FrameElement::claim_sending(NonNull::from(&e)) };
    assert!(r.is_some() == (st == FrameState::Sendable));
    assert!(peek(&e) == if st == FrameState::Sendable { FrameState::Sending } else { st });
    assert!(snapshot(&e) == before);
}

//@h name=slot_claim_receiving props=C02,C05,C01 fn=src/pdu_loop/frame_element/mod.rs::FrameElement::claim_receiving obligation="claim_receiving succeeds iff Sent (-> RxBusy); otherwise state and contents unchanged"
#[cfg_attr(kani, kani::proof)]
#[cfg_attr(all(test, verif_replay), test)]
fn slot_claim_receiving() {
    let st = any_state();
    let e = any_slot(st);
    let before = snapshot(&e);
    let r = unsafe { FrameElement::claim_receiving(NonNull::from(&e)) };
    assert!(r.is_some() == (st == FrameState::Sent));
    assert!(peek(&e) == if st == FrameState::Sent { FrameState::RxBusy } else { st });
    assert!(snapshot(&e) == before);
}

//@h name=slot_swap_state props=C02 fn=src/pdu_loop/frame_element/mod.rs::FrameElement::swap_state obligation="swap_state(from,to) is a compare-and-set: Ok iff the slot was `from`, Err(actual) and no change otherwise"
#[cfg_attr(kani, kani::proof)]
#[cfg_attr(all(test, verif_replay), test)]
fn slot_swap_state() {
    let st = any_state();
    let from = any_state();
    let to = any_state();
    let e = any_slot(st);
    let before = snapshot(&e);
    let r = unsafe { FrameElement::swap_state(NonNull::from(&e), from, to) };
    match r {
        Ok(_) => assert!(st == from && peek(&e) == to),
        Err(actual) => assert!(st != from && actual == st && peek(&e) == st),
    }
    assert!(snapshot(&e) == before);
}

//@h name=slot_first_pdu props=C01,C05 fn=src/pdu_loop/frame_element/mod.rs::FrameElement::first_pdu_is obligation="first_pdu_is(k) iff the stored marker equals k as u16 (the empty sentinel 0xff00 never matches); set_first_pdu only replaces the sentinel; clear_first_pdu restores it"
#[cfg_attr(kani, kani::proof)]
#[cfg_attr(all(test, verif_replay), test)]
fn slot_first_pdu() {
    let e = any_slot(any_state());
    let raw = e.first_pdu.load(Ordering::SeqCst);
    let k: u8 = vk::any();
    let p: NonNull<FrameElement<0>> = NonNull::from(&e).cast();
    assert!(unsafe { FrameElement::<0>::first_pdu_is(p, k) } == (raw == k as u16));
    let v: u8 = vk::any();
    unsafe { FrameElement::<0>::set_first_pdu(p, v) };
    let now = e.first_pdu.load(Ordering::SeqCst);
    assert!(now == if raw == FIRST_PDU_EMPTY { v as u16 } else { raw });
    unsafe { FrameElement::<0>::clear_first_pdu(p) };
    assert!(e.first_pdu.load(Ordering::SeqCst) == FIRST_PDU_EMPTY);
    assert!(!unsafe { FrameElement::<0>::first_pdu_is(p, k) });
}

//@h name=slot_send_blocking props=C02,C03,C06,C04 fn=src/pdu_loop/frame_element/sendable_frame.rs::SendableFrame::send_blocking obligation="send_blocking hands the driver exactly 14+2+payload_len bytes of the slot; full write -> Sent, Ok(n); short write -> Sendable again, Err(PartialSend{len,sent}); driver error -> Sendable again, that error; buffer never modified; DURING the driver call the slot state is still Sending"
#[cfg_attr(kani, kani::proof)]
#[cfg_attr(all(test, verif_replay), test)]
fn slot_send_blocking() {
    let e = any_slot(FrameState::Sending);
    let before = snapshot(&e);
    let idx = AtomicU8::new(0);
    let f = SendableFrame { inner: FrameBox::new(NonNull::from(&e).cast(), &idx, DATA) };
    let expect_len = 14 + 2 + before.2;
    assert!(f.len() == expect_len);
    let outcome: u8 = vk::any();
    let n: usize = vk::any();
    let mut seen_len = 0usize;
    let mut same = true;
    let mut during = FrameState::None;
    let r = f.send_blocking(|bytes| {
        seen_len = bytes.len();
        during = peek(&e);
        let mut i = 0;
        while i < DATA {
            if i < bytes.len() && bytes[i] != before.0[i] {
                same = false;
            }
            i += 1;
        }
        if outcome == 0 { Ok(n) } else { Err(Error::SendFrame) }
    });
    assert!(seen_len == expect_len && same);
    assert!(during == FrameState::Sending, "while the driver is inside the buffer the slot still says Sending: nobody else can claim it");
    if outcome == 0 && n == expect_len {
        assert!(r == Ok(n) && peek(&e) == FrameState::Sent);
    } else if outcome == 0 {
        assert!(r == Err(Error::PartialSend { len: expect_len, sent: n }) && peek(&e) == FrameState::Sendable);
    } else {
        assert!(r == Err(Error::SendFrame) && peek(&e) == FrameState::Sendable);
    }
    assert!(snapshot(&e) == before);
}

//@h name=slot_mark_received props=C01,C02 fn=src/pdu_loop/frame_element/receiving_frame.rs::ReceivingFrame::mark_received obligation="mark_received: RxBusy -> RxDone (Ok); any other state: Err(InvalidFrameState), no change; contents untouched"
#[cfg_attr(kani, kani::proof)]
#[cfg_attr(all(test, verif_replay), test)]
fn slot_mark_received() {
    let st = any_state();
    let e = any_slot(FrameState::Sent);
    let idx = AtomicU8::new(0);
    // the handle is obtained the legitimate way (Sent -> RxBusy); the slot state is then perturbed arbitrarily
    let f = ReceivingFrame::claim_receiving(NonNull::from(&e).cast(), &idx, DATA).unwrap();
    assert!(peek(&e) == FrameState::RxBusy);
    e.status.store(st, Ordering::SeqCst);
    let before = snapshot(&e);
    let r = f.mark_received();
    if st == FrameState::RxBusy {
        assert!(r.is_ok() && peek(&e) == FrameState::RxDone);
    } else {
        assert!(r == Err(PduError::InvalidFrameState) && peek(&e) == st);
    }
    assert!(snapshot(&e) == before);
}

//@h name=slot_created_drop props=C03,C02 fn=src/pdu_loop/frame_element/created_frame.rs::CreatedFrame::drop obligation="dropping a CreatedFrame - empty or already carrying datagrams - frees the slot if (and only if) it is still Created; any other state is left alone"
#[cfg_attr(kani, kani::proof)]
#[cfg_attr(kani, kani::unwind(70))]
#[cfg_attr(all(test, verif_replay), test)]
fn slot_created_drop() {
    let e = any_slot(FrameState::None);
    let idx = AtomicU8::new(vk::any());
    let mut f = CreatedFrame::claim_created(NonNull::from(&e).cast(), 3, &idx, DATA).unwrap();
    assert!(peek(&e) == FrameState::Created);
    // the frame may or may not carry datagrams when it is abandoned (a later push failed, the caller was cancelled)
    let pushed: bool = vk::any();
    if pushed {
        let r = f.push_pdu(crate::Command::fprd(0x1000, 0x0130).into(), 0u16, None);
        assert!(r.is_ok());
    }
    // somebody (mark_sendable / a later owner) may have moved the slot on: any state
    let st = any_state();
    e.status.store(st, Ordering::SeqCst);
    drop(f);
    assert!(peek(&e) == if st == FrameState::Created { FrameState::None } else { st });
}

//@h name=slot_received_drop props=C03,C01 fn=src/pdu_loop/frame_element/received_frame.rs::ReceivedFrame::drop obligation="dropping a ReceivedFrame releases the slot (RxProcessing -> None) and resets first_pdu to the empty sentinel"
#[cfg_attr(kani, kani::proof)]
#[cfg_attr(all(test, verif_replay), test)]
fn slot_received_drop() {
    let e = any_slot(FrameState::RxProcessing);
    let idx = AtomicU8::new(0);
    let f = ReceivedFrame::new(FrameBox::new(NonNull::from(&e).cast(), &idx, DATA));
    drop(f);
    assert!(peek(&e) == FrameState::None);
    assert!(e.first_pdu.load(Ordering::SeqCst) == FIRST_PDU_EMPTY);
}

//@h name=slot_init props=C04,C03 fn=src/pdu_loop/frame_element/frame_box.rs::FrameBox::init obligation="claim_created + init: dst ff*6, src MAINDEVICE_ADDR, EtherType 0x88a4, everything after the Ethernet header zero, first_pdu = sentinel, payload length 0 (on the real pointers, DATA=44)"
#[cfg_attr(kani, kani::proof)]
#[cfg_attr(all(test, verif_replay), test)]
fn slot_init() {
    let e = any_slot(FrameState::None);
    let idx = AtomicU8::new(vk::any());
    let f = CreatedFrame::claim_created(NonNull::from(&e).cast(), vk::any(), &idx, DATA).unwrap();
    assert!(e.ethernet_frame[0..6] == [0xff; 6]);
    assert!(e.ethernet_frame[6..12] == [0x10; 6]);
    assert!(e.ethernet_frame[12] == 0x88 && e.ethernet_frame[13] == 0xa4);
    let mut i = 14;
    while i < DATA {
        assert!(e.ethernet_frame[i] == 0);
        i += 1;
    }
    assert!(e.first_pdu.load(Ordering::SeqCst) == FIRST_PDU_EMPTY && e.pdu_payload_len == 0);
    assert!(f.is_empty());
    core::mem::forget(f);
}

// ---------------------------------------------------------------------------------------------------------------
// ReceiveFrameFut::poll / drop under a virtual clock (C06, C01.3, C03)
// ---------------------------------------------------------------------------------------------------------------
static mut VNOW: u64 = 0;
const DEADLINE: u64 = 1000;

fn vnow() -> u64 {
    unsafe { VNOW }
}
/// op-log of the time driver: how often a wake-up was scheduled and for which instant the last one was
static mut SCHED_CALLS: u32 = 0;
static mut SCHED_LAST_AT: u64 = 0;
fn vschedule(at: u64, _w: &core::task::Waker) {
    unsafe {
        SCHED_CALLS += 1;
        SCHED_LAST_AT = at;
    }
}
fn vtimer(_t: crate::timer_factory::LabeledTimeout) -> crate::timer_factory::Timer {
    embassy_time::Timer::at(embassy_time::Instant::from_ticks(DEADLINE + 1000))
}

fn pdu_timeout() -> crate::timer_factory::LabeledTimeout {
    crate::timer_factory::LabeledTimeout {
        duration: core::time::Duration::from_micros(1000),
        kind: crate::timer_factory::TimeoutKind::Pdu,
    }
}

fn inside(st: FrameState) -> bool {
    // another party (TX resp. RX) is inside the buffer in these states
    st == FrameState::Sending || st == FrameState::RxBusy
}

//@h name=fut_poll_table props=C06,C01,C03 fn=src/pdu_loop/frame_element/receiving_frame.rs::ReceiveFrameFut::poll obligation="decision table of poll for all 8 slot states x deadline passed or not x any retry count: RxDone wins over an expired deadline; expired & 0 retries -> Err(Timeout(Pdu)); expired & retries>0 -> Pending, retries-1, re-armed, Sendable, buffer and length unchanged (byte-identical retransmission) AND the new deadline registered with the time driver; not expired -> Pending, nothing changed, the current deadline registered; never Ok unless RxDone"
#[cfg_attr(kani, kani::proof)]
#[cfg_attr(kani, kani::stub(embassy_time_driver::now, vnow))]
#[cfg_attr(kani, kani::stub(embassy_time_driver::schedule_wake, vschedule))]
#[cfg_attr(kani, kani::stub(crate::timer_factory::timer, vtimer))]
fn fut_poll_table() {
    let storage = PduStorage::<1, DATA>::new();
    let (_tx, _rx, pdu_loop) = storage.try_split().unwrap();
    let st = any_state();
    let e = any_slot(st);
    let before = snapshot(&e);
    let idx = AtomicU8::new(0);
    let expired: bool = vk::any();
    let retries: usize = vk::any();
    let mut fut = ReceiveFrameFut {
        frame: Some(FrameBox::new(NonNull::from(&e).cast(), &idx, DATA)),
        pdu_loop: &pdu_loop,
        timeout_timer: embassy_time::Timer::at(embassy_time::Instant::from_ticks(DEADLINE)),
        timeout: pdu_timeout(),
        retries_left: retries,
    };
    let waker = core::task::Waker::noop();
    let mut cx = core::task::Context::from_waker(&waker);
    // an embassy timer reports expiry only from its second poll on: register it once at time 0 (as the first poll of
    // the future does), then move the virtual clock
    unsafe { VNOW = 0 };
    let _ = core::pin::Pin::new(&mut fut.timeout_timer).poll(&mut cx);
    unsafe { VNOW = if expired { DEADLINE + 1 } else { 1 } };
    unsafe { SCHED_CALLS = 0 };
    let r = core::pin::Pin::new(&mut fut).poll(&mut cx);
    let (sched_calls, sched_last) = unsafe { (SCHED_CALLS, SCHED_LAST_AT) };
    // contents never change in poll
    assert!(snapshot(&e) == before, "poll must not touch buffer, first_pdu or payload length");
    let after = peek(&e);
    if st == FrameState::RxDone {
        assert!(matches!(r, Poll::Ready(Ok(_))), "a response already received wins over the deadline");
        assert!(after == FrameState::RxProcessing);
        assert!(fut.frame.is_none());
        core::mem::forget(r);
        return;
    }
    assert!(!matches!(r, Poll::Ready(Ok(_))), "never success unless the slot was RxDone");
    if expired && retries == 0 {
        assert!(matches!(r, Poll::Ready(Err(Error::Timeout(TimeoutError::Pdu)))), "expired with no retries left resolves to a PDU timeout");
        assert!(fut.frame.is_none());
        assert!(inside(st) || after == FrameState::None, "timed-out slot is released");
        assert!(!(st == FrameState::Sending) || after == FrameState::Sending, "C06-U1 expiry while TX is inside the buffer must not free the slot");
        assert!(!(st == FrameState::RxBusy) || after == FrameState::RxBusy, "C06-U2 expiry while RX is inside the buffer must not free the slot");
    } else if expired {
        assert!(fut.retries_left == retries - 1, "one retry consumed");
        let resend_ok = st == FrameState::Sendable || st == FrameState::Sending || st == FrameState::Sent || st == FrameState::RxBusy;
        if resend_ok {
            assert!(matches!(r, Poll::Pending) && fut.frame.is_some());
            assert!(sched_calls >= 1 && sched_last == DEADLINE + 1000, "after a retry the NEW deadline is registered with the time driver: a lost retransmission must still wake the task");
        } else {
            assert!(matches!(r, Poll::Ready(Err(Error::Pdu(PduError::InvalidFrameState)))));
        }
        assert!(!(st == FrameState::RxBusy) || after == FrameState::RxBusy, "C06-U3 retry while RX is inside the buffer must not hand the slot to TX");
        assert!(st == FrameState::RxBusy || after == FrameState::Sendable, "retry marks the slot sendable again");
    } else {
        assert!(fut.retries_left == retries && after == st, "deadline not reached: nothing changes");
        let waiting = st == FrameState::Sendable || st == FrameState::Sending || st == FrameState::Sent || st == FrameState::RxBusy;
        if waiting {
            assert!(matches!(r, Poll::Pending) && fut.frame.is_some());
            assert!(sched_calls >= 1 && sched_last == DEADLINE, "while waiting the current deadline is registered with the time driver");
        } else {
            assert!(matches!(r, Poll::Ready(Err(Error::Pdu(PduError::InvalidFrameState)))));
        }
    }
    core::mem::forget(fut);
}

//@h name=fut_drop props=C06,C03 fn=src/pdu_loop/frame_element/receiving_frame.rs::ReceiveFrameFut::drop obligation="dropping the awaiting future returns the slot (None) in every state in which nobody else is inside the buffer, and must not free it while TX (Sending) or RX (RxBusy) is inside"
#[cfg_attr(kani, kani::proof)]
#[cfg_attr(kani, kani::stub(embassy_time_driver::now, vnow))]
#[cfg_attr(kani, kani::stub(embassy_time_driver::schedule_wake, vschedule))]
fn fut_drop() {
    let storage = PduStorage::<1, DATA>::new();
    let (_tx, _rx, pdu_loop) = storage.try_split().unwrap();
    let st = any_state();
    let e = any_slot(st);
    let before = snapshot(&e);
    let idx = AtomicU8::new(0);
    let fut = ReceiveFrameFut {
        frame: Some(FrameBox::new(NonNull::from(&e).cast(), &idx, DATA)),
        pdu_loop: &pdu_loop,
        timeout_timer: embassy_time::Timer::at(embassy_time::Instant::from_ticks(DEADLINE)),
        timeout: pdu_timeout(),
        retries_left: vk::any(),
    };
    drop(fut);
    let after = peek(&e);
    assert!(snapshot(&e) == before);
    assert!(inside(st) || after == FrameState::None, "abandoned request returns its slot");
    assert!(!(st == FrameState::Sending) || after == FrameState::Sending, "C06-U4 abandon while TX is inside the buffer must not free the slot");
    assert!(!(st == FrameState::RxBusy) || after == FrameState::RxBusy, "C06-U5 abandon while RX is inside the buffer must not free the slot");
}


// ---------------------------------------------------------------------------------------------------------------
// Atomic-operation log (ghost state): which operations poll performs, and in which order (C01.3: no lost wake-up)
// ---------------------------------------------------------------------------------------------------------------
static mut OPLOG: [u8; 8] = [0; 8];
static mut OPN: usize = 0;

fn oplog(op: u8) {
    unsafe {
        if OPN < 8 {
            OPLOG[OPN] = op;
        }
        OPN += 1;
    }
}

/// stand-in for AtomicWaker::register that records the call (the waker itself is irrelevant to the order obligation)
fn logged_register(_w: &AtomicWaker, _waker: &core::task::Waker) {
    oplog(1);
}

/// stand-in for AtomicFrameState::compare_exchange: records the call and performs the same update on the real field
fn logged_cas(
    s: &AtomicFrameState,
    current: FrameState,
    new: FrameState,
    _success: Ordering,
    _failure: Ordering,
) -> Result<FrameState, FrameState> {
    oplog(2);
    let cur = s.load(Ordering::SeqCst);
    if cur == current {
        s.store(new, Ordering::SeqCst);
        Ok(cur)
    } else {
        Err(cur)
    }
}

//@h name=fut_poll_waker_order props=C01 fn=src/pdu_loop/frame_element/receiving_frame.rs::ReceiveFrameFut::poll obligation="poll registers the task's waker BEFORE it tests RxDone (the compare-exchange RxDone->RxProcessing), for every slot state: a response stored between the test and a later registration would find no waker and the request would never complete (lost wake-up)"
#[cfg_attr(kani, kani::proof)]
#[cfg_attr(kani, kani::stub(embassy_time_driver::now, vnow))]
#[cfg_attr(kani, kani::stub(embassy_time_driver::schedule_wake, vschedule))]
#[cfg_attr(kani, kani::stub(crate::timer_factory::timer, vtimer))]
#[cfg_attr(kani, kani::stub(atomic_waker::AtomicWaker::register, logged_register))]
#[cfg_attr(kani, kani::stub(crate::pdu_loop::frame_element::AtomicFrameState::compare_exchange, logged_cas))]
fn fut_poll_waker_order() {
    let storage = PduStorage::<1, DATA>::new();
    let (_tx, _rx, pdu_loop) = storage.try_split().unwrap();
    let st = any_state();
    let e = any_slot(st);
    let idx = AtomicU8::new(0);
    let mut fut = ReceiveFrameFut {
        frame: Some(FrameBox::new(NonNull::from(&e).cast(), &idx, DATA)),
        pdu_loop: &pdu_loop,
        timeout_timer: embassy_time::Timer::at(embassy_time::Instant::from_ticks(DEADLINE)),
        timeout: pdu_timeout(),
        retries_left: vk::any(),
    };
    unsafe {
        VNOW = 0;
        OPN = 0;
    }
    let waker = core::task::Waker::noop();
    let mut cx = core::task::Context::from_waker(&waker);
    let r = core::pin::Pin::new(&mut fut).poll(&mut cx);
    let (n, first, second) = unsafe { (OPN, OPLOG[0], OPLOG[1]) };
    assert!(n >= 2, "poll registers a waker and tests the slot state");
    assert!(first == 1 && second == 2, "the waker is registered before the RxDone test");
    core::mem::forget(r);
    core::mem::forget(fut);
}

//@kani host=src/pdu_loop/pdu_flags.rs
// C04 / C01 / C07: the hand-written wire impl of the datagram flags word (11-bit length, circulated bit 14, "more follows" bit 15).
// Loop-free over every 16-bit value and every field combination: complete.  (first_pdu / the PDU iterator take the data length and
// the chain bit of every received datagram from this decoder; push_pdu writes the word through this encoder.)
use super::*;
use crate::verif_vk as vk;
use ethercrab_wire::{EtherCrabWireWrite, EtherCrabWireWriteSized};

//@h name=pdu_flags_all_values props=C04,C01,C07 fn=src/pdu_loop/pdu_flags.rs::PduFlags obligation="for EVERY 16-bit word read: length = low 11 bits, circulated = bit 14, more_follows = bit 15, a buffer shorter than 2 bytes is an error; for every length 0..=2047 and both flags: the word written is length | circulated<<14 | more<<15 little endian in exactly 2 bytes, and reading it back gives the same flags"
#[cfg_attr(kani, kani::proof)]
#[cfg_attr(all(test, verif_replay), test)]
fn pdu_flags_all_values() {
    let raw: u16 = vk::any();
    let b = raw.to_le_bytes();
    match PduFlags::unpack_from_slice(&b) {
        Ok(f) => {
            assert!(f.length == (raw & 0x07ff), "data length = low 11 bits");
            assert!(f.len() == f.length);
            assert!(f.circulated == ((raw & 0x4000) != 0), "circulated = bit 14");
            assert!(f.more_follows == ((raw & 0x8000) != 0), "more_follows = bit 15");
        }
        Err(_) => assert!(false, "two bytes always decode"),
    }
    assert!(PduFlags::unpack_from_slice(&b[..1]).is_err());
    // a longer buffer: only the first two bytes count
    let b3 = [b[0], b[1], vk::any()];
    assert!(PduFlags::unpack_from_slice(&b3) == PduFlags::unpack_from_slice(&b));

    let len: u16 = vk::any();
    vk::assume(len <= 0x07ff);
    let more: bool = vk::any();
    let circ: bool = vk::any();
    let mut f = PduFlags::new(len, more);
    assert!(f.length == len && f.more_follows == more && !f.circulated);
    f.circulated = circ;
    let want = len | ((circ as u16) << 14) | ((more as u16) << 15);
    let mut buf = [0xaau8; 3];
    let n = f.pack_to_slice_unchecked(&mut buf).len();
    assert!(n == 2 && f.packed_len() == 2);
    assert!(u16::from_le_bytes([buf[0], buf[1]]) == want, "length, circulated and more-follows bits written to their places");
    assert!(buf[2] == 0xaa);
    assert!(f.pack() == want.to_le_bytes());
    assert!(PduFlags::unpack_from_slice(&buf) == Ok(f));
    assert!(PduFlags::with_len(len) == PduFlags::new(len, false));
}

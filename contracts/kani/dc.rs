//@kani host=src/dc.rs
// C17: tree-level functions of dc.rs on the real SubDevice type.  BOUNDED in the number of devices (stated per harness);
// link flags, DC support and (where stated) port times are fully symbolic.
use super::*;
use crate::subdevice::ports::Ports;
use crate::verif_vk as vk;
use crate::DcSupport;
use core::sync::atomic::AtomicU8;

fn dev(index: u16, ports: Ports, dc: bool) -> SubDevice {
    SubDevice {
        configured_address: 0x1000 + index,
        alias_address: 0,
        config: Default::default(),
        identity: Default::default(),
        name: heapless::String::new(),
        ports,
        dc_support: if dc { DcSupport::Bits64 } else { DcSupport::None },
        dc_receive_time: 0,
        index,
        parent_index: None,
        propagation_delay: 0,
        mailbox_counter: AtomicU8::new(0),
        dc_sync: Default::default(),
        oversampling_config: &[],
    }
}

/// arbitrary link report (any of the 16 patterns), port times given
fn any_links(t: [u32; 4]) -> Ports {
    let mut p = Ports::new(vk::any(), vk::any(), vk::any(), vk::any());
    p.set_receive_times(t[0], t[1], t[2], t[3]);
    p
}

fn any_times() -> [u32; 4] {
    [vk::any(), vk::any(), vk::any(), vk::any()]
}

fn check_result(devs: &[SubDevice], r: Result<(), Error>) {
    match r {
        Err(e) => assert!(e == Error::Topology || e == Error::Internal),
        Ok(()) => {
            // parent of device i is an earlier device; delays never decrease in processing order among DC devices
            let mut last_delay = 0u32;
            let mut i = 0;
            while i < devs.len() {
                match devs[i].parent_index {
                    None => assert!(i == 0),
                    Some(p) => assert!((p as usize) < i),
                }
                if devs[i].dc_support().any() {
                    assert!(devs[i].propagation_delay >= last_delay);
                    last_delay = devs[i].propagation_delay;
                }
                i += 1;
            }
        }
    }
}

//@h name=dc_find_parent_n4 props=C17 bounded="4 earlier devices with symbolic link reports (>= 1 open port each)" fn=src/dc.rs::find_subdevice_parent obligation="find_subdevice_parent: the parent is the previous device, or - when the previous device is a line end - the NEAREST earlier junction (fork/cross); Err(Topology) iff there is none; no parent for the first device"
#[cfg_attr(kani, kani::proof)]
#[cfg_attr(kani, kani::unwind(10))]
#[cfg_attr(all(test, verif_replay), test)]
fn dc_find_parent_n4() {
    let parents = [
        dev(0, any_links([0; 4]), false),
        dev(1, any_links([0; 4]), false),
        dev(2, any_links([0; 4]), false),
        dev(3, any_links([0; 4]), false),
    ];
    let mut open = [0u8; 4];
    let mut i = 0;
    while i < 4 {
        open[i] = parents[i].ports.open_ports();
        vk::assume(open[i] >= 1);
        i += 1;
    }
    let n: usize = vk::any();
    vk::assume(n <= 4);
    let me = dev(n as u16, any_links([0; 4]), false);
    let r = find_subdevice_parent(&parents[..n], &me);
    if n == 0 {
        assert!(r == Ok(None));
    } else if open[n - 1] != 1 {
        assert!(r == Ok(Some((n - 1) as u16)), "previous device is the parent unless it is a line end");
    } else {
        // nearest earlier junction, searching backwards from n-2
        let mut want: Option<u16> = None;
        let mut k = n - 1;
        while k > 0 {
            k -= 1;
            if want.is_none() && open[k] >= 3 {
                want = Some(k as u16);
            }
        }
        match want {
            Some(w) => assert!(r == Ok(Some(w)), "after a line end the parent is the NEAREST earlier junction"),
            None => assert!(r == Err(Error::Topology)),
        }
    }
}

//@h name=dc_assign_n1 props=C17 bounded="N=1 device; link flags, DC support and all port times symbolic" fn=src/dc.rs::assign_parent_relationships obligation="a single device with ANY link report and any port times: Ok or Err(Topology), never a panic"
#[cfg_attr(kani, kani::proof)]
#[cfg_attr(kani, kani::unwind(12))]
#[cfg_attr(all(test, verif_replay), test)]
fn dc_assign_n1() {
    let mut devs = [dev(0, any_links(any_times()), vk::any())];
    let r = assign_parent_relationships(&mut devs);
    check_result(&devs, r);
}

fn links(k: u8, t: [u32; 4]) -> Ports {
    let mut p = Ports::new(k & 1 != 0, k & 2 != 0, k & 4 != 0, k & 8 != 0);
    p.set_receive_times(t[0], t[1], t[2], t[3]);
    p
}

fn n2(k: u8) {
    // parent link report = concrete pattern k (16 harnesses enumerate all of them); child link report, both DC flags symbolic
    let mut devs = [dev(0, links(k, [100, 900, 1000, 1100]), vk::any()), dev(1, any_links([200, 600, 700, 800]), vk::any())];
    let child_open = devs[1].ports.open_ports();
    let r = assign_parent_relationships(&mut devs);
    // completeness: two devices that CAN form a tree (the first has a port left for the second, the second has its entry port
    // open) are accepted - an error needs a reason
    if (k.count_ones() >= 2) && child_open >= 1 {
        assert!(r.is_ok(), "a parent with a free downstream port and a child with an open port form a tree");
        assert!(devs[1].parent_index == Some(0));
    }
    check_result(&devs, r);
}

macro_rules! n2_harness {
    ($name:ident, $k:expr) => {
        #[cfg_attr(kani, kani::proof)]
        #[cfg_attr(kani, kani::unwind(12))]
        #[cfg_attr(all(test, verif_replay), test)]
        fn $name() {
            n2($k);
        }
    };
}

//@h name=dc_n2_p03 props=C17 bounded="N=2 devices; parent link pattern = ports 0+3 open (passthrough); child link report and DC flags symbolic; port times concrete" fn=src/dc.rs::assign_parent_relationships obligation="Ok or Err(Topology), never a panic; parents precede children; DC delays non-decreasing; a parent with >= 2 open ports and a child with >= 1 open port are ACCEPTED and the child's parent is device 0"
n2_harness!(dc_n2_p03, 0b0011);
//@h name=dc_n2_p031 props=C17 bounded="N=2; parent = fork (ports 0,3,1 open); child symbolic" fn=src/dc.rs::assign_parent_relationships
n2_harness!(dc_n2_p031, 0b0111);
//@h name=dc_n2_p0312 props=C17 bounded="N=2; parent = cross (4 ports open); child symbolic" fn=src/dc.rs::assign_parent_relationships
n2_harness!(dc_n2_p0312, 0b1111);
//@h name=dc_n2_p0 props=C17 tier=thorough bounded="N=2; parent = line end (port 0 only); child symbolic" fn=src/dc.rs::assign_parent_relationships
n2_harness!(dc_n2_p0, 0b0001);
//@h name=dc_n2_k0 props=C17 tier=thorough bounded="N=2; parent pattern 0 (no port open)" fn=src/dc.rs::assign_parent_relationships
n2_harness!(dc_n2_k0, 0);
//@h name=dc_n2_k2 props=C17 tier=thorough bounded="N=2; parent pattern 0b0010" fn=src/dc.rs::assign_parent_relationships
n2_harness!(dc_n2_k2, 2);
//@h name=dc_n2_k4 props=C17 tier=thorough bounded="N=2; parent pattern 0b0100" fn=src/dc.rs::assign_parent_relationships
n2_harness!(dc_n2_k4, 4);
//@h name=dc_n2_k5 props=C17 tier=thorough bounded="N=2; parent pattern 0b0101" fn=src/dc.rs::assign_parent_relationships
n2_harness!(dc_n2_k5, 5);
//@h name=dc_n2_k6 props=C17 tier=thorough bounded="N=2; parent pattern 0b0110" fn=src/dc.rs::assign_parent_relationships
n2_harness!(dc_n2_k6, 6);
//@h name=dc_n2_k8 props=C17 tier=thorough bounded="N=2; parent pattern 0b1000" fn=src/dc.rs::assign_parent_relationships
n2_harness!(dc_n2_k8, 8);
//@h name=dc_n2_k9 props=C17 tier=thorough bounded="N=2; parent pattern 0b1001" fn=src/dc.rs::assign_parent_relationships
n2_harness!(dc_n2_k9, 9);
//@h name=dc_n2_k10 props=C17 tier=thorough bounded="N=2; parent pattern 0b1010" fn=src/dc.rs::assign_parent_relationships
n2_harness!(dc_n2_k10, 10);
//@h name=dc_n2_k11 props=C17 tier=thorough bounded="N=2; parent pattern 0b1011" fn=src/dc.rs::assign_parent_relationships
n2_harness!(dc_n2_k11, 11);
//@h name=dc_n2_k12 props=C17 tier=thorough bounded="N=2; parent pattern 0b1100" fn=src/dc.rs::assign_parent_relationships
n2_harness!(dc_n2_k12, 12);
//@h name=dc_n2_k13 props=C17 tier=thorough bounded="N=2; parent pattern 0b1101" fn=src/dc.rs::assign_parent_relationships
n2_harness!(dc_n2_k13, 13);
//@h name=dc_n2_k14 props=C17 tier=thorough bounded="N=2; parent pattern 0b1110" fn=src/dc.rs::assign_parent_relationships
n2_harness!(dc_n2_k14, 14);

//@h name=dc_chain_delays props=C17 tier=thorough bounded="pure chain of 3 passthrough/line-end devices; symmetric symbolic link delays d1,d2 <= 2^20 ns and forwarding delays; timestamps generated by the timestamp model" fn=src/dc.rs::configure_subdevice_offsets obligation="on a pure chain the delay programmed into device i equals the true one-way delay from the first device: sum of the link delays (floor of half the measured loop difference)"
#[cfg_attr(kani, kani::proof)]
#[cfg_attr(kani, kani::unwind(12))]
#[cfg_attr(all(test, verif_replay), test)]
fn dc_chain_delays() {
    // timestamp model: a frame enters device k at port 0 at local time t0_k and comes back into port 3 (slot 1) after the
    // loop time behind it.  Loop time behind device 2 (line end) = 0; behind device 1 = 2*d2 + f2; behind device 0 = 2*d1 + f1 + L1
    let d1: u32 = vk::any();
    let d2: u32 = vk::any();
    vk::assume(d1 <= (1 << 20) && d2 <= (1 << 20));
    let t0: u32 = vk::any();
    let t1: u32 = vk::any();
    let t2: u32 = vk::any();
    vk::assume(t0 < (1 << 30) && t1 < (1 << 30) && t2 < (1 << 30));
    let l1 = 2 * d2; // loop time seen by device 1 on its downstream port
    let l0 = 2 * d1 + l1; // loop time seen by device 0
    let mut p0 = Ports::new(true, true, false, false);
    p0.set_receive_times(t0, t0 + l0, 0, 0);
    let mut p1 = Ports::new(true, true, false, false);
    p1.set_receive_times(t1, t1 + l1, 0, 0);
    let mut p2 = Ports::new(true, false, false, false);
    p2.set_receive_times(t2, 0, 0, 0);
    let mut devs = [dev(0, p0, true), dev(1, p1, true), dev(2, p2, true)];
    let r = assign_parent_relationships(&mut devs);
    assert!(r.is_ok());
    assert!(devs[0].parent_index.is_none() && devs[1].parent_index == Some(0) && devs[2].parent_index == Some(1));
    assert!(devs[0].propagation_delay == 0);
    assert!(devs[1].propagation_delay == d1);
    assert!(devs[2].propagation_delay == d1 + d2);
}

fn offsets_leaf(k: u8) {
    let mut parent = dev(0, any_links(any_times()), vk::any());
    let mut child = dev(1, any_links(any_times()), vk::any());
    vk::assume(parent.ports.open_ports() == k && child.ports.open_ports() >= 1);
    child.parent_index = Some(0);
    let assigned = parent.ports.assign_next_downstream_port(core::num::NonZeroU16::new(1).unwrap());
    vk::assume(assigned.is_some());
    let acc0: u32 = vk::any();
    let mut acc = acc0;
    let parents = [parent];
    configure_subdevice_offsets(&mut child, &parents, &mut acc);
    let parent = &parents[0];
    assert!(acc >= acc0, "the accumulated delay never decreases");
    assert!(child.propagation_delay == acc, "the device is given the accumulated delay");
    let pt = parent.ports.total_propagation_time().unwrap_or(0);
    let ct = child.ports.total_propagation_time().unwrap_or(0);
    let port = *parent.ports.port_assigned_to(&child).unwrap();
    let is_child = child.is_child_of(parent);
    let want = match parent.ports.topology() {
        Topology::Passthrough => pt.saturating_sub(ct) / 2,
        Topology::Fork => {
            if is_child {
                parent.ports.propagation_time_to(&port).unwrap_or(0).saturating_sub(ct) / 2
            } else {
                pt.saturating_sub(ct) / 2
            }
        }
        Topology::Cross => {
            if is_child {
                parent.ports.intermediate_propagation_time_to(&port).saturating_sub(ct) / 2
            } else {
                pt.saturating_sub(acc0)
            }
        }
        Topology::LineEnd => 0,
    };
    assert!(acc == acc0.saturating_add(want), "delay increment");
}

macro_rules! leaf_harness {
    ($name:ident, $k:expr) => {
        #[cfg_attr(kani, kani::proof)]
        #[cfg_attr(kani, kani::unwind(12))]
        #[cfg_attr(all(test, verif_replay), test)]
        fn $name() {
            offsets_leaf($k);
        }
    };
}

//@h name=dc_offsets_leaf_pass props=C17 bounded="one parent with 2 open ports (passthrough) + one child; which ports, the child's link pattern (>= 1 open port), all 8 port times and the accumulated delay fully symbolic" fn=src/dc.rs::configure_subdevice_offsets obligation="configure_subdevice_offsets for ANY port times: never panics; the accumulated delay never decreases and the child is ALWAYS given the accumulated delay (also when the parent measured no loop time); the increment is half of the parent/child loop-time difference (passthrough), of the children-loop time minus the child's own (fork/cross child), or the remaining part of the parent's loop (cross, not a child) - in terms of the Ports functions proved in group `ports`"
leaf_harness!(dc_offsets_leaf_pass, 2);
//@h name=dc_offsets_leaf_fork props=C17 bounded="as dc_offsets_leaf_pass with a parent with 3 open ports (fork)" fn=src/dc.rs::configure_subdevice_offsets
leaf_harness!(dc_offsets_leaf_fork, 3);
//@h name=dc_offsets_leaf_cross props=C17 bounded="as dc_offsets_leaf_pass with a parent with 4 open ports (cross)" fn=src/dc.rs::configure_subdevice_offsets
leaf_harness!(dc_offsets_leaf_cross, 4);

//! verif shim (injected by /verif/tools/krun.py, never part of /repo): harness inputs are symbolic under Kani and
//! come from recorded counterexample bytes under `--cfg verif_replay` (ordinary compiled test, real code).
#![allow(dead_code, unused)]

pub trait VkAny: Sized {
    fn vk_any() -> Self;
}

#[cfg(kani)]
macro_rules! imp {
    ($($t:ty),*) => { $(impl VkAny for $t { fn vk_any() -> Self { kani::any() } })* };
}

#[cfg(not(kani))]
macro_rules! imp {
    ($($t:ty),*) => { $(impl VkAny for $t { fn vk_any() -> Self {
        let b = replay::next_bytes();
        let mut a = [0u8; core::mem::size_of::<$t>()];
        let n = a.len().min(b.len());
        a[..n].copy_from_slice(&b[..n]);
        <$t>::from_le_bytes(a)
    } })* };
}

imp!(u8, u16, u32, u64, usize, i8, i16, i32, i64);

impl VkAny for bool {
    fn vk_any() -> Self {
        #[cfg(kani)]
        {
            kani::any()
        }
        #[cfg(not(kani))]
        {
            replay::next_bytes().first().copied().unwrap_or(0) != 0
        }
    }
}

pub fn any<T: VkAny>() -> T {
    T::vk_any()
}

pub fn any_array<const N: usize>() -> [u8; N] {
    let mut a = [0u8; N];
    let mut i = 0;
    while i < N {
        a[i] = any::<u8>();
        i += 1;
    }
    a
}

pub fn assume(c: bool) {
    #[cfg(kani)]
    kani::assume(c);
    #[cfg(not(kani))]
    if !c {
        // the recorded input does not satisfy the harness precondition: nothing to replay
        std::process::exit(0);
    }
}

pub fn cover(c: bool) {
    #[cfg(kani)]
    kani::cover!(c);
}

#[cfg(not(kani))]
pub mod replay {
    extern crate std;
    use std::sync::Mutex;
    use std::vec::Vec;
    static VALS: Mutex<Option<Vec<Vec<u8>>>> = Mutex::new(None);

    pub fn next_bytes() -> Vec<u8> {
        let mut g = VALS.lock().unwrap();
        if g.is_none() {
            let s = std::env::var("VERIF_REPLAY_VALUES").unwrap_or_default();
            let mut v: Vec<Vec<u8>> = s
                .split(';')
                .filter(|x| !x.is_empty())
                .map(|x| x.split(',').filter(|y| !y.is_empty()).map(|y| y.parse::<u8>().unwrap()).collect())
                .collect();
            v.reverse();
            *g = Some(v);
        }
        g.as_mut().unwrap().pop().unwrap_or_default()
    }
}

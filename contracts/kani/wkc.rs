//@kani host=src/pdu_loop/frame_element/received_frame.rs
// C11: ReceivedPdu::wkc / maybe_wkc — loop-free, full domain (all u16 counters, all expected values): complete.
use super::*;
use crate::pdu_loop::frame_element::verif_kani_slots::{DATA, any_slot, peek};
use crate::pdu_loop::frame_element::{FrameElement, FrameState};
use crate::verif_vk as vk;
use core::sync::atomic::AtomicU8;

fn mk(buf: &[u8; 4], len: usize, wkc: u16) -> ReceivedPdu<'_> {
    ReceivedPdu {
        data_start: NonNull::new(buf.as_ptr().cast_mut()).unwrap(),
        len,
        working_counter: wkc,
        _storage: PhantomData,
    }
}

//@h name=wkc_contract props=C11 fn=src/pdu_loop/frame_element/received_frame.rs::ReceivedPdu::wkc obligation="wkc(e) is Ok iff counter == e, else WorkingCounter{expected:e, received:counter}; data view unchanged"
#[cfg_attr(kani, kani::proof)]
#[cfg_attr(all(test, verif_replay), test)]
fn wkc_contract() {
    let buf = [1u8, 2, 3, 4];
    let counter: u16 = vk::any();
    let expected: u16 = vk::any();
    let len: usize = vk::any();
    vk::assume(len <= 4);
    let pdu = mk(&buf, len, counter);
    match pdu.wkc(expected) {
        Ok(p) => {
            assert!(counter == expected);
            assert!(p.working_counter == counter);
            assert!(p.len() == len);
            assert!(p.data_start.as_ptr() as *const u8 == buf.as_ptr());
        }
        Err(e) => {
            assert!(counter != expected);
            assert!(e == Error::WorkingCounter { expected, received: counter });
        }
    }
}

//@h name=maybe_wkc_contract props=C11 fn=src/pdu_loop/frame_element/received_frame.rs::ReceivedPdu::maybe_wkc obligation="maybe_wkc(None) is Ok; maybe_wkc(Some(e)) == wkc(e)"
#[cfg_attr(kani, kani::proof)]
#[cfg_attr(all(test, verif_replay), test)]
fn maybe_wkc_contract() {
    let buf = [1u8, 2, 3, 4];
    let counter: u16 = vk::any();
    let expected: u16 = vk::any();
    let some: bool = vk::any();
    let pdu = mk(&buf, 4, counter);
    let r = pdu.maybe_wkc(if some { Some(expected) } else { None });
    match r {
        Ok(p) => {
            assert!(!some || counter == expected);
            assert!(p.working_counter == counter);
        }
        Err(e) => {
            assert!(some && counter != expected);
            assert!(e == Error::WorkingCounter { expected, received: counter });
        }
    }
}

// ---------------------------------------------------------------------------------------------------------------
// ReceivedFrame::first_pdu / ReceivedPdu (C01.4 - C01.6)
// ---------------------------------------------------------------------------------------------------------------
fn pdu_area(e: &FrameElement<DATA>) -> &[u8] {
    &e.ethernet_frame[16..]
}

//@h name=rx_first_pdu props=C01 fn=src/pdu_loop/frame_element/received_frame.rs::ReceivedFrame::first_pdu obligation="first_pdu(h) on ANY buffer contents: Ok(v) => header command = h.command_code, index = h.pdu_idx, v views exactly bytes [10, 10+len) of the PDU area, v.len() = length field, counter = the two bytes after the data, all inside the slot; a datagram that fits the area (exact fit included) with the expected command and index IS delivered; a wrong command gives Decode, a wrong index InvalidIndex; never a panic"
#[cfg_attr(kani, kani::proof)]
#[cfg_attr(all(test, verif_replay), test)]
fn rx_first_pdu() {
    let e = any_slot(FrameState::RxProcessing);
    let idx = AtomicU8::new(0);
    let f = ReceivedFrame::new(FrameBox::new(NonNull::from(&e).cast(), &idx, DATA));
    let h = PduResponseHandle { index_in_frame: 0, pdu_idx: vk::any(), command_code: vk::any(), alloc_size: vk::any() };
    let area_len = DATA - 16;
    let a = pdu_area(&e);
    let len = (u16::from_le_bytes([a[6], a[7]]) & 0x07ff) as usize;
    let (hc, hi) = (h.command_code, h.pdu_idx);
    let r = f.first_pdu(h);
    match r {
        Ok(v) => {
            assert!(a[0] == hc && a[1] == hi);
            assert!(v.len() == len && 10 + len + 2 <= area_len);
            assert!(v.data_start.as_ptr() as *const u8 == a[10..].as_ptr());
            assert!(v.working_counter == u16::from_le_bytes([a[10 + len], a[10 + len + 1]]));
            assert!(peek(&e) == FrameState::RxProcessing, "C01-D2 the slot must stay held while the returned view points into it");
            core::mem::forget(v);
        }
        Err(err) => {
            // completeness: a datagram that lies inside the PDU area - also one that fills it exactly - and carries the expected
            // command code and index IS delivered; an error needs a reason
            assert!(!(10 + len + 2 <= area_len && a[0] == hc && a[1] == hi), "a matching datagram that fits the area is delivered");
            if area_len >= len + 2 + 10 && a[0] == hc {
                // the command matches and the datagram fits: only the index can be wrong, and it is reported as such
                assert!(a[1] != hi && err == Error::Pdu(PduError::InvalidIndex(a[1])));
            }
            if area_len >= len + 2 + 10 && a[0] != hc {
                assert!(err == Error::Pdu(PduError::Decode));
            }
        }
    }
}

//@h name=rx_trim_front props=C01,C16 fn=src/pdu_loop/frame_element/received_frame.rs::ReceivedPdu::trim_front obligation="trim_front(ct): afterwards the view is old[min(ct,len)..]: start advanced by min(ct,len) AND length reduced by the same amount - never a byte outside the datagram's data area"
#[cfg_attr(kani, kani::proof)]
#[cfg_attr(all(test, verif_replay), test)]
fn rx_trim_front() {
    let buf: [u8; 16] = vk::any_array();
    let len: usize = vk::any();
    vk::assume(len <= 16);
    let mut v = ReceivedPdu { data_start: NonNull::new(buf.as_ptr().cast_mut()).unwrap(), len, working_counter: vk::any(), _storage: PhantomData };
    let ct: usize = vk::any();
    v.trim_front(ct);
    let m = if ct < len { ct } else { len };
    assert!(v.data_start.as_ptr() as usize == buf.as_ptr() as usize + m);
    assert!(v.len() == len - m, "C01-D1 trimming must shorten the view");
    assert!(v.data_start.as_ptr() as usize + v.len() <= buf.as_ptr() as usize + len, "view stays inside the data area");
}

// NOTE: harnesses that call `next()` twice (symbolic or concrete second offset) do not finish in CBMC within 10 minutes and were
// removed; the contract of the second and later items ("starts right after the previous datagram, stops after the one without
// 'more follows'") is therefore an ASSUMED contract of the network prelude used by the tx_rx / is_state proofs (listed there).

//@h name=rx_pdu_iter_first props=C01,C07,C10 fn=src/pdu_loop/frame_element/received_frame.rs::ReceivedPduIter::next obligation="first next() of into_pdu_iter() on ANY buffer contents: None iff the frame is empty; Some(Ok(v)) views exactly the first datagram's data area (offset 10, length = its length field, inside the PDU area) with the counter that follows it; otherwise Some(Err); never a panic"
#[cfg_attr(kani, kani::proof)]
#[cfg_attr(all(test, verif_replay), test)]
fn rx_pdu_iter_first() {
    let e = any_slot(FrameState::RxProcessing);
    let idx = AtomicU8::new(0);
    let f = ReceivedFrame::new(FrameBox::new(NonNull::from(&e).cast(), &idx, DATA));
    let area_len = DATA - 16;
    let a = pdu_area(&e);
    let used = e.pdu_payload_len;
    let mut it = f.into_pdu_iter();
    let l0 = (u16::from_le_bytes([a[6], a[7]]) & 0x07ff) as usize;
    let first = it.next();
    match first {
        None => assert!(used == 0),
        Some(Ok(v)) => {
            assert!(used != 0);
            assert!(10 + l0 + 2 <= area_len, "first view lies inside the PDU area");
            assert!(v.data_start.as_ptr() as *const u8 == a[10..].as_ptr() && v.len() == l0);
            assert!(v.working_counter == u16::from_le_bytes([a[10 + l0], a[10 + l0 + 1]]));
            core::mem::forget(v);
        }
        Some(Err(_)) => {
            assert!(used != 0);
            assert!(!(10 + l0 + 2 <= area_len), "a first datagram that fits the PDU area (exact fit included) is delivered");
        }
    }
    core::mem::forget(it);
}

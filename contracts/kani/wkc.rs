//@kani host=src/pdu_loop/frame_element/received_frame.rs
// C11: ReceivedPdu::wkc / maybe_wkc — loop-free, full domain (all u16 counters, all expected values): complete.
use super::*;
use crate::verif_vk as vk;

fn mk(buf: &[u8; 4], len: usize, wkc: u16) -> ReceivedPdu<'_> {
    ReceivedPdu {
        data_start: NonNull::new(buf.as_ptr().cast_mut()).unwrap(),
        len,
        working_counter: wkc,
        _storage: PhantomData,
    }
}

//@h name=wkc_contract props=C11 fn=src/pdu_loop/frame_element/received_frame.rs::ReceivedPdu::wkc obligation="wkc(e) is Ok iff counter == e, else WorkingCounter{expected:e, received:counter}; data view unchanged"
#[cfg_attr(kani, kani::proof)]
#[cfg_attr(all(test, verif_replay), test)]
fn wkc_contract() {
    let buf = [1u8, 2, 3, 4];
    let counter: u16 = vk::any();
    let expected: u16 = vk::any();
    let len: usize = vk::any();
    vk::assume(len <= 4);
    let pdu = mk(&buf, len, counter);
    match pdu.wkc(expected) {
        Ok(p) => {
            assert!(counter == expected);
            assert!(p.working_counter == counter);
            assert!(p.len() == len);
            assert!(p.data_start.as_ptr() as *const u8 == buf.as_ptr());
        }
        Err(e) => {
            assert!(counter != expected);
            assert!(e == Error::WorkingCounter { expected, received: counter });
        }
    }
}

//@h name=maybe_wkc_contract props=C11 fn=src/pdu_loop/frame_element/received_frame.rs::ReceivedPdu::maybe_wkc obligation="maybe_wkc(None) is Ok; maybe_wkc(Some(e)) == wkc(e)"
#[cfg_attr(kani, kani::proof)]
#[cfg_attr(all(test, verif_replay), test)]
fn maybe_wkc_contract() {
    let buf = [1u8, 2, 3, 4];
    let counter: u16 = vk::any();
    let expected: u16 = vk::any();
    let some: bool = vk::any();
    let pdu = mk(&buf, 4, counter);
    let r = pdu.maybe_wkc(if some { Some(expected) } else { None });
    match r {
        Ok(p) => {
            assert!(!some || counter == expected);
            assert!(p.working_counter == counter);
        }
        Err(e) => {
            assert!(some && counter != expected);
            assert!(e == Error::WorkingCounter { expected, received: counter });
        }
    }
}

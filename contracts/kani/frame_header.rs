//@kani host=src/pdu_loop/frame_header.rs
// C04 / C05: the hand-written wire impl of the EtherCAT frame header (2 bytes: 11-bit length, 1 reserved bit, 4-bit protocol type).
// Loop-free over every 16-bit value: complete.  (The frame-building harnesses of group frame_build are bounded to small frames and
// cannot see the upper bits of the length field.)
use super::*;
use crate::verif_vk as vk;
use ethercrab_wire::WireError;

//@h name=frame_header_all_lengths props=C04,C05 fn=src/pdu_loop/frame_header.rs::EthercatFrameHeader obligation="for EVERY datagram-area length 0..=2047: the header written for it is (length | 0x1000) little endian - all 11 length bits, protocol type 1, reserved bit 0 - and reading it back gives that length and protocol; for every 16-bit value read: length = low 11 bits, a protocol type other than 1 is an error, a buffer shorter than 2 bytes is an error"
#[cfg_attr(kani, kani::proof)]
#[cfg_attr(all(test, verif_replay), test)]
fn frame_header_all_lengths() {
    let len: u16 = vk::any();
    vk::assume(len <= 0x07ff);
    let h = EthercatFrameHeader::pdu(len);
    let mut buf = [0xaau8; 3];
    let n = h.pack_to_slice_unchecked(&mut buf).len();
    assert!(n == 2 && h.packed_len() == 2);
    assert!(u16::from_le_bytes([buf[0], buf[1]]) == (len | 0x1000), "all 11 bits of the length are written, protocol type DLPDU");
    assert!(buf[2] == 0xaa);
    assert!(EthercatFrameHeader::unpack_from_slice(&buf) == Ok(h));
    let raw: u16 = vk::any();
    let b = raw.to_le_bytes();
    match EthercatFrameHeader::unpack_from_slice(&b) {
        Ok(x) => assert!((raw >> 12) == 1 && x.payload_len == (raw & 0x07ff) && x.protocol == ProtocolType::DlPdu),
        Err(_) => assert!((raw >> 12) != 1),
    }
    assert!(EthercatFrameHeader::unpack_from_slice(&b[..1]).is_err());
}

//@kani host=src/pdu_loop/storage.rs
// C01/C02/C03/C05: storage-level operations on the real PduStorage (real pointer arithmetic over the slot array).
// Storage configuration: N slots x DATA bytes as stated per harness; slot states / markers / cursors fully symbolic.
use super::*;
use crate::pdu_loop::frame_element::verif_kani_slots::{any_state, bytes_ptr, peek_ptr, poke_ptr};
use crate::pdu_loop::frame_element::{FIRST_PDU_EMPTY, FrameState};
use crate::pdu_loop::pdu_rx::ReceiveAction;
use crate::verif_vk as vk;

const DATA: usize = 44;

fn setup<const N: usize>(s: &PduStorage<N, DATA>) -> ([FrameState; N], [u16; N], [usize; N]) {
    let r = s.as_ref();
    let mut st = [FrameState::None; N];
    let mut fp = [0u16; N];
    let mut pl = [0usize; N];
    let mut i = 0;
    while i < N {
        st[i] = any_state();
        fp[i] = vk::any();
        pl[i] = vk::any();
        vk::assume(pl[i] <= DATA - 16);
        unsafe { poke_ptr(r.frame_at_index(i), st[i], fp[i], pl[i]) };
        i += 1;
    }
    (st, fp, pl)
}

//@h name=sto_find_n2 props=C01,C05 fn=src/pdu_loop/storage.rs::PduStorageRef::frame_index_by_first_pdu_index obligation="frame_index_by_first_pdu_index(k) = lowest slot whose marker equals k, None iff none; slots holding the empty sentinel never match (N=2, all marker values)"
#[cfg_attr(kani, kani::proof)]
#[cfg_attr(kani, kani::unwind(4))]
#[cfg_attr(all(test, verif_replay), test)]
fn sto_find_n2() {
    find::<2>();
}

//@h name=sto_find_n4 props=C01,C05 tier=thorough fn=src/pdu_loop/storage.rs::PduStorageRef::frame_index_by_first_pdu_index obligation="as sto_find_n2 with N=4"
#[cfg_attr(kani, kani::proof)]
#[cfg_attr(kani, kani::unwind(6))]
#[cfg_attr(all(test, verif_replay), test)]
fn sto_find_n4() {
    find::<4>();
}

fn find<const N: usize>() {
    let s = PduStorage::<N, DATA>::new();
    let (_st, fp, _pl) = setup(&s);
    let r = s.as_ref();
    let k: u8 = vk::any();
    match r.frame_index_by_first_pdu_index(k) {
        Some(i) => {
            let i = i as usize;
            assert!(i < N && fp[i] == k as u16);
            let mut j = 0;
            while j < N {
                if j < i {
                    assert!(fp[j] != k as u16);
                }
                j += 1;
            }
        }
        None => {
            let mut j = 0;
            while j < N {
                assert!(fp[j] != k as u16);
                j += 1;
            }
        }
    }
}

//@h name=sto_alloc_n2 props=C02,C03 fn=src/pdu_loop/storage.rs::PduStorageRef::alloc_frame obligation="alloc_frame (N=2, all 8^2 state vectors, every cursor value): Err(SwapState) iff no slot is None; Ok(f) => exactly one slot went None->Created, it is header-initialised with an empty marker, every other slot is untouched"
#[cfg_attr(kani, kani::proof)]
#[cfg_attr(kani, kani::unwind(6))]
#[cfg_attr(all(test, verif_replay), test)]
fn sto_alloc_n2() {
    alloc::<2>();
}

//@h name=sto_alloc_n1 props=C02,C03 fn=src/pdu_loop/storage.rs::PduStorageRef::alloc_frame obligation="alloc_frame with a single slot (N=1)"
#[cfg_attr(kani, kani::proof)]
#[cfg_attr(kani, kani::unwind(4))]
#[cfg_attr(all(test, verif_replay), test)]
fn sto_alloc_n1() {
    alloc::<1>();
}

//@h name=sto_alloc_n4 props=C02,C03 tier=thorough fn=src/pdu_loop/storage.rs::PduStorageRef::alloc_frame obligation="alloc_frame N=4"
#[cfg_attr(kani, kani::proof)]
#[cfg_attr(kani, kani::unwind(10))]
#[cfg_attr(all(test, verif_replay), test)]
fn sto_alloc_n4() {
    alloc::<4>();
}

fn alloc<const N: usize>() {
    let s = PduStorage::<N, DATA>::new();
    let (st, fp, pl) = setup(&s);
    s.frame_idx.store(vk::any(), Ordering::SeqCst);
    let r = s.as_ref();
    let res = r.alloc_frame();
    let mut free = 0;
    let mut j = 0;
    while j < N {
        if st[j] == FrameState::None {
            free += 1;
        }
        j += 1;
    }
    match res {
        Err(e) => {
            assert!(e == Error::Pdu(PduError::SwapState));
            assert!(free == 0, "allocation fails only when every slot is held");
            let mut j = 0;
            while j < N {
                assert!(unsafe { peek_ptr(r.frame_at_index(j)) } == (st[j], fp[j], pl[j]));
                j += 1;
            }
        }
        Ok(f) => {
            assert!(free > 0);
            let k = f.storage_slot_index() as usize;
            assert!(k < N && st[k] == FrameState::None);
            let mut j = 0;
            while j < N {
                let now = unsafe { peek_ptr(r.frame_at_index(j)) };
                if j == k {
                    assert!(now == (FrameState::Created, FIRST_PDU_EMPTY, 0));
                } else {
                    assert!(now == (st[j], fp[j], pl[j]), "other slots untouched");
                }
                j += 1;
            }
            core::mem::forget(f);
        }
    }
}

//@h name=sto_reset_n2 props=C03 fn=src/pdu_loop/storage.rs::PduStorageRef::reset obligation="reset: every slot None, both cursors 0 (N=2)"
#[cfg_attr(kani, kani::proof)]
#[cfg_attr(kani, kani::unwind(4))]
#[cfg_attr(all(test, verif_replay), test)]
fn sto_reset_n2() {
    let s = PduStorage::<2, DATA>::new();
    let _ = setup(&s);
    s.frame_idx.store(vk::any(), Ordering::SeqCst);
    s.pdu_idx.store(vk::any(), Ordering::SeqCst);
    let mut r = s.as_ref();
    r.reset();
    assert!(s.frame_idx.load(Ordering::SeqCst) == 0 && s.pdu_idx.load(Ordering::SeqCst) == 0);
    assert!(unsafe { peek_ptr(r.frame_at_index(0)) }.0 == FrameState::None);
    assert!(unsafe { peek_ptr(r.frame_at_index(1)) }.0 == FrameState::None);
    // ... after which the full capacity can be allocated again
    let a = r.alloc_frame();
    let b = r.alloc_frame();
    assert!(a.is_ok() && b.is_ok());
    core::mem::forget(a);
    core::mem::forget(b);
}

//@h name=sto_claim_receiving_n2 props=C05,C02 fn=src/pdu_loop/storage.rs::PduStorageRef::claim_receiving obligation="claim_receiving(i): None for i >= N (no out-of-bounds access) and for any slot not in Sent; Some only for a Sent slot, which becomes RxBusy; other slot untouched"
#[cfg_attr(kani, kani::proof)]
#[cfg_attr(kani, kani::unwind(4))]
#[cfg_attr(all(test, verif_replay), test)]
fn sto_claim_receiving_n2() {
    let s = PduStorage::<2, DATA>::new();
    let (st, fp, pl) = setup(&s);
    let r = s.as_ref();
    let i: u8 = vk::any();
    let res = r.claim_receiving(i);
    if i >= 2 {
        assert!(res.is_none());
    } else {
        assert!(res.is_some() == (st[i as usize] == FrameState::Sent));
    }
    let mut j = 0;
    while j < 2 {
        let now = unsafe { peek_ptr(r.frame_at_index(j)) };
        if res.is_some() && j == i as usize {
            assert!(now == (FrameState::RxBusy, fp[j], pl[j]));
        } else {
            assert!(now == (st[j], fp[j], pl[j]));
        }
        j += 1;
    }
}

//@h name=sto_try_split_once props=C02 fn=src/pdu_loop/storage.rs::PduStorage::try_split obligation="try_split succeeds exactly once per storage: the TX, RX and application handles each exist once"
#[cfg_attr(kani, kani::proof)]
#[cfg_attr(all(test, verif_replay), test)]
fn sto_try_split_once() {
    let s = PduStorage::<2, DATA>::new();
    let a = s.try_split();
    assert!(a.is_ok());
    assert!(s.try_split().is_err());
    assert!(s.try_split().is_err());
}

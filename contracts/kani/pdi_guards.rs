//@kani host=src/subdevice/pdi.rs
// C08: the guards through which an application reaches ONE SubDevice's part of the process data image (src/subdevice/pdi.rs).
// Each guard slices the group's image with the ranges recorded for that SubDevice by configure_fmmus (windows inside the image:
// Verus units pdi_config / group_config).  Decided here on the real types (spin RwLock, the unsafe cell): inputs() / outputs() /
// Deref / DerefMut show exactly the recorded INPUT resp. OUTPUT range of the image - same bytes, same place - and the SubDeviceRef
// accessors hand each guard the range of the right direction.  Image of 12 bytes, ranges symbolic: bounded in the image size.
use super::*;
use crate::verif_vk as vk;
use crate::{MainDevice, MainDeviceConfig, PduStorage, Timeouts, pdi::PdiSegment};

const LEN: usize = 12;

fn any_ranges() -> IoRanges {
    let i0: usize = vk::any();
    let i1: usize = vk::any();
    let o0: usize = vk::any();
    let o1: usize = vk::any();
    // what configure_fmmus establishes: both windows lie inside the image
    vk::assume(i0 <= i1 && i1 <= LEN && o0 <= o1 && o1 <= LEN);
    IoRanges { input: PdiSegment { bytes: i0..i1 }, output: PdiSegment { bytes: o0..o1 } }
}

//@h name=pdi_guard_views props=C08 bounded="image of 12 bytes; any two windows inside it; any contents" fn=src/subdevice/pdi.rs::PdiIoRawWriteGuard obligation="PdiIoRawReadGuard / PdiIoRawWriteGuard / PdiReadGuard / PdiWriteGuard: inputs() is exactly image[input range], outputs() exactly image[output range] (address and length), a write through outputs() / DerefMut lands at that place of the image and nowhere else"
#[cfg_attr(kani, kani::proof)]
#[cfg_attr(kani, kani::unwind(14))]
#[cfg_attr(all(test, verif_replay), test)]
fn pdi_guard_views() {
    let image: [u8; LEN] = vk::any_array();
    let pdi = RwLock::<crate::DefaultLock, _>::new(MySyncUnsafeCell::new(image));
    let ranges = any_ranges();
    let (i, o) = (ranges.input.bytes.clone(), ranges.output.bytes.clone());
    let base = unsafe { (*pdi.data_ptr()).get() } as *const u8;
    {
        let g = PdiIoRawReadGuard { lock: pdi.read(), ranges: ranges.clone(), _lt: PhantomData };
        assert!(g.inputs().as_ptr() == unsafe { base.add(i.start) } && g.inputs().len() == i.end - i.start);
        assert!(g.outputs().as_ptr() == unsafe { base.add(o.start) } && g.outputs().len() == o.end - o.start);
    }
    {
        let g = PdiReadGuard { lock: pdi.read(), range: i.clone(), _lt: PhantomData };
        assert!(g.as_ptr() == unsafe { base.add(i.start) } && g.len() == i.end - i.start);
    }
    let v: u8 = vk::any();
    let k: usize = vk::any();
    {
        let mut g = PdiIoRawWriteGuard { lock: pdi.write(), ranges: ranges.clone(), _lt: PhantomData };
        assert!(g.inputs().as_ptr() == unsafe { base.add(i.start) } && g.inputs().len() == i.end - i.start);
        let out = g.outputs();
        assert!(out.as_ptr() as *const u8 == unsafe { base.add(o.start) } && out.len() == o.end - o.start);
        if k < out.len() {
            out[k] = v;
        }
    }
    {
        let g = pdi.read();
        let now = unsafe { &*g.get() };
        let mut j = 0;
        while j < LEN {
            if k < o.end - o.start && j == o.start + k {
                assert!(now[j] == v);
            } else {
                assert!(now[j] == image[j], "a write through the output view changes nothing else in the image");
            }
            j += 1;
        }
    }
    {
        let mut g = PdiWriteGuard { lock: pdi.write(), range: o.clone(), _lt: PhantomData };
        assert!(g.as_ptr() == unsafe { base.add(o.start) } && g.len() == o.end - o.start);
        let m: &mut [u8] = &mut g;
        assert!(m.as_ptr() as *const u8 == unsafe { base.add(o.start) } && m.len() == o.end - o.start);
    }
}

//@h name=pdi_accessors props=C08 bounded="image of 12 bytes" fn=src/subdevice/pdi.rs::SubDeviceRef::io_raw_mut obligation="io_raw / io_raw_mut / inputs_raw / outputs_raw / outputs_raw_mut hand their guard the ranges recorded for THIS SubDevice, inputs_raw the INPUT range and outputs_raw(_mut) the OUTPUT range - never the other one"
#[cfg_attr(kani, kani::proof)]
#[cfg_attr(kani, kani::unwind(14))]
#[cfg_attr(all(test, verif_replay), test)]
fn pdi_accessors() {
    static PDU_STORAGE: PduStorage<1, 64> = PduStorage::new();
    let (_tx, _rx, pdu_loop) = PDU_STORAGE.try_split().unwrap();
    let maindevice = MainDevice::new(pdu_loop, Timeouts::default(), MainDeviceConfig::default());
    let mut sd = SubDevice {
        configured_address: 0x1000,
        alias_address: 0,
        config: crate::subdevice::SubDeviceConfig::default(),
        identity: Default::default(),
        name: Default::default(),
        ports: Default::default(),
        dc_support: Default::default(),
        dc_receive_time: 0,
        index: 0,
        parent_index: None,
        propagation_delay: 0,
        mailbox_counter: core::sync::atomic::AtomicU8::new(1),
        dc_sync: crate::subdevice::DcSync::Disabled,
        oversampling_config: &[],
    };
    let ranges = any_ranges();
    sd.config.io = ranges.clone();
    let (i, o) = (ranges.input.bytes.clone(), ranges.output.bytes.clone());
    let pdi_storage = RwLock::<crate::DefaultLock, _>::new(MySyncUnsafeCell::new([0u8; LEN]));
    let sd_ref = SubDeviceRef::new(&maindevice, 0x1000, SubDevicePdi::new(&sd, &pdi_storage));
    {
        let g = sd_ref.inputs_raw();
        assert!(g.range == i, "inputs_raw views the input window");
    }
    {
        let g = sd_ref.outputs_raw();
        assert!(g.range == o, "outputs_raw views the output window");
    }
    {
        let g = sd_ref.outputs_raw_mut();
        assert!(g.range == o, "outputs_raw_mut views the output window");
    }
    {
        let g = sd_ref.io_raw();
        assert!(g.ranges.input.bytes == i && g.ranges.output.bytes == o);
    }
    {
        let g = sd_ref.io_raw_mut();
        assert!(g.ranges.input.bytes == i && g.ranges.output.bytes == o);
    }
}

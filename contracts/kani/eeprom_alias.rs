//@kani host=src/subdevice/eeprom.rs
// C14: set_station_alias and the generic EEPROM write on the real async code, driven with a memory-backed provider.
// The futures never return Pending (the mock provider is synchronous), so one poll completes them.
use super::*;
use crate::eeprom::{EepromDataProvider, EepromRange};
use crate::error::Error;
use crate::verif_vk as vk;
use core::future::Future;
use embedded_io_async::Write;

const MEM: usize = 16;

struct St {
    mem: [u8; MEM],
    writes: u8,
    last: [(u16, [u8; 2]); 4],
    chunk8: bool,
}

/// provider handle: clones share one EEPROM (as clones of the real DeviceEeprom share the one device)
#[derive(Clone, Copy)]
struct Mock {
    st: *mut St,
}

impl EepromDataProvider for Mock {
    async fn read_chunk(&mut self, start_word: u16) -> Result<impl core::ops::Deref<Target = [u8]>, Error> {
        let st = unsafe { &*self.st };
        let s = usize::from(start_word) * 2;
        let mut out = heapless::Vec::<u8, 8>::new();
        let n = if st.chunk8 { 8 } else { 4 };
        let mut i = 0;
        while i < n {
            let _ = out.push(if s + i < MEM { st.mem[s + i] } else { 0 });
            i += 1;
        }
        Ok(out)
    }
    async fn write_word(&mut self, start_word: u16, data: [u8; 2]) -> Result<(), Error> {
        let st = unsafe { &mut *self.st };
        if (st.writes as usize) < 4 {
            st.last[st.writes as usize] = (start_word, data);
        }
        st.writes += 1;
        let s = usize::from(start_word) * 2;
        if s + 1 < MEM {
            st.mem[s] = data[0];
            st.mem[s + 1] = data[1];
        }
        Ok(())
    }
    async fn clear_errors(&self) -> Result<(), Error> {
        Ok(())
    }
}

fn run<F: Future>(f: F) -> F::Output {
    let mut f = core::pin::pin!(f);
    let w = core::task::Waker::noop();
    let mut cx = core::task::Context::from_waker(&w);
    match f.as_mut().poll(&mut cx) {
        core::task::Poll::Ready(x) => x,
        core::task::Poll::Pending => panic!("mock provider never pends"),
    }
}

/// bit-by-bit CRC-8, polynomial 0x07, initial value 0xff, no reflection, no final xor (ETG.1000.6 / ETG.2010)
fn crc8(bytes: &[u8; 14]) -> u8 {
    let mut crc = 0xffu8;
    let mut i = 0;
    while i < 14 {
        crc ^= bytes[i];
        let mut b = 0;
        while b < 8 {
            crc = if crc & 0x80 != 0 { (crc << 1) ^ 0x07 } else { crc << 1 };
            b += 1;
        }
        i += 1;
    }
    crc
}

//@h name=alias_crc_table props=C14 fn=src/eeprom/mod.rs::STATION_ALIAS_CRC obligation="the crc crate's table for ECAT_CRC_ALGORITHM equals a bit-by-bit CRC-8 (poly 0x07, init 0xff) on every 14-byte input"
#[cfg_attr(kani, kani::proof)]
#[cfg_attr(kani, kani::unwind(16))]
#[cfg_attr(all(test, verif_replay), test)]
fn alias_crc_table() {
    let b: [u8; 14] = vk::any_array();
    assert!(STATION_ALIAS_CRC.checksum(&b) == crc8(&b));
}

// NOTE: a harness driving the real `set_station_alias` future (read_exact + crc + two write_all through nested async
// state machines) does not terminate in CBMC even for fully concrete inputs (> 8 min, > 12 GB): not used. The clause
// "exactly two words: alias and checksum" is therefore NOT decided; what is decided: the CRC table (below), EepromRange::write
// (Verus, unbounded, and the bounded harness below) and start_at's window (Verus).

//@h name=range_write props=C14 bounded="payload <= 6 bytes, window <= 4 words at word address <= 4, memory 16 bytes" fn=src/eeprom/mod.rs::EepromRange::write obligation="EepromRange::write(buf): words (b[2i], b[2i+1]) - an odd trailing byte padded with zero - are written at consecutive word addresses from the current position, never past the window end; returns the number of bytes consumed (2 per word written)"
#[cfg_attr(kani, kani::proof)]
#[cfg_attr(kani, kani::unwind(18))]
#[cfg_attr(all(test, verif_replay), test)]
fn range_write() {
    let mem: [u8; MEM] = vk::any_array();
    let start: u16 = vk::any();
    let words: u16 = vk::any();
    vk::assume(start <= 4 && words <= 4);
    let mut st = St { mem, writes: 0, last: [(0, [0; 2]); 4], chunk8: true };
    let mut r = EepromRange::new(Mock { st: &mut st }, start, words);
    let buf: [u8; 6] = vk::any_array();
    let n: usize = vk::any();
    vk::assume(n <= 6);
    // every payload length gets its own call with a CONSTANT slice length: Kani 0.68 / CBMC 6.11 were seen to answer SUCCESSFUL on a
    // stale-pad-byte change of this function when the length was symbolic (copy_from_slice of symbolic size inside a coroutine loop;
    // DESIGN.md 0.4, findings/tool_kani_async_memcpy.rs) - with constant lengths the copies are of constant size
    let res = match n {
        0 => run(r.write(&buf[..0])),
        1 => run(r.write(&buf[..1])),
        2 => run(r.write(&buf[..2])),
        3 => run(r.write(&buf[..3])),
        4 => run(r.write(&buf[..4])),
        5 => run(r.write(&buf[..5])),
        _ => run(r.write(&buf[..6])),
    };
    let want_words = {
        let need = (n + 1) / 2;
        if need < words as usize { need } else { words as usize }
    };
    assert!(st.writes as usize == want_words, "one write_word per word, stopping at the window end");
    let consumed = if n < want_words * 2 { n } else { want_words * 2 };
    assert!(res == Ok(consumed), "returns the number of bytes of `buf` consumed");
    let mut i = 0;
    while i < 4 {
        if i < want_words {
            let lo = buf[2 * i];
            let hi = if 2 * i + 1 < n { buf[2 * i + 1] } else { 0 };
            assert!(st.last[i] == (start + i as u16, [lo, hi]), "word address and (zero padded) data");
        }
        i += 1;
    }
    let mut a = 0;
    while a < MEM {
        let w = a / 2;
        if w < start as usize || w >= start as usize + want_words {
            assert!(st.mem[a] == mem[a], "nothing outside the written words changes");
        }
        a += 1;
    }
}

//@h name=sii_write_request props=C14 fn=src/eeprom/types.rs::SiiRequest::write obligation="the EEPROM write request for word address a packs to [0x01, 0x02, a_lo, a_hi, 0, 0] (access = read/write, write strobe, address in bytes 2..4) for every a - the bytes the Verus unit eeprom_device assumes"
#[cfg_attr(kani, kani::proof)]
#[cfg_attr(kani, kani::unwind(8))]
#[cfg_attr(all(test, verif_replay), test)]
fn sii_write_request() {
    use ethercrab_wire::EtherCrabWireWriteSized;
    let a: u16 = vk::any();
    let b = crate::eeprom::types::SiiRequest::write(a).pack();
    assert!(b == [0x01, 0x02, a as u8, (a >> 8) as u8, 0, 0]);
}

//@h name=sii_read_request props=C12,C09 fn=src/eeprom/types.rs::SiiRequest::read obligation="the EEPROM read request for word address a packs to [0x00, 0x01, a_lo, a_hi, 0, 0] (read-only access, read strobe, address in bytes 2..4) for every a - the bytes the Verus unit eeprom_device assumes; chunk_len is 4 / 8 octets"
#[cfg_attr(kani, kani::proof)]
#[cfg_attr(kani, kani::unwind(8))]
#[cfg_attr(all(test, verif_replay), test)]
fn sii_read_request() {
    use ethercrab_wire::EtherCrabWireWriteSized;
    let a: u16 = vk::any();
    let b = crate::eeprom::types::SiiRequest::read(a).pack();
    assert!(b == [0x00, 0x01, a as u8, (a >> 8) as u8, 0, 0]);
    assert!(crate::eeprom::types::SiiReadSize::Octets4.chunk_len() == 4 && crate::eeprom::types::SiiReadSize::Octets8.chunk_len() == 8);
}

//@kani host=src/pdu_loop/pdu_tx.rs
// C02: PduTx::next_sendable_frame claims the lowest Sendable slot (-> Sending) and nothing else.
use super::*;
use crate::pdu_loop::frame_element::verif_kani_slots::{any_state, peek_ptr, poke_ptr};
use crate::pdu_loop::frame_element::FrameState;
use crate::pdu_loop::storage::PduStorage;
use crate::verif_vk as vk;

const DATA: usize = 44;

//@h name=tx_next_sendable_n2 props=C02 fn=src/pdu_loop/pdu_tx.rs::PduTx::next_sendable_frame obligation="next_sendable_frame (N=2, all state vectors): Some iff some slot is Sendable; exactly the lowest such slot goes Sendable->Sending; nothing else changes; None when the exit flag is set"
#[cfg_attr(kani, kani::proof)]
#[cfg_attr(kani, kani::unwind(4))]
#[cfg_attr(all(test, verif_replay), test)]
fn tx_next_sendable_n2() {
    let s = PduStorage::<2, DATA>::new();
    let (mut tx, _rx, pdu_loop) = s.try_split().unwrap();
    let st = [any_state(), any_state()];
    let exit: bool = vk::any();
    unsafe {
        poke_ptr(pdu_loop.storage.frame_at_index(0), st[0], vk::any(), 0);
        poke_ptr(pdu_loop.storage.frame_at_index(1), st[1], vk::any(), 0);
    }
    pdu_loop.storage.exit_flag.store(exit, core::sync::atomic::Ordering::SeqCst);
    let r = tx.next_sendable_frame();
    let now = unsafe { [peek_ptr(pdu_loop.storage.frame_at_index(0)).0, peek_ptr(pdu_loop.storage.frame_at_index(1)).0] };
    if exit {
        assert!(r.is_none() && now == st);
    } else if st[0] == FrameState::Sendable {
        assert!(r.is_some() && now[0] == FrameState::Sending && now[1] == st[1]);
    } else if st[1] == FrameState::Sendable {
        assert!(r.is_some() && now[1] == FrameState::Sending && now[0] == st[0]);
    } else {
        assert!(r.is_none() && now == st);
    }
    core::mem::forget(r);
}

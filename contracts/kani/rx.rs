//@kani host=src/pdu_loop/pdu_rx.rs
// C05 / C01.2: PduRx::receive_frame on the real storage with ARBITRARY input bytes.
// BOUNDED: N = 2 slots of DATA = 44 bytes (PDU area 28), input length symbolic <= MAXLEN = 50 bytes (covers truncated,
// exact and oversized frames for this slot size); slot states, markers and every input byte are fully symbolic.
use super::*;
use crate::pdu_loop::frame_element::verif_kani_slots::{any_state, bytes_ptr, peek_ptr, poke_ptr};
use crate::pdu_loop::frame_element::{FIRST_PDU_EMPTY, FrameState};
use crate::pdu_loop::storage::PduStorage;
use crate::verif_vk as vk;

const DATA: usize = 44;
const MAXLEN: usize = 50;
const N: usize = 2;

//@h name=rx_receive_frame props=C05,C01 bounded="N=2 slots, DATA=44, input length <= 50 bytes; all byte values, lengths, slot states and markers symbolic" fn=src/pdu_loop/pdu_rx.rs::PduRx::receive_frame obligation="receive_frame(any bytes): never panics; Ignored => nothing changed; non-EtherCAT EtherType or own source MAC => Ignored; Err => no buffer/marker changed and at most the matching Sent slot is left RxBusy; Processed => the lowest slot whose marker equals the first datagram index was Sent, is now RxDone and holds exactly the frame's EtherCAT payload; every other slot untouched; Ignored only for a reason (not EtherCAT / own echo / empty)"
#[cfg_attr(kani, kani::proof)]
#[cfg_attr(kani, kani::unwind(52))]
#[cfg_attr(all(test, verif_replay), test)]
fn rx_receive_frame() {
    let s = PduStorage::<N, DATA>::new();
    let (_tx, mut rx, pdu_loop) = s.try_split().unwrap();
    let sref = &pdu_loop.storage;
    let mut st = [FrameState::None; N];
    let mut fp = [0u16; N];
    let mut pl = [0usize; N];
    let mut before = [[0u8; DATA]; N];
    let mut i = 0;
    while i < N {
        st[i] = any_state();
        fp[i] = vk::any();
        pl[i] = vk::any();
        vk::assume(pl[i] <= DATA - 16);
        unsafe { poke_ptr(sref.frame_at_index(i), st[i], fp[i], pl[i]) };
        // a few distinguishable bytes in each slot buffer
        let b = unsafe { bytes_ptr(sref.frame_at_index(i), DATA) };
        b[16] = vk::any();
        b[17] = vk::any();
        b[DATA - 1] = vk::any();
        before[i].copy_from_slice(b);
        i += 1;
    }
    let input: [u8; MAXLEN] = vk::any_array();
    let len: usize = vk::any();
    vk::assume(len <= MAXLEN);
    let r = rx.receive_frame(&input[..len]);

    let ethertype = if len >= 14 { u16::from_be_bytes([input[12], input[13]]) } else { 0 };
    let own = len >= 14 && input[6..12] == [0x10; 6];
    let mut now = [(FrameState::None, 0u16, 0usize); N];
    let mut same_buf = [true; N];
    let mut i = 0;
    while i < N {
        now[i] = unsafe { peek_ptr(sref.frame_at_index(i)) };
        let b = unsafe { bytes_ptr(sref.frame_at_index(i), DATA) };
        let mut k = 0;
        while k < DATA {
            if b[k] != before[i][k] {
                same_buf[i] = false;
            }
            k += 1;
        }
        i += 1;
    }
    let plen0 = if len >= 16 { (u16::from_le_bytes([input[14], input[15]]) & 0x07ff) as usize } else { 0 };
    match r {
        Ok(ReceiveAction::Ignored) => {
            assert!(len >= 14 && (ethertype != 0x88a4 || own || (len >= 16 && plen0 == 0)), "a frame is ignored only for a reason: not EtherCAT, our own echo, or empty");
            let mut i = 0;
            while i < N {
                assert!(now[i] == (st[i], fp[i], pl[i]) && same_buf[i], "ignored frame leaves every slot unchanged");
                i += 1;
            }
        }
        Err(_) => {
            assert!(len < 14 || (ethertype == 0x88a4 && !own), "strangers are ignored, not errors");
            let mut busy = 0;
            let mut i = 0;
            while i < N {
                assert!(same_buf[i] && now[i].1 == fp[i] && now[i].2 == pl[i], "a rejected frame changes no buffer and no marker");
                if now[i].0 != st[i] {
                    // accepted-then-failed copy: only the matching Sent slot may be left RxBusy
                    assert!(st[i] == FrameState::Sent && now[i].0 == FrameState::RxBusy && len >= 18 && fp[i] == input[17] as u16);
                    busy += 1;
                }
                i += 1;
            }
            assert!(busy <= 1);
        }
        Ok(ReceiveAction::Processed) => {
            assert!(len >= 18 && ethertype == 0x88a4 && !own);
            let plen = (u16::from_le_bytes([input[14], input[15]]) & 0x07ff) as usize;
            assert!(plen > 0 && 16 + plen <= len);
            let idx = input[17] as u16;
            // k = lowest slot whose marker matches
            let k = if fp[0] == idx { 0 } else { 1 };
            assert!(fp[k] == idx && st[k] == FrameState::Sent, "accepted only into a slot that awaits a response with that index");
            assert!(now[k].0 == FrameState::RxDone && now[k].1 == fp[k] && now[k].2 == pl[k]);
            let b = unsafe { bytes_ptr(sref.frame_at_index(k), DATA) };
            let mut j = 0;
            while j < DATA - 16 {
                if j < plen {
                    assert!(b[16 + j] == input[16 + j], "response bytes stored byte-exact");
                } else {
                    assert!(b[16 + j] == before[k][16 + j]);
                }
                j += 1;
            }
            let mut j = 0;
            while j < 16 {
                assert!(b[j] == before[k][j]);
                j += 1;
            }
            let o = 1 - k;
            assert!(now[o] == (st[o], fp[o], pl[o]) && same_buf[o], "no other slot is touched");
        }
    }
    // a frame whose first datagram index matches no Sent slot is never accepted
    if len >= 18 {
        let idx = input[17] as u16;
        let k = if fp[0] == idx { 0 } else { 1 };
        if !(fp[k] == idx && st[k] == FrameState::Sent) {
            assert!(!matches!(r, Ok(ReceiveAction::Processed)));
        }
    }
}

//@h name=rx_exit_flag props=C05 fn=src/pdu_loop/pdu_rx.rs::PduRx::receive_frame obligation="with the exit flag set every frame is ignored"
#[cfg_attr(kani, kani::proof)]
#[cfg_attr(all(test, verif_replay), test)]
fn rx_exit_flag() {
    let s = PduStorage::<1, DATA>::new();
    let (_tx, mut rx, mut pdu_loop) = s.try_split().unwrap();
    pdu_loop.storage.exit_flag.store(true, core::sync::atomic::Ordering::SeqCst);
    let input: [u8; 20] = vk::any_array();
    assert!(rx.receive_frame(&input) == Ok(ReceiveAction::Ignored));
}

//@h name=rx_receive_genuine props=C01,C05 bounded="N=2 slots, DATA=44, input length <= 50 bytes; restricted (by assumption) to genuine responses" fn=src/pdu_loop/pdu_rx.rs::PduRx::receive_frame obligation="COMPLETENESS of receive_frame: a genuine response - EtherType 0x88a4, not our own echo, frame type DLPDU, datagram area of >= 2 bytes lying inside the bytes received and inside the slot, first-datagram index for which the lowest matching slot awaits a response (Sent) - is ALWAYS Processed (never ignored, never rejected), whatever the destination address and the rest of the bytes"
#[cfg_attr(kani, kani::proof)]
#[cfg_attr(kani, kani::unwind(52))]
#[cfg_attr(all(test, verif_replay), test)]
fn rx_receive_genuine() {
    let s = PduStorage::<N, DATA>::new();
    let (_tx, mut rx, pdu_loop) = s.try_split().unwrap();
    let sref = &pdu_loop.storage;
    let mut st = [FrameState::None; N];
    let mut fp = [0u16; N];
    let mut i = 0;
    while i < N {
        st[i] = any_state();
        fp[i] = vk::any();
        let pl: usize = vk::any();
        vk::assume(pl <= DATA - 16);
        unsafe { poke_ptr(sref.frame_at_index(i), st[i], fp[i], pl) };
        i += 1;
    }
    let input: [u8; MAXLEN] = vk::any_array();
    let len: usize = vk::any();
    vk::assume(len >= 18 && len <= MAXLEN);
    let ethertype = u16::from_be_bytes([input[12], input[13]]);
    let own = input[6..12] == [0x10; 6];
    let hdr = u16::from_le_bytes([input[14], input[15]]);
    let plen = (hdr & 0x07ff) as usize;
    let idx = input[17] as u16;
    let k = if fp[0] == idx { 0 } else { 1 };
    vk::assume(ethertype == 0x88a4 && !own && (hdr >> 12) == 1);
    vk::assume(plen >= 2 && 16 + plen <= len && plen <= DATA - 16);
    vk::assume(fp[k] == idx && st[k] == FrameState::Sent);
    let r = rx.receive_frame(&input[..len]);
    assert!(matches!(r, Ok(ReceiveAction::Processed)), "a genuine response to an outstanding request is delivered");
    assert!(unsafe { peek_ptr(sref.frame_at_index(k)) }.0 == FrameState::RxDone);
}

//@h name=eth_accessors props=C05,C01 fn=src/ethernet.rs::EthernetFrame obligation="EthernetFrame over a byte slice of 14..=20 bytes (every byte symbolic): new_checked succeeds iff >= 14 bytes; dst_addr = bytes 0..6, src_addr = bytes 6..12, ethertype = big-endian bytes 12..14, payload = bytes 14.. - the accessor contracts the Verus unit rx_route assumes"
#[cfg_attr(kani, kani::proof)]
#[cfg_attr(kani, kani::unwind(24))]
#[cfg_attr(all(test, verif_replay), test)]
fn eth_accessors() {
    use crate::ethernet::{EthernetAddress, EthernetFrame};
    let b: [u8; 20] = vk::any_array();
    let len: usize = vk::any();
    vk::assume(len <= 20);
    let s = &b[..len];
    match EthernetFrame::new_checked(s) {
        Err(e) => assert!(len < 14 && e == crate::error::Error::Pdu(crate::error::PduError::Ethernet)),
        Ok(f) => {
            assert!(len >= 14);
            assert!(f.dst_addr() == EthernetAddress([b[0], b[1], b[2], b[3], b[4], b[5]]));
            assert!(f.src_addr() == EthernetAddress([b[6], b[7], b[8], b[9], b[10], b[11]]));
            assert!(f.ethertype() == u16::from_be_bytes([b[12], b[13]]));
            let p = f.payload();
            assert!(p.len() == len - 14);
            let mut i = 0;
            while i < 6 {
                if i < p.len() {
                    assert!(p[i] == b[14 + i]);
                }
                i += 1;
            }
        }
    }
}

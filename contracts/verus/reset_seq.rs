//@unit reset_seq  props=C09  min_verified=4
// C09 ("whatever addresses the devices held before"): MainDevice::reset_subdevices (src/maindevice.rs) extracted WHOLE, with
// RegisterAddress::fmmu / sync_manager, AlControl::reset and Command::bwr: every device is sent back to INIT with the error acknowledged, ALL 16 FMMU
// and ALL 16 sync-manager records are blanked with the packed length of THEIR record type, the eight DC registers are blanked with
// their own widths, and the two control-loop parameters get the ETG1020 values.  `blank_memory` is seen through the contract that
// unit group_cycle proves on the extracted function (LEN zero bytes broadcast-written at `start`, answered); the broadcast writes are
// observed through the positive predicate `bcast(register, value code)`.  ORDER is not decided here (positive predicates only).
use vstd::prelude::*;
verus! {

//@include prelude/errors.rs
//@include prelude/opaque_payloads.rs
//@include prelude/std_specs.rs
//@include prelude/wire_traits.rs
//@include prelude/command.rs

pub struct MainDevice { pub _p: u8 }

/// derive output (C19: wire_fmmu, wire_sync_manager_channel): packed record lengths
pub struct Fmmu { pub _p: u8 }
impl Fmmu { pub const PACKED_LEN: usize = 16; }
pub struct SyncManager { pub _p: u8 }
impl SyncManager { pub const PACKED_LEN: usize = 8; }

/// the opaque SubDeviceState of prelude/opaque_payloads.rs with the one variant this unit names (INIT = 0x01, src/subdevice_state.rs)
#[allow(non_upper_case_globals)]
impl SubDeviceState { pub const Init: SubDeviceState = SubDeviceState(0x01); }
/*@type file=src/al_control.rs name=AlControl derive="Clone, Copy, PartialEq, Eq, Debug" @*/
/// `#[derive(Default)]` of AlControl - the language-defined derive: the state's `#[default]` variant, flags false
impl Default for AlControl {
    #[verifier::external_body]
    fn default() -> (r: Self) ensures !r.error, !r.id_request { unimplemented!() }
}
impl AlControl {
/*@fn file=src/al_control.rs impl="impl AlControl" name=reset props=C09
    ensures r.state == SubDeviceState::Init, r.error, !r.id_request
@*/
}
pub open spec fn is_reset(a: AlControl) -> bool { a.state == SubDeviceState::Init && a.error && !a.id_request }

/// what a broadcast write carried: a 16-bit value, or the AL reset request (-1) / another AL request (-2)
pub trait RVal { spec fn code(&self) -> int; }
impl RVal for u16 { open spec fn code(&self) -> int { *self as int } }
impl RVal for AlControl { open spec fn code(&self) -> int { if is_reset(*self) { -1int } else { -2int } } }

/// "a broadcast write (BWR, address 0) of the value with this code to `register` was sent"
pub uninterp spec fn bcast(register: u16, code: int) -> bool;
/// "`len` zero bytes were broadcast-written at `start` and the write was answered" (postcondition of blank_memory, unit group_cycle)
pub uninterp spec fn blanked(start: u16, len: int) -> bool;

/// register of FMMU record i (0x0600 + 16 i) / sync-manager record i (0x0800 + 8 i), ETG1000.4 tables 57 / 59
pub open spec fn fmmu_reg(i: int) -> u16 { (0x0600 + 16 * i) as u16 }
pub open spec fn sm_reg(i: int) -> u16 { (0x0800 + 8 * i) as u16 }

impl WrappedWrite {
/*@fn file=src/command/writes.rs impl="impl WrappedWrite" name=ignore_wkc canary=0
    ensures r.command == self.command, r.len_override == self.len_override
@*/
    /// fire-and-forget write (WrappedWrite::send: unit wrapped)
    #[verifier::external_body]
    pub async fn send<D: RVal>(self, maindevice: &MainDevice, data: D) -> (r: Result<(), Error>)
        ensures r is Ok ==> exists|g: u16| self.command == (Writes::Bwr { address: 0, register: g }) && self.len_override is None && bcast(g, data.code())
    { unimplemented!() }
}

impl Command {
/*@fn file=src/command/mod.rs impl="impl Command" name=bwr canary=0
    ensures r.command == (Writes::Bwr { address: 0, register }), r.wkc == Some(1u16), r.len_override is None
@*/
}

impl RegisterAddress {
/*@fn file=src/register.rs impl="impl RegisterAddress" name=fmmu noconst=1 props=C09
    requires index < 16          // `_ => unreachable!()`: an obligation of every caller (R2)
    ensures r as u16 == 0x0600 + 16 * index
@*/
/*@fn file=src/register.rs impl="impl RegisterAddress" name=sync_manager noconst=1 props=C09
    requires index < 16
    ensures r as u16 == 0x0800 + 8 * index
@*/
}

impl MainDevice {
    /// contract proved on the extracted function in unit group_cycle (there over `answered(..)`; `blanked` names that fact)
    #[verifier::external_body]
    pub async fn blank_memory<const LEN: usize>(&self, start: RegisterAddress) -> (r: Result<(), Error>)
        ensures r is Ok ==> blanked(start as u16, LEN as int)
    { unimplemented!() }

/*@fn file=src/maindevice.rs impl="impl<'sto> MainDevice<'sto>" name=reset_subdevices for_names=1 props=C09
    ensures
        r is Ok ==> {
            // every device is asked for INIT with the error flag acknowledged
            &&& bcast(0x0120, -1)
            // all 16 FMMU records (16 bytes each, 0x0600..0x06ff) and all 16 sync-manager records (8 bytes each, 0x0800..0x087f)
            &&& forall|i: int| 0 <= i < 16 ==> blanked(#[trigger] fmmu_reg(i), 16)
            &&& forall|i: int| 0 <= i < 16 ==> blanked(#[trigger] sm_reg(i), 8)
            // DC: system time, offset (64 bit), transmission delay, time difference (32 bit), sync activation (8 bit), start time
            // and both cycle times (32 bit)
            &&& blanked(0x0910, 8) && blanked(0x0920, 8) && blanked(0x0928, 4) && blanked(0x092c, 4)
            &&& blanked(0x0981, 1) && blanked(0x0990, 4) && blanked(0x09a0, 4) && blanked(0x09a4, 4)
            // ETG1020 22.2.4 control-loop parameters
            &&& bcast(0x0934, 0x0c00) && bcast(0x0930, 0x1000)
        },
@loop 0
    invariant
        bcast(0x0120, -1),
        forall|i: int| 0 <= i < fmmu_idx ==> blanked(#[trigger] fmmu_reg(i), 16),
@loop 1
    invariant
        bcast(0x0120, -1),
        forall|i: int| 0 <= i < 16 ==> blanked(#[trigger] fmmu_reg(i), 16),
        forall|i: int| 0 <= i < sm_idx ==> blanked(#[trigger] sm_reg(i), 8),
@*/
}

} // verus!
fn main() {}

//@unit eeprom_range  props=C12,C13,C14  file=src/eeprom/mod.rs
// EepromRange<P>: new, skip_ahead_bytes, read_byte, read, write — extracted verbatim from /repo.
// The provider P (hardware or file) is the opaque `Prov` (rule R8): only its contract is known.
use vstd::prelude::*;
verus! {

//@include prelude/errors.rs
//@include prelude/opaque_payloads.rs
//@include prelude/opaque_command.rs
//@include prelude/std_specs.rs
//@include prelude/provider.rs

//@include prelude/eeprom_range_impl.rs

} // verus!
fn main() {}

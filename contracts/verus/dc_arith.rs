//@unit dc_arith  props=C18  min_verified=2
// C18: the two arithmetic fragments of configure_dc_sync / tx_rx_dc (rule R6: contiguous statement ranges of the long
// async fns, verbatim; the surrounding functions are NOT verified here and are listed as unverified glue).
use vstd::prelude::*;
use vstd::arithmetic::div_mod::*;
use vstd::arithmetic::mul::*;
verus! {

//@include prelude/std_specs_arith.rs

/*@fragment file=src/subdevice_group/mod.rs impl="impl<const MAX_SUBDEVICES: usize, const MAX_PDI: usize, R: RawRwLock, S, DC> SubDeviceGroup<MAX_SUBDEVICES, MAX_PDI, R, S, DC>" fn=configure_dc_sync from="let start_time =" to="@stmt_end" name=dc_start_time sig="system_time: u64, first_pulse_delay: u64, sync0_period: u64 -> (r: u64)" tail="start_time" props=C18
    requires
        1 <= sync0_period <= u32::MAX,
        first_pulse_delay <= u32::MAX,
        system_time + first_pulse_delay <= u64::MAX,     // assumption A-C18-1: reference time + start delay is representable
    ensures
        r as int % sync0_period as int == 0,
        system_time + first_pulse_delay - sync0_period < r <= system_time + first_pulse_delay,
@before "let start_time"
    proof {
        let x = (system_time + first_pulse_delay) as int;
        let p = sync0_period as int;
        lemma_fundamental_div_mod(x, p);
        lemma_mod_bound(x, p);
        lemma_mod_multiples_basic(x / p, p);
        lemma_mul_is_commutative(x / p, p);
        assert(0 <= x / p) by { lemma_div_pos_is_pos(x, p); }
        assert((x / p) * p <= x);
    }
@*/

/*@fragment file=src/subdevice_group/mod.rs impl="impl<const MAX_SUBDEVICES: usize, const MAX_PDI: usize, R: RawRwLock, S> SubDeviceGroup<MAX_SUBDEVICES, MAX_PDI, R, S, HasDc>" fn=tx_rx_dc from="let cycle_start_offset =" to="@stmt_end 2" name=dc_cycle_arith sig="time: u64, sync0_period: u64, sync0_shift: u64 -> (r: (u64, u64))" tail="(cycle_start_offset, time_to_next_iter)" subst="self.dc_conf.sync0_period=>sync0_period@@self.dc_conf.sync0_shift=>sync0_shift" props=C18
    requires
        1 <= sync0_period <= u32::MAX,
        sync0_shift <= 0x2_0000_0000,
    ensures
        r.0 as int == time as int % sync0_period as int,
        r.1 as int == (sync0_period - r.0) + sync0_shift,
        r.0 < sync0_period,
@before "let cycle_start_offset"
    proof { lemma_mod_bound(time as int, sync0_period as int); }
@*/

} // verus!
fn main() {}

//@unit dc_sync  props=C18  min_verified=6
// C18: the body of SubDeviceGroup::configure_dc_sync from the device filter to the end of the per-device loop, extracted as
// one R6 fragment (verbatim; what is cut off: the reference-clock lookup in front, returning NoReference when there is none,
// and the typestate struct rebuilt around it).  The device is the arbitrary network: the reference time read may be any u64.
// Decided: which devices are configured (exactly those with any DC support whose DcSync is not Disabled), the value written
// to each register of each of them, the 32-bit range checks, and the period handed to the cycle arithmetic.
use vstd::prelude::*;
use vstd::arithmetic::div_mod::*;
use vstd::arithmetic::mul::*;
use core::marker::PhantomData;
verus! {

//@include prelude/errors.rs
//@include prelude/opaque_payloads.rs
//@include prelude/std_specs.rs
//@include prelude/wire_traits.rs
//@include prelude/opaque_maindevice.rs
//@include prelude/received_pdu.rs
//@include prelude/command.rs

/// core::time::Duration as far as it is used here
pub struct Duration { pub ns: Ghost<nat> }
impl Duration {
    #[verifier::external_body]
    pub fn as_nanos(&self) -> (r: u128) ensures r == self.ns@ { unimplemented!() }
    #[verifier::external_body]
    pub fn subsec_nanos(&self) -> (r: u32) ensures r == self.ns@ % 1_000_000_000 { unimplemented!() }
    #[verifier::external_body]
    pub fn as_secs(&self) -> (r: u64) ensures r == self.ns@ / 1_000_000_000 { unimplemented!() }
    #[verifier::external_body]
    pub fn as_micros(&self) -> (r: u128) ensures r == self.ns@ / 1_000 { unimplemented!() }
    #[verifier::external_body]
    pub fn as_millis(&self) -> (r: u128) ensures r == self.ns@ / 1_000_000 { unimplemented!() }
}
impl PartialEq for Duration { #[verifier::external_body] fn eq(&self, o: &Self) -> bool { unimplemented!() } }
impl Eq for Duration {}
impl Clone for Duration { #[verifier::external_body] fn clone(&self) -> (r: Self) ensures r == *self { unimplemented!() } }
impl Copy for Duration {}

pub struct TryFromIntError { pub _p: u8 }
#[verifier::external_body]
pub fn u32_try_from(v: u128) -> (r: Result<u32, TryFromIntError>)
    ensures (r is Ok) == (v <= u32::MAX), r is Ok ==> r->Ok_0 == v
{ unimplemented!() }
#[verifier::external_body]
pub fn u64_try_from(v: u128) -> (r: Result<u64, TryFromIntError>)
    ensures (r is Ok) == (v <= u64::MAX), r is Ok ==> r->Ok_0 == v
{ unimplemented!() }
impl From<TryFromIntError> for Error {
    #[verifier::external_body]
    fn from(e: TryFromIntError) -> (r: Error) { unimplemented!() }
}

/*@type file=src/subdevice/dc.rs name=DcSync derive="Clone, Copy, PartialEq, Eq" @*/
/*@type file=src/register.rs name=DcSupport derive="Clone, Copy, PartialEq, Eq, Debug" @*/
impl DcSupport {
/*@fn file=src/register.rs impl="impl DcSupport" name=any props=C18
    ensures r == !(*self is None)
@*/
}
/*@const file=src/subdevice_group/mod.rs name=CYCLIC_OP_ENABLE @*/
/*@const file=src/subdevice_group/mod.rs name=SYNC0_ACTIVATE @*/
/*@const file=src/subdevice_group/mod.rs name=SYNC1_ACTIVATE @*/

/// "the value `v` was sent with this write command"
pub uninterp spec fn reg_sent(cmd: Writes, v: int) -> bool;
/// "the 64-bit system time `t` was read from the DC reference clock at `reference`"
pub uninterp spec fn ref_time_read(reference: u16, t: u64) -> bool;

pub trait WireVal { spec fn val(&self) -> int; }
impl WireVal for u8 { open spec fn val(&self) -> int { *self as int } }
impl WireVal for u64 { open spec fn val(&self) -> int { *self as int } }

impl WrappedWrite {
    /// real bodies: src/command/writes.rs (unit `wrapped`)
    #[verifier::external_body]
    pub fn ignore_wkc(self) -> (r: Self) ensures r.command == self.command { unimplemented!() }
    #[verifier::external_body]
    pub async fn send<D: WireVal>(self, maindevice: &MainDevice, data: D) -> (r: Result<(), Error>)
        ensures r is Ok ==> reg_sent(self.command, data.val())
    { unimplemented!() }
    /// `send` with a ghost log threaded through (R24): the same exchange; when it succeeds the log gains (address, register, value)
    #[verifier::external_body]
    pub async fn send_logged<D: WireVal>(self, log: &mut Ghost<Seq<(u16, u16, int)>>, maindevice: &MainDevice, data: D) -> (r: Result<(), Error>)
        ensures
            r is Ok ==> reg_sent(self.command, data.val())
                && exists|a: u16, g: u16| self.command == (Writes::Fpwr { address: a, register: g }) && final(log)@ == old(log)@.push((a, g, data.val())),
            r is Err ==> final(log)@ == old(log)@,
    { unimplemented!() }
}

/// a group member as handed out by `group.iter(maindevice)` (SubDeviceRef<&SubDevice>)
pub struct DcDev { pub configured_address: u16, pub dc_support: DcSupport, pub dc_sync: DcSync }
impl DcDev {
    pub fn dc_support(&self) -> (r: DcSupport) ensures r == self.dc_support { self.dc_support }
    pub fn dc_sync(&self) -> (r: DcSync) ensures r == self.dc_sync { self.dc_sync }
    #[verifier::external_body]
    pub fn configured_address(&self) -> (r: u16) ensures r == self.configured_address { unimplemented!() }
    #[verifier::external_body]
    pub fn name(&self) -> (r: &str) { unimplemented!() }
/*@fn file=src/subdevice/mod.rs impl="impl<'maindevice, S> SubDeviceRef<'maindevice, S>" name=write subst="impl Into<u16>=>RegisterAddress" props=C18
    ensures r.command == (Writes::Fpwr { address: self.configured_address, register: register as u16 })
@*/
}

/// "configured for DC": any DC support and a sync mode other than Disabled
pub open spec fn wants_dc(d: DcDev) -> bool { !(d.dc_support is None) && !(d.dc_sync is Disabled) }

pub struct DevIter { pub rest: Ghost<Seq<DcDev>> }
pub struct DcIter { pub rest: Ghost<Seq<DcDev>> }
impl DevIter {
    /// core::iter::Iterator::filter, instantiated for the closure type used here (R8): keeps, in order, exactly the elements
    /// for which the closure answers true
    #[verifier::external_body]
    pub fn filter<F: Fn(&DcDev) -> bool>(self, f: F) -> (r: DcIter)
        requires
            forall|d: DcDev| #[trigger] f.requires((&d,)),
            // the closure decides exactly `wants_dc` (proved from the closure's own, verified, postcondition)
            forall|d: DcDev, b: bool| #[trigger] f.ensures((&d,), b) ==> b == wants_dc(d),
        ensures r.rest@ == self.rest@.filter(|d: DcDev| wants_dc(d)),
    { unimplemented!() }
}
impl DcIter {
    #[verifier::external_body]
    pub fn next(&mut self) -> (r: Option<DcDev>)
        ensures
            old(self).rest@.len() == 0 ==> r is None && final(self).rest@ == old(self).rest@,
            old(self).rest@.len() > 0 ==> r is Some && r->Some_0 == old(self).rest@[0] && final(self).rest@ == old(self).rest@.skip(1),
    { unimplemented!() }
}
pub struct DcGrp { pub devs: Ghost<Seq<DcDev>> }
impl DcGrp {
    #[verifier::external_body]
    pub fn iter(&self, maindevice: &MainDevice) -> (r: DevIter) ensures r.rest@ == self.devs@ { unimplemented!() }
}

/// the reference clock's view: SubDeviceRef::new(maindevice, reference, ()).register_read::<u64>(DcSystemTime)
pub struct RefDev { pub reference: u16 }
impl RefDev {
    #[verifier::external_body]
    pub async fn register_read_u64(&self, register: RegisterAddress) -> (r: Result<u64, Error>)
        ensures
            r is Ok && register as u16 == 0x0910 ==> ref_time_read(self.reference, r->Ok_0),
            // ASSUMPTION A-C18-1: reference time + start delay is representable in 64 bits (the DC epoch is 2000-01-01;
            // u64 nanoseconds run until the year 2584) - without it `system_time + first_pulse_delay` overflows
            r is Ok ==> r->Ok_0 <= u64::MAX - u32::MAX,
    { unimplemented!() }
}
#[verifier::external_body]
pub fn ref_dev(maindevice: &MainDevice, reference: u16) -> (r: RefDev) ensures r.reference == reference { unimplemented!() }

/// everything a configured device is sent, given the reference time t, delay dl and period p (all in ns)
pub open spec fn dc_programmed(d: DcDev, t: u64, dl: int, p: int) -> bool {
    let a = d.configured_address;
    &&& reg_sent(Writes::Fpwr { address: a, register: 0x0981 }, 0)                      // cyclic operation off first
    &&& exists|st: int| #[trigger] reg_sent(Writes::Fpwr { address: a, register: 0x0990 }, st)
            && st % p == 0 && t + dl - p < st <= t + dl                                  // SYNC0 start time
    &&& reg_sent(Writes::Fpwr { address: a, register: 0x09a0 }, p)                      // SYNC0 cycle time
    &&& match d.dc_sync {
            DcSync::Sync01 { sync1_period } =>
                reg_sent(Writes::Fpwr { address: a, register: 0x09a4 }, sync1_period.ns@ as int)   // SYNC1 cycle time
                && reg_sent(Writes::Fpwr { address: a, register: 0x0981 }, 0x07),       // SYNC0 + SYNC1 + cyclic op
            _ => reg_sent(Writes::Fpwr { address: a, register: 0x0981 }, 0x03),         // SYNC0 + cyclic op
        }
}

/// the SYNC0 start time every configured device gets: (reference time + delay) rounded DOWN to a whole number of cycles
pub open spec fn start_of(t: u64, dl: int, p: int) -> int { ((t + dl) / p) * p }
/// the register writes ONE configured device receives, in order: cyclic operation off, start time, SYNC0 cycle, (SYNC1 cycle), activation
pub open spec fn dev_log(d: DcDev, t: u64, dl: int, p: int) -> Seq<(u16, u16, int)> {
    let a = d.configured_address;
    let head = seq![(a, 0x0981u16, 0int), (a, 0x0990u16, start_of(t, dl, p)), (a, 0x09a0u16, p)];
    match d.dc_sync {
        DcSync::Sync01 { sync1_period } => head.push((a, 0x09a4u16, sync1_period.ns@ as int)).push((a, 0x0981u16, 0x07int)),
        _ => head.push((a, 0x0981u16, 0x03int)),
    }
}
pub open spec fn devs_log(ds: Seq<DcDev>, t: u64, dl: int, p: int) -> Seq<(u16, u16, int)>
    decreases ds.len()
{
    if ds.len() == 0 { Seq::empty() } else { devs_log(ds.drop_last(), t, dl, p) + dev_log(ds.last(), t, dl, p) }
}

/*@fragment file=src/subdevice_group/mod.rs impl="impl<const MAX_SUBDEVICES: usize, const MAX_PDI: usize, R: RawRwLock, S, DC> SubDeviceGroup<MAX_SUBDEVICES, MAX_PDI, R, S, DC>" fn=configure_dc_sync from="let dc_devices = self_.iter(maindevice)" to=".send(maindevice, flags) .await?; }" name=dc_sync_program qual="pub async" sig="self_: &DcGrp, maindevice: &MainDevice, reference: u16, start_delay: Duration, sync0_period: Duration, log: &mut Ghost<Seq<(u16, u16, int)>> -> (r: Result<u64, Error>)" tail="Ok(sync0_period)" subst=".send(maindevice,=>.send_logged(log, maindevice,@@SubDeviceRef::new(maindevice, reference, ()) .register_read::<u64>(=>ref_dev(maindevice, reference).register_read_u64(@@u32::try_from(=>u32_try_from(@@u64::try_from(=>u64_try_from(" props=C18 attr="#[verifier::loop_isolation(false)]"
    requires
        sync0_period.ns@ >= 1,                       // a zero period is outside the property's quantifier (it divides by zero)
    ensures
        // periods or delays beyond 32-bit nanoseconds are rejected
        sync0_period.ns@ > u32::MAX || start_delay.ns@ > u32::MAX ==> r is Err,
        // Ok => the period handed on to the cycle arithmetic is the configured one, and every device of the group that
        // supports DC and asked for it was programmed against one reading t of the reference clock
        r is Ok ==> r->Ok_0 == sync0_period.ns@ && exists|t: u64| #[trigger] ref_time_read(reference, t)
            && forall|i: int| 0 <= i < self_.devs@.len() && wants_dc(self_.devs@[i]) ==>
                    #[trigger] dc_programmed(self_.devs@[i], t, start_delay.ns@ as int, sync0_period.ns@ as int),
        // ORDER and "no other write": everything this call wrote is, device after device in group order, exactly dev_log(..)
        r is Ok ==> exists|t: u64| #[trigger] ref_time_read(reference, t)
            && final(log)@ == old(log)@ + devs_log(self_.devs@.filter(|d: DcDev| wants_dc(d)), t, start_delay.ns@ as int, sync0_period.ns@ as int),
@closure 0 "|subdevice: &DcDev| -> (cb: bool)"
    ensures cb == wants_dc(*subdevice)
@entry
    let ghost want = self_.devs@.filter(|d: DcDev| wants_dc(d));
    let ghost p0 = sync0_period.ns@ as int;
    let ghost dl0 = start_delay.ns@ as int;
@loop 0
    invariant
        sync0_period as int == p0, first_pulse_delay as int == dl0, 1 <= p0 <= u32::MAX, dl0 <= u32::MAX,
        ref_time_read(reference, system_time),
        __it0.rest@.len() <= want.len(),
        __it0.rest@ =~= want.skip(want.len() - __it0.rest@.len()),
        forall|i: int| 0 <= i < want.len() - __it0.rest@.len() ==> #[trigger] dc_programmed(want[i], system_time, dl0, p0),
        log@ =~= old(log)@ + devs_log(want.subrange(0, want.len() - __it0.rest@.len()), system_time, dl0, p0),
    decreases __it0.rest@.len()
@before "let start_time ="
    proof {
        let x = (system_time + first_pulse_delay) as int;
        let p = sync0_period as int;
        lemma_fundamental_div_mod(x, p);
        lemma_mod_bound(x, p);
        lemma_mod_multiples_basic(x / p, p);
        lemma_mul_is_commutative(x / p, p);
        assert(0 <= x / p) by { lemma_div_pos_is_pos(x, p); }
        assert((x / p) * p <= x);
    }
@loop_start 0
    let ghost log_iter = log@;
@loop_end 0
    proof {
        let k = want.len() - __it0.rest@.len() - 1;
        assert(want[k] == subdevice);
        assert((4u8 | 2u8 | 1u8) == 7u8) by (bit_vector);
        assert((2u8 | 1u8) == 3u8) by (bit_vector);
        assert(reg_sent(Writes::Fpwr { address: subdevice.configured_address, register: 0x0990 }, start_time as int));
        assert(dc_programmed(want[k], system_time, dl0, p0));
        assert(start_time as int == start_of(system_time, dl0, p0));
        assert(want.subrange(0, k + 1).drop_last() =~= want.subrange(0, k));
        assert(want.subrange(0, k + 1).last() == want[k]);
        assert(devs_log(want.subrange(0, k + 1), system_time, dl0, p0) == devs_log(want.subrange(0, k), system_time, dl0, p0) + dev_log(want[k], system_time, dl0, p0));
        assert(log@ =~= log_iter + dev_log(want[k], system_time, dl0, p0));
    }
@after_loop 0
    proof {
        assert(want.subrange(0, want.len() as int) =~= want);
        assert forall|i: int| 0 <= i < self_.devs@.len() && wants_dc(self_.devs@[i]) implies
            #[trigger] dc_programmed(self_.devs@[i], system_time, dl0, p0) by {
            let d = self_.devs@[i];
            self_.devs@.filter_lemma(|d: DcDev| wants_dc(d));
            assert(want.contains(d));
        }
    }
@*/

// ---- the two ends of configure_dc_sync that the fragment above cuts off ----
impl From<DistributedClockError> for Error {
/*@fn file=src/error.rs impl="impl From<DistributedClockError> for Error" name=from ret=none canary=0
@*/
}
impl vstd::std_specs::convert::FromSpecImpl<DistributedClockError> for Error {
    open spec fn obeys_from_spec() -> bool { true }
    open spec fn from_spec(v: DistributedClockError) -> Error { Error::DistributedClock(v) }
}
/*@type file=src/subdevice_group/mod.rs name=DcConfiguration derive="Clone, Copy" @*/
/*@type file=src/subdevice_group/mod.rs name=HasDc derive="Clone, Copy" @*/
/// "the station address stored as DC reference by MainDevice::init" (0 = none; dc_ref_address maps 0 to None)
pub uninterp spec fn dc_ref_of(m: &MainDevice) -> Option<u16>;
impl MainDevice {
    #[verifier::external_body]
    pub fn dc_ref_address(&self) -> (r: Option<u16>) ensures r == dc_ref_of(self) { unimplemented!() }
}
/*@fragment file=src/subdevice_group/mod.rs impl="impl<const MAX_SUBDEVICES: usize, const MAX_PDI: usize, R: RawRwLock, S, DC> SubDeviceGroup<MAX_SUBDEVICES, MAX_PDI, R, S, DC>" fn=configure_dc_sync from="@start" to="} = dc_conf;" name=dc_sync_head qual="pub" sig="maindevice: &MainDevice, dc_conf: DcConfiguration -> (r: Result<(u16, Duration, Duration, Duration), Error>)" tail="Ok((reference, start_delay, sync0_period, sync0_shift))" props=C18
    ensures
        // a network without a reference clock is rejected - with the documented error - before anything is written
        dc_ref_of(maindevice) is None ==> r == Err::<(u16, Duration, Duration, Duration), Error>(Error::DistributedClock(DistributedClockError::NoReference)),
        // otherwise the three configured durations and the reference address go on unchanged and unswapped
        dc_ref_of(maindevice) is Some ==> r == Ok::<(u16, Duration, Duration, Duration), Error>((dc_ref_of(maindevice)->Some_0, dc_conf.start_delay, dc_conf.sync0_period, dc_conf.sync0_shift)),
@*/

pub struct Opaque { pub _p: u8 }
pub struct GroupRec0 { pub id: Opaque, pub pdi: Opaque, pub read_pdi_len: usize, pub pdi_len: usize, pub inner: Opaque }
pub struct GroupRec { pub id: Opaque, pub pdi: Opaque, pub read_pdi_len: usize, pub pdi_len: usize, pub inner: Opaque, pub dc_conf: HasDc, pub _state: PhantomData<()> }
/*@fragment file=src/subdevice_group/mod.rs impl="impl<const MAX_SUBDEVICES: usize, const MAX_PDI: usize, R: RawRwLock, S, DC> SubDeviceGroup<MAX_SUBDEVICES, MAX_PDI, R, S, DC>" fn=configure_dc_sync from="Ok(SubDeviceGroup {" to="_state: PhantomData, })" name=dc_sync_tail qual="pub" sig="self_: GroupRec0, sync0_period: u64, sync0_shift: Duration, reference: u16 -> (r: Result<GroupRec, Error>)" tail="" subst="Ok(SubDeviceGroup {=>Ok(GroupRec {" props=C18
    requires sync0_shift.ns@ <= u64::MAX        // (a shift beyond 584 years would be truncated by `as u64`; outside the quantifier)
    ensures
        // what the cycle arithmetic of tx_rx_dc later works with: the checked period, the shift in ns, the reference address
        r is Ok && (r->Ok_0).dc_conf.sync0_period == sync0_period && (r->Ok_0).dc_conf.sync0_shift == sync0_shift.ns@
            && (r->Ok_0).dc_conf.reference == reference
            && (r->Ok_0).read_pdi_len == self_.read_pdi_len && (r->Ok_0).pdi_len == self_.pdi_len,
@*/

} // verus!
fn main() {}

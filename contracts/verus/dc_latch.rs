//@unit dc_latch  props=C17  min_verified=3
// C17: latch_dc_times (src/dc.rs) as two fragments - the latch broadcast at the top of the function and the body of its read-back
// loop - plus Ports::set_receive_times extracted whole.  Decided: the receive times are latched by ONE broadcast write to 0x0900
// expecting exactly as many answers as there are DC-capable devices; for the device visited, its 64-bit receive time is what an
// FPRD of 0x0918 at ITS station address returned, and the four port times are the four words of an FPRD of 0x0900 at that address,
// stored in EtherCAT port order 0, 3, 1, 2 (array slots 0, 2, 3 <- words 0, 3, 1, 2 ... exactly as `ports_after` says).
// Not decided here: that the loop visits every DC-capable device (iterator adapters over `iter_mut()`); which devices are DC
// capable is SubDevice::new (unit init_addr).
use vstd::prelude::*;
verus! {

//@include prelude/errors.rs
//@include prelude/opaque_payloads.rs
//@include prelude/std_specs.rs
//@include prelude/wire_traits.rs
//@include prelude/opaque_maindevice.rs
//@include prelude/received_pdu.rs
//@include prelude/command.rs

/// "this write command went out carrying `v`, and was accepted only with working counter `wkc` (None = not looked at)"
pub uninterp spec fn reg_sent_wkc(cmd: Writes, wkc: Option<u16>, v: int) -> bool;
/// "this read command, accepted only with working counter `wkc`, returned the 64-bit value `v`"
pub uninterp spec fn u64_read(cmd: Reads, wkc: Option<u16>, v: u64) -> bool;
/// "... returned the four 32-bit words `v`" (register 0x0900 holds the receive times of ports 0, 1, 2, 3 in that order)
pub uninterp spec fn u32x4_read(cmd: Reads, wkc: Option<u16>, v: [u32; 4]) -> bool;

impl Command {
/*@fn file=src/command/mod.rs impl="impl Command" name=bwr canary=0
    ensures r.command == (Writes::Bwr { address: 0, register }), r.wkc == Some(1u16)
@*/
}
impl WrappedWrite {
/*@fn file=src/command/writes.rs impl="impl WrappedWrite" name=with_wkc canary=0
    ensures r.command == self.command, r.wkc == Some(wkc)
@*/
    /// real body: src/command/writes.rs (unit `wrapped`)
    #[verifier::external_body]
    pub async fn send(self, maindevice: &MainDevice, data: u32) -> (r: Result<(), Error>)
        ensures r is Ok ==> reg_sent_wkc(self.command, self.wkc, data as int)
    { unimplemented!() }
}
impl WrappedRead {
/*@fn file=src/command/reads.rs impl="impl WrappedRead" name=ignore_wkc canary=0
    ensures r.command == self.command, r.wkc is None
@*/
    /// `receive::<u64>` / `receive::<[u32; 4]>` (unit wrapped: Ok only if the counter was accepted)
    #[verifier::external_body]
    pub async fn receive_u64(self, maindevice: &MainDevice) -> (r: Result<u64, Error>)
        ensures r is Ok ==> u64_read(self.command, self.wkc, r->Ok_0)
    { unimplemented!() }
    #[verifier::external_body]
    pub async fn receive_u32x4(self, maindevice: &MainDevice) -> (r: Result<[u32; 4], Error>)
        ensures r is Ok ==> u32x4_read(self.command, self.wkc, r->Ok_0)
    { unimplemented!() }
}
pub assume_specification<T, E, F: FnOnce(&E)>[ Result::<T, E>::inspect_err ](r: Result<T, E>, f: F) -> (o: Result<T, E>)
    requires r is Err ==> f.requires((&r->Err_0,)),
    ensures o == r;

/*@type file=src/register.rs name=DcSupport derive="Clone, Copy, PartialEq, Eq, Debug" @*/
impl DcSupport {
/*@fn file=src/register.rs impl="impl DcSupport" name=any canary=0
    ensures r == !(*self is None)
@*/
}

// ---- ports (src/subdevice/ports.rs) ----
/*@type file=src/subdevice/ports.rs name=Port derive="Clone, Copy, PartialEq, Eq, Debug" subst="NonZeroU16=>u16" @*/
/*@type file=src/subdevice/ports.rs name=Ports derive="Clone, Copy, Debug" @*/
/// the ports with the four receive times t0..t3 (EtherCAT PORT numbers) stored: the array is kept in port order 0, 3, 1, 2
pub open spec fn ports_after(p: Ports, t0: u32, t1: u32, t2: u32, t3: u32) -> Ports {
    Ports([
        Port { dc_receive_time: t0, ..p.0[0] },
        Port { dc_receive_time: t3, ..p.0[1] },
        Port { dc_receive_time: t1, ..p.0[2] },
        Port { dc_receive_time: t2, ..p.0[3] },
    ])
}
impl Ports {
/*@fn file=src/subdevice/ports.rs impl="impl Ports" name=set_receive_times props=C17
    ensures final(self).0@ =~= ports_after(*old(self), time_p0, time_p1, time_p2, time_p3).0@
@*/
}

/// the fields of SubDevice read here
pub struct SubDevice { pub configured_address: u16, pub dc_support: DcSupport }
impl SubDevice {
    pub fn dc_support(&self) -> (r: DcSupport) ensures r == self.dc_support { self.dc_support }
}
pub open spec fn has_dc(d: SubDevice) -> bool { !(d.dc_support is None) }
pub open spec fn count_dc(s: Seq<SubDevice>) -> nat
    decreases s.len()
{
    if s.len() == 0 { 0 } else { count_dc(s.drop_last()) + (if has_dc(s.last()) { 1nat } else { 0nat }) }
}
pub proof fn lemma_count_le(s: Seq<SubDevice>)
    ensures count_dc(s) <= s.len()
    decreases s.len()
{
    if s.len() > 0 { lemma_count_le(s.drop_last()); }
}

/// `subdevices.iter()` (R8) with the adapters used on it here: filter(predicate).count()
pub struct SdIter<'a> { pub rest: &'a [SubDevice] }
pub struct DcOnly<'a> { pub all: &'a [SubDevice] }
#[verifier::external_body]
pub fn sd_iter<'a>(s: &'a [SubDevice]) -> (r: SdIter<'a>) ensures r.rest@ == s@ { unimplemented!() }
impl<'a> SdIter<'a> {
    #[verifier::external_body]
    pub fn filter<F: Fn(&&SubDevice) -> bool>(self, f: F) -> (r: DcOnly<'a>)
        requires
            forall|d: &&SubDevice| #[trigger] f.requires((d,)),
            // the closure decides exactly `has_dc` (proved from the closure's own, verified, postcondition)
            forall|d: &&SubDevice, b: bool| #[trigger] f.ensures((d,), b) ==> b == has_dc(**d),
        ensures r.all@ == self.rest@,
    { unimplemented!() }
}
impl<'a> DcOnly<'a> {
    /// Iterator::count of the filtered iterator: how many elements the predicate accepts
    #[verifier::external_body]
    pub fn count(self) -> (r: usize) ensures r == count_dc(self.all@) { unimplemented!() }
}

/*@fragment file=src/dc.rs fn=latch_dc_times from="@start" to=".send(maindevice, 0u32) .await?;" name=latch_broadcast qual="pub async" sig="maindevice: &MainDevice, subdevices: &[SubDevice] -> (r: Result<(), Error>)" tail="Ok(())" subst="subdevices .iter()=>sd_iter(subdevices)" props=C17
    requires subdevices@.len() <= 0xffff        // MainDevice counts its SubDevices in a u16
    ensures
        // ONE broadcast write of 0 to register 0x0900 latches the port receive times; it is accepted only if exactly the
        // DC-capable devices (and so: all of them) answered
        r is Ok ==> reg_sent_wkc(Writes::Bwr { address: 0, register: 0x0900 }, Some(count_dc(subdevices@) as u16), 0),
@entry
    proof { lemma_count_le(subdevices@); }
@closure 0 "|subdevice: &&SubDevice| -> (cr: bool)" of=filter
    ensures cr == has_dc(**subdevice)
@*/

/// `SubDeviceRef<&mut SubDevice>` as the loop body sees it (Deref/DerefMut to the SubDevice fields flattened)
pub struct SdRefMut { pub configured_address: u16, pub dc_receive_time: u64, pub ports: Ports }
impl SdRefMut {
    pub fn configured_address(&self) -> (r: u16) ensures r == self.configured_address { self.configured_address }
/*@fn file=src/subdevice/mod.rs impl="impl<'maindevice, S> SubDeviceRef<'maindevice, S>" name=read subst="impl Into<u16>=>RegisterAddress" props=C17
    ensures r.command == (Reads::Fprd { address: self.configured_address, register: register as u16 }), r.wkc == Some(1u16)
@*/
}

/*@fragment file=src/dc.rs fn=latch_dc_times from="let dc_receive_time = subdevice" to="@loop_body_end 0" name=latch_read_one qual="pub async" sig="maindevice: &MainDevice, subdevice: &mut SdRefMut -> (r: Result<(), Error>)" tail="Ok(())" subst=".receive::<u64>(=>.receive_u64(@@.receive::<[u32; 4]>(=>.receive_u32x4(" props=C17
    ensures
        final(subdevice).configured_address == old(subdevice).configured_address,
        // the device's own receive time: FPRD 0x0918 at ITS station address (counter not looked at); the port times: the four words of
        // FPRD 0x0900 at its address (one answer expected), word k = EtherCAT port k
        r is Ok ==> u64_read(Reads::Fprd { address: old(subdevice).configured_address, register: 0x0918 }, None, final(subdevice).dc_receive_time)
            && exists|w: [u32; 4]| #[trigger] u32x4_read(Reads::Fprd { address: old(subdevice).configured_address, register: 0x0900 }, Some(1u16), w)
                && final(subdevice).ports.0@ =~= ports_after(old(subdevice).ports, w[0], w[1], w[2], w[3]).0@,
@closure 0 "|_e: &Error|" of=inspect_err
@*/

} // verus!
fn main() {}

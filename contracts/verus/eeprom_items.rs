//@unit eeprom_items  props=C12,C13  min_verified=4
// The item layer of the EEPROM parser (src/subdevice/eeprom.rs): CategoryIterator::{next, next_sub_item} on the real EepromRange
// contracts (unit eeprom_range / subdevice_eeprom), and the loops that collect PDOs, FMMU mappings and sync managers.
// Decided for ARBITRARY EEPROM contents: an item is decoded from exactly the next PACKED_LEN bytes of the category window and the
// window position advances by that many bytes (so every collecting loop terminates: measure = bytes left in the window);
// a PDO's bit length is the sum of the bit lengths of exactly its `num_entries` entries (no overflow: <= 255 * 255); the lists
// never exceed their capacity (error, not panic); a category that ends inside an entry is a decode error.
use vstd::prelude::*;
use core::marker::PhantomData;
verus! {

//@include prelude/errors.rs
//@include prelude/opaque_payloads.rs
//@include prelude/opaque_command.rs
//@include prelude/std_specs.rs
//@include prelude/provider.rs
//@include prelude/readexact.rs
//@include prelude/wire_traits_buf.rs

// EepromRange with the contracts proved in unit eeprom_range (restated as assumptions of THIS unit: same text)
/*@type file=src/eeprom/mod.rs name=EepromRange subst="<P>=>@@P=>Prov" @*/
impl EepromRange {
    pub open spec fn wf(&self) -> bool { self.reader.wf() }
    /// bytes left in the window
    pub open spec fn left(&self) -> int { if self.end > self.byte_pos { self.end - self.byte_pos } else { 0 } }

    /// contract proved in unit subdevice_eeprom (read_exact extracted from the dependency on top of EepromRange::read)
    #[verifier::external_body]
    pub async fn read_exact(&mut self, buf: &mut [u8]) -> (r: Result<(), ReadExactError<Error>>)
        requires old(self).wf()
        ensures
            final(self).wf(),
            final(self).reader.mem_eq(&old(self).reader),
            final(self).end == old(self).end,
            final(self).byte_pos >= old(self).byte_pos,
            final(buf)@.len() == old(buf)@.len(),
            r is Ok ==> final(self).byte_pos as int == old(self).byte_pos + old(buf)@.len()
                && (old(buf)@.len() > 0 ==> old(self).byte_pos + old(buf)@.len() <= old(self).end)
                && forall|i: int| 0 <= i < old(buf)@.len() ==> final(buf)@[i] == old(self).reader.byte(old(self).byte_pos + i),
    { unimplemented!() }
}

/*@type file=src/subdevice/eeprom.rs name=CategoryIterator subst="<P, T>=><T>@@EepromRange<P>=>EepromRange" @*/

/// the bytes an item of n bytes is decoded from, for a window standing at byte position pos
pub open spec fn item_bytes(p: Prov, pos: int, n: int) -> Seq<u8> { Seq::new(n as nat, |i: int| p.byte(pos + i)) }

impl<T: EtherCrabWireReadSized> CategoryIterator<T> {
    pub open spec fn wf(&self) -> bool { self.reader.wf() }

/*@fn file=src/subdevice/eeprom.rs impl="impl<P, T> CategoryIterator<P, T>" name=next props=C12,C13 try_all=1
    requires old(self).wf(), T::PACKED_LEN > 0
    ensures
        final(self).wf(), final(self).reader.reader.mem_eq(&old(self).reader.reader), final(self).reader.end == old(self).reader.end,
        final(self).reader.byte_pos >= old(self).reader.byte_pos,
        // Some(item) => decoded from exactly the next PACKED_LEN bytes, and the window advanced by exactly that much
        r is Ok && r->Ok_0 is Some ==> final(self).reader.byte_pos as int == old(self).reader.byte_pos + T::PACKED_LEN
            && final(self).reader.byte_pos <= old(self).reader.end
            && T::unpack_spec(item_bytes(old(self).reader.reader, old(self).reader.byte_pos as int, T::PACKED_LEN as int)) == Ok::<T, WireError>(r->Ok_0->Some_0),
@after "let mut buf = T::buffer();"
    let ghost pos0 = self.reader.byte_pos as int;
@before "Ok(Some(T::unpack_from_slice(buf.as_ref())?))"
    proof { assert(buf.bytes() =~= item_bytes(old(self).reader.reader, pos0, T::PACKED_LEN as int)); }
@*/

/*@fn file=src/subdevice/eeprom.rs impl="impl<P, T> CategoryIterator<P, T>" name=next_sub_item props=C12,C13 try_all=1
    requires old(self).wf(), S::PACKED_LEN > 0
    ensures
        final(self).wf(), final(self).reader.reader.mem_eq(&old(self).reader.reader), final(self).reader.end == old(self).reader.end,
        final(self).reader.byte_pos >= old(self).reader.byte_pos,
        r is Ok && r->Ok_0 is Some ==> final(self).reader.byte_pos as int == old(self).reader.byte_pos + S::PACKED_LEN
            && final(self).reader.byte_pos <= old(self).reader.end
            && S::unpack_spec(item_bytes(old(self).reader.reader, old(self).reader.byte_pos as int, S::PACKED_LEN as int)) == Ok::<S, WireError>(r->Ok_0->Some_0),
@after "let mut buf = S::buffer();"
    let ghost pos0 = self.reader.byte_pos as int;
@before "Ok(Some(S::unpack_from_slice(buf.as_ref())?))"
    proof { assert(buf.bytes() =~= item_bytes(old(self).reader.reader, pos0, S::PACKED_LEN as int)); }
@*/
}

// ---- PDOs ----
/*@type file=src/eeprom/types.rs name=Pdo derive="Clone, Copy, PartialEq, Debug" @*/
/*@type file=src/eeprom/types.rs name=PdoType derive="Clone, Copy, Debug" @*/
/// a PDO entry as far as it is used here (8 bytes on the wire; layout: derive output, C19)
pub struct PdoEntry { pub data_length_bits: u8 }

pub struct Buf8 { pub b: [u8; 8] }
impl BufLike for Buf8 {
    open spec fn bytes(&self) -> Seq<u8> { self.b@ }
    #[verifier::external_body]
    fn as_mut(&mut self) -> (r: &mut [u8]) { &mut self.b }
    #[verifier::external_body]
    fn as_ref(&self) -> (r: &[u8]) { &self.b }
}
impl EtherCrabWireSized for Pdo {
    const PACKED_LEN: usize = 8;
    type Buffer = Buf8;
    #[verifier::external_body]
    fn buffer() -> (r: Buf8) { unimplemented!() }
}
/// derive output for Pdo: `bit_len` is `#[wire(skip)]`, i.e. 0 after decoding (C19: wire_pdo)
pub uninterp spec fn pdo_decode(b: Seq<u8>) -> Result<Pdo, WireError>;
impl EtherCrabWireRead for Pdo {
    open spec fn unpack_spec(b: Seq<u8>) -> Result<Pdo, WireError> {
        match pdo_decode(b) { Ok(p) => Ok(Pdo { bit_len: 0, ..p }), Err(e) => Err(e) }
    }
    #[verifier::external_body]
    fn unpack_from_slice(buf: &[u8]) -> (r: Result<Pdo, WireError>) { unimplemented!() }
}
impl EtherCrabWireReadSized for Pdo {}
impl EtherCrabWireSized for PdoEntry {
    const PACKED_LEN: usize = 8;
    type Buffer = Buf8;
    #[verifier::external_body]
    fn buffer() -> (r: Buf8) { unimplemented!() }
}
impl EtherCrabWireRead for PdoEntry {
    uninterp spec fn unpack_spec(b: Seq<u8>) -> Result<PdoEntry, WireError>;
    #[verifier::external_body]
    fn unpack_from_slice(buf: &[u8]) -> (r: Result<PdoEntry, WireError>) { unimplemented!() }
}
impl EtherCrabWireReadSized for PdoEntry {}

/// stand-in for heapless::Vec<Pdo, 64>
pub struct PdoVec { pub v: Vec<Pdo> }
impl PdoVec {
    #[verifier::external_body]
    pub fn new() -> (r: Self) ensures r.v@.len() == 0 { unimplemented!() }
    #[verifier::external_body]
    pub fn push(&mut self, item: Pdo) -> (r: Result<(), Pdo>)
        ensures
            (r is Ok) == (old(self).v@.len() < 64),
            r is Ok ==> final(self).v@ == old(self).v@.push(item),
            r is Err ==> final(self).v@ == old(self).v@,
    { unimplemented!() }
}

/// opaque 8-byte / 3-byte items (layouts: derive output, C19) and a capacity-bounded list (heapless::Vec<T, N>)
macro_rules! opaque_item { ($t:ident, $b:ident, $n:expr) => { verus! {
    pub struct $t { pub _p: u8 }
    pub struct $b { pub b: [u8; $n] }
    impl BufLike for $b {
        open spec fn bytes(&self) -> Seq<u8> { self.b@ }
        #[verifier::external_body]
        fn as_mut(&mut self) -> (r: &mut [u8]) { &mut self.b }
        #[verifier::external_body]
        fn as_ref(&self) -> (r: &[u8]) { &self.b }
    }
    impl EtherCrabWireRead for $t {
        uninterp spec fn unpack_spec(b: Seq<u8>) -> Result<$t, WireError>;
        #[verifier::external_body]
        fn unpack_from_slice(buf: &[u8]) -> (r: Result<$t, WireError>) { unimplemented!() }
    }
    impl EtherCrabWireReadSized for $t {}
} } }
opaque_item!(FmmuEx, Buf3, 3);
opaque_item!(SyncManager, Buf8b, 8);
impl EtherCrabWireSized for FmmuEx {
    const PACKED_LEN: usize = 3;
    type Buffer = Buf3;
    #[verifier::external_body]
    fn buffer() -> (r: Buf3) { unimplemented!() }
}
impl EtherCrabWireSized for SyncManager {
    const PACKED_LEN: usize = 8;
    type Buffer = Buf8b;
    #[verifier::external_body]
    fn buffer() -> (r: Buf8b) { unimplemented!() }
}
pub struct CapVec<T, const N: usize> { pub v: Vec<T> }
impl<T, const N: usize> CapVec<T, N> {
    #[verifier::external_body]
    pub fn new() -> (r: Self) ensures r.v@.len() == 0 { unimplemented!() }
    #[verifier::external_body]
    pub fn push(&mut self, item: T) -> (r: Result<(), T>)
        ensures
            (r is Ok) == (old(self).v@.len() < N),
            r is Ok ==> final(self).v@ == old(self).v@.push(item),
            r is Err ==> final(self).v@ == old(self).v@,
    { unimplemented!() }
}

/*@type file=src/eeprom/types.rs name=CategoryType derive="Clone, Copy, PartialEq, Eq, Debug" @*/
impl From<PdoType> for CategoryType {
/*@fn file=src/eeprom/types.rs impl="impl From<PdoType> for CategoryType" name=from ret=none props=C12
@*/
}
impl vstd::std_specs::convert::FromSpecImpl<PdoType> for CategoryType {
    open spec fn obeys_from_spec() -> bool { true }
    open spec fn from_spec(v: PdoType) -> CategoryType { match v { PdoType::Tx => CategoryType::TxPdo, PdoType::Rx => CategoryType::RxPdo } }
}
/// "the items were read from the category of this type of this EEPROM"
pub uninterp spec fn walked(p: Prov, category: CategoryType) -> bool;
pub struct SubDeviceEeprom { pub provider: Prov }
impl SubDeviceEeprom {
    pub open spec fn wf(&self) -> bool { self.provider.wf() }
    /// `self.items::<T>(category)`: an iterator over the window of the FIRST category of that type in the EEPROM, or over an empty
    /// window when the category is absent (contract of `category`: unit subdevice_eeprom)
    #[verifier::external_body]
    pub async fn items_pdo(&self, category: CategoryType) -> (r: Result<CategoryIterator<Pdo>, Error>)
        requires self.wf()
        ensures r is Ok ==> (r->Ok_0).wf() && walked(self.provider, category)
    { unimplemented!() }
    #[verifier::external_body]
    pub async fn items_fmmu_ex(&self, category: CategoryType) -> (r: Result<CategoryIterator<FmmuEx>, Error>)
        requires self.wf()
        ensures r is Ok ==> (r->Ok_0).wf() && walked(self.provider, category)
    { unimplemented!() }
    #[verifier::external_body]
    pub async fn items_sm(&self, category: CategoryType) -> (r: Result<CategoryIterator<SyncManager>, Error>)
        requires self.wf()
        ensures r is Ok ==> (r->Ok_0).wf() && walked(self.provider, category)
    { unimplemented!() }

/*@fn file=src/subdevice/eeprom.rs impl="impl<P> SubDeviceEeprom<P>" name=fmmu_mappings subst="heapless::Vec<FmmuEx, 16>=>CapVec<FmmuEx, 16>@@heapless::Vec::<_, 16>::new()=>CapVec::<FmmuEx, 16>::new()@@self.items::<FmmuEx>(=>self.items_fmmu_ex(" props=C12,C13 attr="#[verifier::loop_isolation(false)]"
    requires self.wf()
    ensures r is Ok ==> (r->Ok_0).v@.len() <= 16 && walked(self.provider, CategoryType::FmmuExtended)
@loop 0
    invariant cat.wf(), mappings.v@.len() <= 16, walked(self.provider, CategoryType::FmmuExtended),
    decreases cat.reader.left()
@closure 0 "|_e: FmmuEx| -> (cr: Error)"
    ensures cr == Error::Capacity(Item::FmmuEx)
@*/

/*@fn file=src/subdevice/eeprom.rs impl="impl<P> SubDeviceEeprom<P>" name=sync_managers subst="heapless::Vec<SyncManager, 8>=>CapVec<SyncManager, 8>@@heapless::Vec::<_, 8>::new()=>CapVec::<SyncManager, 8>::new()@@self.items::<SyncManager>(=>self.items_sm(" props=C12,C13 attr="#[verifier::loop_isolation(false)]"
    requires self.wf()
    ensures
        // at most 8 sync managers: the index of a sync manager in this list (used as its register index) is below 8
        r is Ok ==> (r->Ok_0).v@.len() <= 8 && walked(self.provider, CategoryType::SyncManager)
@loop 0
    invariant cat.wf(), sync_managers.v@.len() <= 8, walked(self.provider, CategoryType::SyncManager),
    decreases cat.reader.left()
@closure 0 "|_e: SyncManager| -> (cr: Error)"
    ensures cr == Error::Capacity(Item::SyncManager)
@*/

/*@fn file=src/subdevice/eeprom.rs impl="impl<P> SubDeviceEeprom<P>" name=pdos subst="heapless::Vec<Pdo, 64>=>PdoVec@@heapless::Vec::new()=>PdoVec::new()@@self.items::<Pdo>(=>self.items_pdo(" props=C12,C13 attr="#[verifier::loop_isolation(false)]"
    requires self.wf()
    ensures
        // at most 64 PDOs, each with a bit length that is the sum of at most 255 entries of at most 255 bits
        r is Ok ==> (r->Ok_0).v@.len() <= 64 && forall|k: int| 0 <= k < (r->Ok_0).v@.len() ==> (#[trigger] (r->Ok_0).v@[k]).bit_len <= 255 * (r->Ok_0).v@[k].num_entries,
        // Tx PDOs (device transmits) come from the TXPDO category, Rx PDOs from the RXPDO category
        r is Ok ==> walked(self.provider, match direction { PdoType::Tx => CategoryType::TxPdo, PdoType::Rx => CategoryType::RxPdo }),
@loop 0
    invariant
        cat.wf(), pdos.v@.len() <= 64, walked(self.provider, match direction { PdoType::Tx => CategoryType::TxPdo, PdoType::Rx => CategoryType::RxPdo }),
        forall|k: int| 0 <= k < pdos.v@.len() ==> (#[trigger] pdos.v@[k]).bit_len <= 255 * pdos.v@[k].num_entries,
    decreases cat.reader.left()
@loop 1
    invariant
        cat.wf(), cat.reader.end == end0, cat.reader.byte_pos >= pos1,
        pdo.bit_len <= 255 * idx, idx <= pdo.num_entries, pdo.num_entries == n0,
@loop_start 0
    let ghost end0 = cat.reader.end;
    let ghost pos1 = cat.reader.byte_pos;
    let ghost n0 = pdo.num_entries;
@closure 0 "|_e: Pdo| -> (cr: Error)"
    ensures cr == Error::Capacity(Item::Pdo)
@*/
/*@fn file=src/subdevice/eeprom.rs impl="impl<P> SubDeviceEeprom<P>" name=maindevice_read_pdos subst="heapless::Vec<Pdo, 64>=>PdoVec" props=C12,C08
    requires self.wf()
    ensures
        // what the MainDevice READS is what the device TRANSMITS: the TXPDO category
        r is Ok ==> walked(self.provider, CategoryType::TxPdo) && (r->Ok_0).v@.len() <= 64,
@*/
/*@fn file=src/subdevice/eeprom.rs impl="impl<P> SubDeviceEeprom<P>" name=maindevice_write_pdos subst="heapless::Vec<Pdo, 64>=>PdoVec" props=C12,C08
    requires self.wf()
    ensures
        // what the MainDevice WRITES is what the device RECEIVES: the RXPDO category
        r is Ok ==> walked(self.provider, CategoryType::RxPdo) && (r->Ok_0).v@.len() <= 64,
@*/
}

} // verus!
fn main() {}

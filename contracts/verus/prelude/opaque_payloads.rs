// ---- payload types carried inside Error that no contract in this unit looks into (opaque stand-ins; assumption A-PAYLOAD) ----
#[derive(Clone, Copy, PartialEq, Eq, Debug)] pub struct CoeAbortCode(pub u32);
#[derive(Clone, Copy, PartialEq, Eq, Debug)] pub struct AlStatusCode(pub u16);
#[derive(Clone, Copy, PartialEq, Eq, Debug)] pub struct SubDeviceState(pub u8);

// ---- assumed contracts of integer helpers a refactor of the arithmetic fragments may reach for (trusted) ----
pub assume_specification[ u64::div_ceil ](a: u64, b: u64) -> (r: u64)
    requires b != 0
    ensures r as int == (a as int + b as int - 1) / (b as int)
;

// ---- wire traits with the Buffer associated type (ethercrab-wire/src/lib.rs); contract assumed, C19 checks impls ----
pub trait BufLike {
    spec fn bytes(&self) -> Seq<u8>;
    fn as_mut(&mut self) -> (r: &mut [u8])
        ensures r@ == old(self).bytes(), final(self).bytes() == final(r)@;
    fn as_ref(&self) -> (r: &[u8])
        ensures r@ == self.bytes();
}
pub trait EtherCrabWireSized {
    const PACKED_LEN: usize;
    type Buffer: BufLike;
    fn buffer() -> (r: Self::Buffer)
        ensures r.bytes().len() == Self::PACKED_LEN;
}
pub trait EtherCrabWireRead: Sized {
    spec fn unpack_spec(b: Seq<u8>) -> Result<Self, WireError>;
    fn unpack_from_slice(buf: &[u8]) -> (r: Result<Self, WireError>)
        ensures r == Self::unpack_spec(buf@);
}
pub trait EtherCrabWireReadSized: EtherCrabWireRead + EtherCrabWireSized {}
pub trait EtherCrabWireWrite {
    spec fn packed(&self) -> Seq<u8>;
    fn packed_len(&self) -> (r: usize) ensures r == self.packed().len();
    fn pack_to_slice<'buf>(&self, buf: &'buf mut [u8]) -> (r: Result<&'buf [u8], WireError>)
        ensures
            final(buf)@.len() == old(buf)@.len(),
            (r is Ok) == (self.packed().len() <= old(buf)@.len()),
            r is Ok ==> final(buf)@.subrange(0, self.packed().len() as int) == self.packed()
                && final(buf)@.subrange(self.packed().len() as int, old(buf)@.len() as int) == old(buf)@.subrange(self.packed().len() as int, old(buf)@.len() as int),
            r is Err ==> r->Err_0 == WireError::WriteBufferTooShort && final(buf)@ == old(buf)@;
}
impl From<WireError> for Error {
    fn from(value: WireError) -> (r: Self) ensures r == Error::Wire(value) { Error::Wire(value) }
}
impl vstd::std_specs::convert::FromSpecImpl<WireError> for Error {
    open spec fn obeys_from_spec() -> bool { true }
    open spec fn from_spec(v: WireError) -> Error { Error::Wire(v) }
}

pub struct Buf4 { pub b: [u8; 4] }
impl BufLike for Buf4 {
    open spec fn bytes(&self) -> Seq<u8> { self.b@ }
    #[verifier::external_body]
    fn as_mut(&mut self) -> (r: &mut [u8]) { &mut self.b }
    #[verifier::external_body]
    fn as_ref(&self) -> (r: &[u8]) { &self.b }
}
pub open spec fn le32(b: Seq<u8>) -> u32 {
    (b[0] as u32 + 256 * (b[1] as u32) + 65536 * (b[2] as u32) + 16777216 * (b[3] as u32)) as u32
}
impl EtherCrabWireSized for u32 {
    const PACKED_LEN: usize = 4;
    type Buffer = Buf4;
    #[verifier::external_body]
    fn buffer() -> (r: Buf4) { Buf4 { b: [0; 4] } }
}
impl EtherCrabWireRead for u32 {
    open spec fn unpack_spec(b: Seq<u8>) -> Result<u32, WireError> {
        if b.len() < 4 { Err(WireError::ReadBufferTooShort) } else { Ok(le32(b)) }
    }
    #[verifier::external_body]
    fn unpack_from_slice(buf: &[u8]) -> (r: Result<u32, WireError>) { unimplemented!() }
}


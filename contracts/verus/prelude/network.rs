// ---- the PDU loop and the network seen from a caller: a frame is built (CreatedFrame, C04 contract), marked sendable and
//      awaited; what comes back is ANY frame with the same datagram boundaries as the one sent (ECHO-SHAPE ASSUMPTION:
//      same number of datagrams, same lengths; data bytes and working counters arbitrary), or an error. ----
pub struct LabeledTimeout { pub _p: u8 }
pub struct Timeouts { pub _p: u8 }
impl Timeouts {
    /// the configured PDU timeout (src/timer_factory.rs / maindevice_config.rs)
    pub uninterp spec fn pdu_v(&self) -> LabeledTimeout;
    #[verifier::external_body]
    pub fn pdu(&self) -> (r: LabeledTimeout) ensures r == self.pdu_v() { unimplemented!() }
    pub uninterp spec fn state_transition_v(&self) -> LabeledTimeout;
    #[verifier::external_body]
    pub fn state_transition(&self) -> (r: LabeledTimeout) ensures r == self.state_transition_v() { unimplemented!() }
    /// the pause between two polls (src/timer_factory.rs)
    #[verifier::external_body]
    pub async fn loop_tick(&self) { unimplemented!() }
}
/*@type file=src/maindevice_config.rs name=RetryBehaviour derive="Clone, Copy, PartialEq, Eq, Debug" @*/
pub open spec fn retries_of(b: RetryBehaviour) -> usize {
    match b { RetryBehaviour::None => 0, RetryBehaviour::Count(n) => n, RetryBehaviour::Forever => usize::MAX }
}
impl RetryBehaviour {
/*@fn file=src/maindevice_config.rs impl="impl RetryBehaviour" name=retry_count noconst=1 props=C06
    ensures r == retries_of(*self)
@*/
}
pub struct MainDeviceConfig { pub retry_behaviour: RetryBehaviour }

/// (`cfg_timeout` / `cfg_retries`: ghost - the PDU timeout and retry count configured for the MainDevice this loop belongs to; used only
/// to state that EVERY frame is handed to the transmit side with them, C06 "the configured number of retries")
pub struct PduLoop { pub area: usize, pub cfg_timeout: Ghost<LabeledTimeout>, pub cfg_retries: Ghost<usize> }
impl PduLoop {
    /// alloc_frame: a fresh, empty frame whose PDU area has the configured size (Kani groups storage/slots), or SwapState
    #[verifier::external_body]
    pub fn alloc_frame(&self) -> (r: Result<CreatedFrame, Error>)
        ensures r is Ok ==> (r->Ok_0).used == 0 && (r->Ok_0).cap == self.area && (r->Ok_0).pdus@.len() == 0
    { unimplemented!() }
    #[verifier::external_body]
    pub fn wake_sender(&self) { unimplemented!() }
}
/// ghost events of ONE function activation (R24, local log): a frame made Sendable / the transmit task woken
pub enum PubEv { Published, Woken }
impl PduLoop {
    /// `wake_sender()` with the local ghost log: the transmit task is woken AFTER a frame has been made sendable - a wake-up
    /// that comes first finds nothing to send, and the frame published afterwards waits for the next wake-up or its timeout
    #[verifier::external_body]
    pub fn wake_sender_l(&self, log: &mut Ghost<Seq<PubEv>>)
        requires old(log)@.len() > 0, old(log)@.last() is Published
        ensures final(log)@ == old(log)@.push(PubEv::Woken)
    { unimplemented!() }
}
pub struct MainDevice { pub pdu_loop: PduLoop, pub timeouts: Timeouts, pub config: MainDeviceConfig }
impl MainDevice {
    /// the loop's ghost configuration IS this MainDevice's configuration
    pub open spec fn cfg_ok(&self) -> bool {
        self.pdu_loop.cfg_timeout@ == self.timeouts.pdu_v() && self.pdu_loop.cfg_retries@ == retries_of(self.config.retry_behaviour)
    }
}

/// one received datagram: its data area and working counter
pub struct RxPdu { pub data: Seq<u8>, pub wkc: u16 }

pub struct FrameFut { pub sent: Ghost<Seq<PduSpec>> }
pub struct ReceivedFrame { pub pdus: Ghost<Seq<RxPdu>> }
pub struct ReceivedPduIter { pub rest: Ghost<Seq<RxPdu>> }

/// "datagram `got` is what came back for the datagram carrying command `cmd`"
pub uninterp spec fn answered(cmd: Command, got: RxPdu) -> bool;

pub open spec fn echo_shape(sent: Seq<PduSpec>, got: Seq<RxPdu>) -> bool {
    got.len() == sent.len() && forall|i: int| 0 <= i < sent.len() ==>
        (#[trigger] got[i]).data.len() == sent[i].len && answered(sent[i].cmd, got[i])
}

impl CreatedFrame {
    #[verifier::external_body]
    pub fn mark_sendable(self, pdu_loop: &PduLoop, timeout: LabeledTimeout, retries: usize) -> (r: FrameFut)
        // C06: a frame waits for its response under the CONFIGURED PDU timeout and is re-sent the CONFIGURED number of times
        // (the real mark_sendable stores exactly what it is given: unit created_frame)
        requires timeout == pdu_loop.cfg_timeout@, retries == pdu_loop.cfg_retries@
        ensures r.sent@ == self.pdus@
    { unimplemented!() }
    /// the same with the local ghost log
    #[verifier::external_body]
    pub fn mark_sendable_l(self, log: &mut Ghost<Seq<PubEv>>, pdu_loop: &PduLoop, timeout: LabeledTimeout, retries: usize) -> (r: FrameFut)
        // C06: a frame waits for its response under the CONFIGURED PDU timeout and is re-sent the CONFIGURED number of times
        // (the real mark_sendable stores exactly what it is given: unit created_frame)
        requires timeout == pdu_loop.cfg_timeout@, retries == pdu_loop.cfg_retries@
        ensures r.sent@ == self.pdus@, final(log)@ == old(log)@.push(PubEv::Published)
    { unimplemented!() }
}
impl FrameFut {
    /// R14: `frame.await` on the hand-written future ReceiveFrameFut is modelled as this async stand-in
    #[verifier::external_body]
    pub async fn wait(self) -> (r: Result<ReceivedFrame, Error>)
        ensures r is Ok ==> echo_shape(self.sent@, (r->Ok_0).pdus@),
            // (the first datagram, stated without a quantifier for callers that discard the frame)
            r is Ok && self.sent@.len() > 0 ==> exists|g: RxPdu| #[trigger] answered(self.sent@[0].cmd, g) && g.data.len() == self.sent@[0].len,
    { unimplemented!() }
    /// awaiting the response of a frame: the transmit task has been woken for it (otherwise only the PDU timeout ends the wait)
    #[verifier::external_body]
    pub async fn wait_l(self, log: &Ghost<Seq<PubEv>>) -> (r: Result<ReceivedFrame, Error>)
        requires log@.len() > 0, log@.last() is Woken
        ensures r is Ok ==> echo_shape(self.sent@, (r->Ok_0).pdus@),
            // (the first datagram, stated without a quantifier for callers that discard the frame)
            r is Ok && self.sent@.len() > 0 ==> exists|g: RxPdu| #[trigger] answered(self.sent@[0].cmd, g) && g.data.len() == self.sent@[0].len,
    { unimplemented!() }
}
impl ReceivedFrame {
    /// contract of the real pointer code: Kani wkc::rx_first_pdu (view = the first datagram's data area, counter = the two bytes
    /// behind it; command code and index must be the ones of the handle)
    #[verifier::external_body]
    pub fn first_pdu(self, handle: PduResponseHandle) -> (r: Result<ReceivedPdu, Error>)
        ensures r is Ok ==> self.pdus@.len() >= 1 && (r->Ok_0).data() == self.pdus@[0].data && (r->Ok_0).wkc_v() == self.pdus@[0].wkc
    { unimplemented!() }
    #[verifier::external_body]
    pub fn into_pdu_iter(self) -> (r: ReceivedPduIter)
        ensures r.rest@ == self.pdus@
    { unimplemented!() }
}
impl ReceivedPduIter {
    /// contract of the real iterator (C01.7): yields the datagrams in order; a malformed datagram yields Err
    #[verifier::external_body]
    pub fn next(&mut self) -> (r: Option<Result<ReceivedPdu, Error>>)
        ensures
            old(self).rest@.len() == 0 ==> r is None && final(self).rest@ == old(self).rest@,
            old(self).rest@.len() > 0 ==> r is Some && final(self).rest@ == old(self).rest@.skip(1)
                && (r->Some_0 is Ok ==> (r->Some_0->Ok_0).data() == old(self).rest@[0].data && (r->Some_0->Ok_0).wkc_v() == old(self).rest@[0].wkc),
    { unimplemented!() }
}

// ---- ethercrab-wire traits as spec-carrying traits (assumed contract: `unpack_from_slice` is a function of the bytes,
//      `pack_to_slice_unchecked` writes exactly `packed()` into the prefix).  C19 checks the derive output / impls. ----
pub trait EtherCrabWireSized {
    const PACKED_LEN: usize;
}

pub trait EtherCrabWireRead: Sized {
    spec fn unpack_spec(b: Seq<u8>) -> Result<Self, WireError>;

    fn unpack_from_slice(buf: &[u8]) -> (r: Result<Self, WireError>)
        ensures r == Self::unpack_spec(buf@);
}

pub trait EtherCrabWireWrite {
    spec fn packed(&self) -> Seq<u8>;

    fn packed_len(&self) -> (r: usize)
        ensures r == self.packed().len();
}

impl From<WireError> for Error {
    fn from(value: WireError) -> (r: Self)
        ensures r == Error::Wire(value)
    { Error::Wire(value) }
}
impl vstd::std_specs::convert::FromSpecImpl<WireError> for Error {
    open spec fn obeys_from_spec() -> bool { true }
    open spec fn from_spec(v: WireError) -> Error { Error::Wire(v) }
}

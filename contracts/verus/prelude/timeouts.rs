// ---- R18: timeout scopes.  `TimeoutFuture` (src/timer_factory.rs) polls its timer before its inner future every time the
//      task is resumed and ends with Error::Timeout once the timer is ready.  Model: one TimeoutScope object per function;
//      inside an active scope the deadline test after an await (`__chk`) either fails with the scope's timeout error or lets
//      strictly less time remain.  ASSUMPTION A-TIME-1: an await inside a timeout scope that does not end the scope takes
//      positive time (it suspends at least once), so the remaining time is a termination measure for polling loops. ----
pub uninterp spec fn timeout_error(t: LabeledTimeout) -> Error;

pub struct TimeoutScope { pub active: bool, pub left: Ghost<nat>, pub t: Ghost<LabeledTimeout> }
impl TimeoutScope {
    #[verifier::external_body]
    pub fn none() -> (r: Self) ensures !r.active { unimplemented!() }
    #[verifier::external_body]
    pub fn enter(&mut self, t: LabeledTimeout)
        requires !old(self).active          // nested scopes are not modelled
        ensures final(self).active, final(self).t@ == t
    { unimplemented!() }
    #[verifier::external_body]
    pub fn exit(&mut self)
        ensures !final(self).active
    { unimplemented!() }
    /// `CALL.timeout(t).await`: the call's own result, or the timeout error
    #[verifier::external_body]
    pub fn scoped<O>(&mut self, t: LabeledTimeout, v: Result<O, Error>) -> (r: Result<O, Error>)
        ensures r == v || r == Err::<O, Error>(timeout_error(t)), *final(self) == *old(self)
    { unimplemented!() }
}
pub trait Chk: Sized {
    fn __chk(self, dl: &mut TimeoutScope) -> (r: Result<Self, Error>)
        ensures
            !old(dl).active ==> r == Ok::<Self, Error>(self) && *final(dl) == *old(dl),
            old(dl).active ==> final(dl).active && final(dl).t == old(dl).t
                && (r is Ok ==> r->Ok_0 == self && final(dl).left@ < old(dl).left@)
                && (r is Err ==> r->Err_0 == timeout_error(old(dl).t@));
}
impl<T> Chk for T {
    #[verifier::external_body]
    fn __chk(self, dl: &mut TimeoutScope) -> (r: Result<Self, Error>) { unimplemented!() }
}

// ---- R8: the EEPROM data provider (trait `EepromDataProvider`: hardware or file) as an opaque type with its contract ----
// ghost state: byte(addr) = EEPROM contents, chunk() = bytes served per access (4 or 8, fixed per device),
// wlog() = the sequence of write_word calls performed so far.
#[verifier::external_body]
pub struct Prov { _p: u8 }

/// "the word (b0, b1) was written to word address `word` of device `dev`" - observable also when the handle that did the
/// write (a clone inside a temporary EepromRange) is gone
pub uninterp spec fn word_written(dev: int, word: u16, b0: u8, b1: u8) -> bool;
/// high byte of the i-th word of a byte string (an odd trailing byte is padded with zero)
pub open spec fn word_hi(buf: Seq<u8>, i: int) -> u8 { if 2 * i + 1 < buf.len() { buf[2 * i + 1] } else { 0u8 } }

impl Clone for Prov {
    #[verifier::external_body]
    fn clone(&self) -> (r: Self)
        ensures r == *self
    { unimplemented!() }
}

impl Prov {
    pub uninterp spec fn mem(&self) -> Map<int, u8>;
    pub open spec fn byte(&self, addr: int) -> u8 { self.mem()[addr] }
    pub uninterp spec fn chunk(&self) -> int;
    pub uninterp spec fn wlog(&self) -> Seq<(u16, u8, u8)>;
    /// the device this handle talks to (clones of a provider share the one device)
    pub uninterp spec fn dev(&self) -> int;

    pub open spec fn wf(&self) -> bool { self.chunk() == 4 || self.chunk() == 8 }

    pub open spec fn mem_eq(&self, o: &Prov) -> bool {
        &&& self.chunk() == o.chunk()
        &&& self.dev() == o.dev()
        &&& self.wlog() == o.wlog()
        &&& self.mem() == o.mem()
    }

    #[verifier::external_body]
    pub async fn read_chunk(&mut self, start_word: u16) -> (r: Result<&[u8], Error>)
        requires old(self).wf()
        ensures
            final(self).mem_eq(old(self)),
            r is Ok ==> r->Ok_0@.len() == old(self).chunk()
                && forall|i: int| 0 <= i < old(self).chunk() ==> (r->Ok_0@)[i] == old(self).byte(2 * start_word + i),
    { unimplemented!() }

    #[verifier::external_body]
    pub async fn write_word(&mut self, start_word: u16, data: [u8; 2]) -> (r: Result<(), Error>)
        requires old(self).wf()
        ensures
            final(self).chunk() == old(self).chunk(),
            final(self).dev() == old(self).dev(),
            r is Ok ==> word_written(old(self).dev(), start_word, data[0], data[1]),
            r is Ok ==> final(self).wlog() == old(self).wlog().push((start_word, data[0], data[1]))
                && final(self).mem() == old(self).mem().insert(2 * start_word, data[0]).insert(2 * start_word + 1, data[1]),
            r is Err ==> final(self).wlog() == old(self).wlog() && final(self).mem() == old(self).mem(),
    { unimplemented!() }

    #[verifier::external_body]
    pub async fn clear_errors(&self) -> (r: Result<(), Error>)
    { unimplemented!() }
}

// ---- EepromRange<P>: struct and the real functions new / skip_ahead_bytes / read_byte / read, extracted from src/eeprom/mod.rs ----
/*@type file=src/eeprom/mod.rs name=EepromRange subst="<P>=>@@P=>Prov" @*/

impl EepromRange {
    /// abstract position / window
    pub open spec fn wf(&self) -> bool { self.reader.wf() }

/*@fn file=src/eeprom/mod.rs impl="impl<P> EepromRange<P>" name=new subst="P=>Prov" props=C12,C13
    requires reader.wf()
    ensures
        r.reader == reader,
        r.byte_pos as int == (if 2 * start_word > 0xffff { 0xffff } else { 2 * start_word }),
        r.end as int == (if r.byte_pos + 2 * len_words > 0xffff { 0xffff } else { r.byte_pos + 2 * len_words }),
@*/

/*@fn file=src/eeprom/mod.rs impl="impl<P> EepromRange<P>" name=skip_ahead_bytes props=C12,C13
    ensures
        final(self).reader == old(self).reader,
        final(self).end == old(self).end,
        r is Ok ==> final(self).byte_pos as int == old(self).byte_pos + skip && final(self).byte_pos < old(self).end,
        r is Err ==> final(self).byte_pos == old(self).byte_pos && old(self).byte_pos + skip >= old(self).end,
@*/

/*@fn file=src/eeprom/mod.rs impl="impl<P> EepromRange<P>" name=read_byte props=C12,C13
    requires old(self).wf()
    ensures
        final(self).wf(),
        final(self).reader.mem_eq(&old(self).reader),
        final(self).end == old(self).end,
        r is Ok ==> final(self).byte_pos as int == old(self).byte_pos + 1
                 && old(self).byte_pos < old(self).end
                 && r->Ok_0 == old(self).reader.byte(old(self).byte_pos as int),
        r is Err ==> final(self).byte_pos == old(self).byte_pos,
@*/

/*@fn file=src/eeprom/mod.rs impl="impl<P> embedded_io_async::Read for EepromRange<P>" name=read subst="Self::Error=>Error" props=C12,C13 attr="#[verifier::loop_isolation(false)] #[verifier::allow_complex_invariants]"
    requires old(self).wf()
    ensures
        final(self).wf(),
        final(self).reader.mem_eq(&old(self).reader),
        final(self).end == old(self).end,
        final(buf)@.len() == old(buf)@.len(),
        r is Ok ==> ({
            let n = r->Ok_0 as int;
            let avail = if old(self).end > old(self).byte_pos { old(self).end - old(self).byte_pos } else { 0 };
            &&& n == (if old(buf)@.len() < avail { old(buf)@.len() as int } else { avail })
            &&& final(self).byte_pos as int == old(self).byte_pos + n
            &&& forall|i: int| 0 <= i < n ==> final(buf)@[i] == old(self).reader.byte(old(self).byte_pos + i)
            &&& forall|i: int| n <= i < old(buf)@.len() ==> final(buf)@[i] == old(buf)@[i]
        }),
@before "let mut buf = buf"
    let ghost b0 = buf@;
    let ghost fin = final(buf)@;
    let ghost n0: int = if requested_read_len < max_read { requested_read_len as int } else { max_read as int };
    let ghost pos0: int = self.byte_pos as int;
    let ghost rd0 = self.reader;
@after ".ok_or(Error::Internal)?;"
    let ghost head_fin = final(buf)@;
    proof {
        assert(fin.len() == b0.len());
        assert(fin.subrange(n0, b0.len() as int) == b0.subrange(n0, b0.len() as int));
        assert(fin.subrange(0, n0) == head_fin);
    }
@loop 0
    invariant_except_break
        bytes_read + buf@.len() == n0,
        forall|i: int| 0 <= i < buf@.len() ==> head_fin[bytes_read + i] == #[trigger] final(buf)@[i],
    invariant
        self.wf(),
        self.reader.mem_eq(&rd0),
        self.end == old(self).end,
        pos0 == old(self).byte_pos,
        n0 <= max_read,
        max_read == old(self).end - old(self).byte_pos,
        max_read > 0,
        self.byte_pos as int == pos0 + bytes_read,
        bytes_read <= n0,
        head_fin.len() == n0,
        final(buf)@.len() == buf@.len(),
        forall|i: int| 0 <= i < bytes_read ==> head_fin[i] == rd0.byte(pos0 + i),
    ensures
        bytes_read == n0,
    decreases buf@.len()
@before "let res = self.reader.read_chunk"
    let ghost fb = final(buf)@;
    let ghost done0 = bytes_read;
@before "break;"
    proof {
        assert(fb == buf@);
        assert forall|i: int| 0 <= i < bytes_read implies head_fin[i] == rd0.byte(pos0 + i) by {
            if i >= done0 { assert(head_fin[done0 + (i - done0)] == fb[i - done0]); }
        }
    }
@after "buf = buf_rest;"
    proof {
        assert(fb.subrange(0, chunk@.len() as int) == chunk@);
        assert forall|i: int| 0 <= i < buf@.len() implies head_fin[bytes_read + i] == #[trigger] final(buf)@[i] by {
            assert(final(buf)@[i] == fb.subrange(chunk@.len() as int, fb.len() as int)[i]);
            assert(head_fin[done0 + (i + chunk@.len())] == fb[i + chunk@.len()]);
        }
        assert forall|i: int| 0 <= i < bytes_read implies head_fin[i] == rd0.byte(pos0 + i) by {
            if i >= done0 {
                assert(head_fin[done0 + (i - done0)] == fb[i - done0]);
                assert(fb[i - done0] == fb.subrange(0, chunk@.len() as int)[i - done0]);
            }
        }
    }
@*/
//@EEPROM_RANGE_EXTRA
}

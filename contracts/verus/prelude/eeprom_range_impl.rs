// ---- EepromRange<P>: struct and the real functions new / skip_ahead_bytes / read_byte / read, extracted from src/eeprom/mod.rs ----
/*@type file=src/eeprom/mod.rs name=EepromRange subst="<P>=>@@P=>Prov" @*/

impl EepromRange {
    /// abstract position / window
    pub open spec fn wf(&self) -> bool { self.reader.wf() }

/*@fn file=src/eeprom/mod.rs impl="impl<P> EepromRange<P>" name=new subst="P=>Prov" props=C12,C13
    requires reader.wf()
    ensures
        r.reader == reader,
        r.byte_pos as int == (if 2 * start_word > 0xffff { 0xffff } else { 2 * start_word }),
        r.end as int == (if r.byte_pos + 2 * len_words > 0xffff { 0xffff } else { r.byte_pos + 2 * len_words }),
@*/

/*@fn file=src/eeprom/mod.rs impl="impl<P> EepromRange<P>" name=skip_ahead_bytes props=C12,C13
    ensures
        final(self).reader == old(self).reader,
        final(self).end == old(self).end,
        r is Ok ==> final(self).byte_pos as int == old(self).byte_pos + skip && final(self).byte_pos < old(self).end,
        r is Err ==> final(self).byte_pos == old(self).byte_pos && old(self).byte_pos + skip >= old(self).end,
@*/

/*@fn file=src/eeprom/mod.rs impl="impl<P> EepromRange<P>" name=read_byte props=C12,C13
    requires old(self).wf()
    ensures
        final(self).wf(),
        final(self).reader.mem_eq(&old(self).reader),
        final(self).end == old(self).end,
        r is Ok ==> final(self).byte_pos as int == old(self).byte_pos + 1
                 && old(self).byte_pos < old(self).end
                 && r->Ok_0 == old(self).reader.byte(old(self).byte_pos as int),
        r is Err ==> final(self).byte_pos == old(self).byte_pos,
@before "return Err(Error::Eeprom(EepromError::SectionOverrun));"
    proof { assert(self.byte_pos >= self.end); }       // refused ONLY at the end of the window
@*/

/*@fn file=src/eeprom/mod.rs impl="impl<P> embedded_io_async::Read for EepromRange<P>" name=read subst="Self::Error=>Error" props=C12,C13 attr="#[verifier::loop_isolation(false)] #[verifier::allow_complex_invariants]"
    requires old(self).wf()
    ensures
        final(self).wf(),
        final(self).reader.mem_eq(&old(self).reader),
        final(self).end == old(self).end,
        final(buf)@.len() == old(buf)@.len(),
        r is Ok ==> ({
            let n = r->Ok_0 as int;
            let avail = if old(self).end > old(self).byte_pos { old(self).end - old(self).byte_pos } else { 0 };
            &&& n == (if old(buf)@.len() < avail { old(buf)@.len() as int } else { avail })
            &&& final(self).byte_pos as int == old(self).byte_pos + n
            &&& forall|i: int| 0 <= i < n ==> final(buf)@[i] == old(self).reader.byte(old(self).byte_pos + i)
            &&& forall|i: int| n <= i < old(buf)@.len() ==> final(buf)@[i] == old(buf)@[i]
        }),
@before "let mut buf = buf"
    let ghost b0 = buf@;
    let ghost fin = final(buf)@;
    let ghost n0: int = if requested_read_len < max_read { requested_read_len as int } else { max_read as int };
    let ghost pos0: int = self.byte_pos as int;
    let ghost rd0 = self.reader;
@after ".ok_or(Error::Internal)?;"
    let ghost head_fin = final(buf)@;
    proof {
        assert(fin.len() == b0.len());
        assert(fin.subrange(n0, b0.len() as int) == b0.subrange(n0, b0.len() as int));
        assert(fin.subrange(0, n0) == head_fin);
    }
@loop 0
    invariant_except_break
        bytes_read + buf@.len() == n0,
        forall|i: int| 0 <= i < buf@.len() ==> head_fin[bytes_read + i] == #[trigger] final(buf)@[i],
    invariant
        self.wf(),
        self.reader.mem_eq(&rd0),
        self.end == old(self).end,
        pos0 == old(self).byte_pos,
        n0 <= max_read,
        max_read == old(self).end - old(self).byte_pos,
        max_read > 0,
        self.byte_pos as int == pos0 + bytes_read,
        bytes_read <= n0,
        head_fin.len() == n0,
        final(buf)@.len() == buf@.len(),
        forall|i: int| 0 <= i < bytes_read ==> head_fin[i] == rd0.byte(pos0 + i),
    ensures
        bytes_read == n0,
    decreases buf@.len()
@before "let res = self.reader.read_chunk"
    let ghost fb = final(buf)@;
    let ghost done0 = bytes_read;
@before "break;"
    proof {
        assert(fb == buf@);
        assert forall|i: int| 0 <= i < bytes_read implies head_fin[i] == rd0.byte(pos0 + i) by {
            if i >= done0 { assert(head_fin[done0 + (i - done0)] == fb[i - done0]); }
        }
    }
@after "buf = buf_rest;"
    proof {
        assert(fb.subrange(0, chunk@.len() as int) == chunk@);
        assert forall|i: int| 0 <= i < buf@.len() implies head_fin[bytes_read + i] == #[trigger] final(buf)@[i] by {
            assert(final(buf)@[i] == fb.subrange(chunk@.len() as int, fb.len() as int)[i]);
            assert(head_fin[done0 + (i + chunk@.len())] == fb[i + chunk@.len()]);
        }
        assert forall|i: int| 0 <= i < bytes_read implies head_fin[i] == rd0.byte(pos0 + i) by {
            if i >= done0 {
                assert(head_fin[done0 + (i - done0)] == fb[i - done0]);
                assert(fb[i - done0] == fb.subrange(0, chunk@.len() as int)[i - done0]);
            }
        }
    }
@*/

/*@fn file=src/eeprom/mod.rs impl="impl<P> embedded_io_async::Write for EepromRange<P>" name=write subst="Self::Error=>Error" props=C14,C13 attr="#[verifier::loop_isolation(false)] #[verifier::allow_complex_invariants]"
    requires old(self).wf()
    ensures
        final(self).wf(),
        final(self).end == old(self).end,
        final(self).reader.chunk() == old(self).reader.chunk(),
        final(self).reader.dev() == old(self).reader.dev(),
        r is Ok ==> ({
            let n = r->Ok_0 as int;
            let k = (n + 1) / 2;                       // words written
            let w0 = old(self).byte_pos as int / 2;
            &&& 0 <= n <= buf@.len()
            &&& (n % 2 == 1 ==> n == buf@.len())     // whole words, except for an odd trailing byte
            &&& final(self).byte_pos as int == (if old(self).byte_pos + 2 * k > 0xffff { 0xffff } else { old(self).byte_pos + 2 * k })
            &&& forall|i: int| 0 <= i < k ==> #[trigger] word_written(old(self).reader.dev(), (w0 + i) as u16, buf@[2 * i], word_hi(buf@, i))
            &&& final(self).reader.wlog().len() == old(self).reader.wlog().len() + k
            &&& forall|i: int| 0 <= i < k ==> #[trigger] final(self).reader.wlog()[old(self).reader.wlog().len() + i]
                    == ((w0 + i) as u16, buf@[2 * i], if 2 * i + 1 < buf@.len() { buf@[2 * i + 1] } else { 0u8 })
            &&& forall|i: int| 0 <= i < old(self).reader.wlog().len() ==> final(self).reader.wlog()[i] == old(self).reader.wlog()[i]
            // never past the permitted range: every word written starts before the window end
            &&& (k > 0 ==> old(self).byte_pos + 2 * (k - 1) < old(self).end)
            // stops only when the data or the window is exhausted
            &&& (n == buf@.len() || old(self).byte_pos + 2 * k >= old(self).end)
        }),
@entry
    let ghost buf0 = buf@;
    let ghost log0 = self.reader.wlog();
    let ghost pos0: int = self.byte_pos as int;
@loop 0
    invariant
        self.wf(), self.end == old(self).end, self.reader.chunk() == old(self).reader.chunk(),
        self.reader.dev() == old(self).reader.dev(),
        forall|i: int| 0 <= i < (written as int + 1) / 2 ==> #[trigger] word_written(old(self).reader.dev(), (pos0 / 2 + i) as u16, buf0[2 * i], word_hi(buf0, i)),
        0 <= written as int <= buf0.len(),
        buf@ == buf0.subrange(written as int, buf0.len() as int),
        len == buf0.len(),
        (written as int % 2 == 1) ==> written as int == buf0.len(),
        self.byte_pos as int == (if pos0 + 2 * ((written as int + 1) / 2) > 0xffff { 0xffff } else { pos0 + 2 * ((written as int + 1) / 2) }),
        self.reader.wlog().len() == log0.len() + (written as int + 1) / 2,
        forall|i: int| 0 <= i < (written as int + 1) / 2 ==> #[trigger] self.reader.wlog()[log0.len() + i]
            == ((pos0 / 2 + i) as u16, buf0[2 * i], if 2 * i + 1 < buf0.len() { buf0[2 * i + 1] } else { 0u8 }),
        forall|i: int| 0 <= i < log0.len() ==> self.reader.wlog()[i] == log0[i],
        ((written as int + 1) / 2 > 0 ==> pos0 + 2 * ((written as int + 1) / 2 - 1) < self.end),
    ensures
        written as int == buf0.len() || pos0 + 2 * ((written as int + 1) / 2) >= self.end,
    decreases buf@.len()
@closure 0 "|__p: (&[u8; 2], &[u8])| -> (cr: ([u8; 2], &[u8]))" bind="(word, rest)"
    ensures cr.0 == *(__p.0), cr.1 == __p.1
@closure 1 "|| -> (cr: Option<([u8; 2], &[u8])>)"
    ensures
        buf@.len() == 0 ==> cr is None,
        buf@.len() > 0 ==> cr is Some && (cr->Some_0).0@ == seq![buf@[0], 0u8] && (cr->Some_0).1@ == buf@.subrange(1, buf@.len() as int),
@closure 2 "|__p: (&u8, &[u8])| -> (cr: ([u8; 2], &[u8]))" bind="(first, rest)"
    ensures cr.0@ == seq![*(__p.0), 0u8], cr.1 == __p.1
@*/
}

// ---- embedded-io(-async) default trait methods used on EepromRange: extracted from the dependency's source ----
/*@type file=~/.cargo/registry/src/*/embedded-io-0.6.1/src/lib.rs name=ReadExactError derive="Clone, Copy, PartialEq, Eq, Debug" @*/
impl From<ReadExactError<Error>> for Error {
/*@fn file=src/eeprom/mod.rs impl="impl From<ReadExactError<Error>> for Error" name=from ret=none canary=0
@*/
}
impl vstd::std_specs::convert::FromSpecImpl<ReadExactError<Error>> for Error {
    open spec fn obeys_from_spec() -> bool { false }
    open spec fn from_spec(v: ReadExactError<Error>) -> Error { Error::Internal }
}

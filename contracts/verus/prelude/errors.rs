// ---- error types, extracted from src/error.rs (payload enums from other files are opaque stand-ins) ----
/*@type file=src/error.rs name=Error derive="Clone, Copy, PartialEq, Eq, Debug" subst="ethercrab_wire::WireError=>WireError" @*/
/*@type file=src/error.rs name=Item derive="Clone, Copy, PartialEq, Eq, Debug" @*/
/*@type file=src/error.rs name=PduError derive="Clone, Copy, PartialEq, Eq, Debug" @*/
/*@type file=src/error.rs name=DistributedClockError derive="Clone, Copy, PartialEq, Eq, Debug" @*/
/*@type file=src/error.rs name=MailboxError derive="Clone, Copy, PartialEq, Eq, Debug" @*/
/*@type file=src/error.rs name=TimeoutError derive="Clone, Copy, PartialEq, Eq, Debug" @*/
/*@type file=src/error.rs name=EepromError derive="Clone, Copy, PartialEq, Eq, Debug" @*/
/*@type file=src/error.rs name=PduValidationError derive="Clone, Copy, PartialEq, Eq, Debug" @*/
/*@type file=ethercrab-wire/src/error.rs name=WireError derive="Clone, Copy, PartialEq, Eq, Debug" @*/

impl From<PduError> for Error {
/*@fn file=src/error.rs impl="impl From<PduError> for Error" name=from ret=none canary=0
@*/
}
impl vstd::std_specs::convert::FromSpecImpl<PduError> for Error {
    open spec fn obeys_from_spec() -> bool { true }
    open spec fn from_spec(v: PduError) -> Error { Error::Pdu(v) }
}
impl From<EepromError> for Error {
/*@fn file=src/error.rs impl="impl From<EepromError> for Error" name=from ret=none canary=0
@*/
}
impl vstd::std_specs::convert::FromSpecImpl<EepromError> for Error {
    open spec fn obeys_from_spec() -> bool { true }
    open spec fn from_spec(v: EepromError) -> Error { Error::Eeprom(v) }
}

// ---- error types, extracted from src/error.rs (payload enums from other files are opaque stand-ins) ----
/*@type file=src/error.rs name=Error derive="Clone, Copy, PartialEq, Eq, Debug" subst="ethercrab_wire::WireError=>WireError" @*/
/*@type file=src/error.rs name=Item derive="Clone, Copy, PartialEq, Eq, Debug" @*/
/*@type file=src/error.rs name=PduError derive="Clone, Copy, PartialEq, Eq, Debug" @*/
/*@type file=src/error.rs name=DistributedClockError derive="Clone, Copy, PartialEq, Eq, Debug" @*/
/*@type file=src/error.rs name=MailboxError derive="Clone, Copy, PartialEq, Eq, Debug" @*/
/*@type file=src/error.rs name=TimeoutError derive="Clone, Copy, PartialEq, Eq, Debug" @*/
/*@type file=src/error.rs name=EepromError derive="Clone, Copy, PartialEq, Eq, Debug" @*/
/*@type file=src/error.rs name=PduValidationError derive="Clone, Copy, PartialEq, Eq, Debug" @*/
/*@type file=ethercrab-wire/src/error.rs name=WireError derive="Clone, Copy, PartialEq, Eq, Debug" @*/

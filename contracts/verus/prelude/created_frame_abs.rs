// ---- CreatedFrame seen from its callers: the contract of push_pdu / push_pdu_slice_rest / can_push_pdu_payload / is_empty
//      (the C04 contract; assumed in this unit, decided on the real code by the C04 check). ----
pub struct PduSpec { pub cmd: Command, pub len: nat, pub data: Seq<u8> }

pub struct PduResponseHandle {
    pub index_in_frame: u8,
    pub pdu_idx: u8,
    pub command_code: u8,
    pub alloc_size: usize,
}

/// `used` = bytes of the PDU area consumed, `cap` = size of the PDU area, `pdus` = datagrams pushed so far (ghost)
pub struct CreatedFrame { pub used: usize, pub cap: usize, pub pdus: Ghost<Seq<PduSpec>> }

pub open spec fn max_nat(a: nat, b: nat) -> nat { if a >= b { a } else { b } }
pub open spec fn min_nat(a: nat, b: nat) -> nat { if a <= b { a } else { b } }

impl EtherCrabWireWrite for () {
    open spec fn packed(&self) -> Seq<u8> { Seq::<u8>::empty() }
    fn packed_len(&self) -> (r: usize) { 0 }
}

impl CreatedFrame {
    pub const PDU_OVERHEAD_BYTES: usize = 12;

    pub open spec fn wf(&self) -> bool { self.used <= self.cap && self.cap <= 0x7ff }

    #[verifier::external_body]
    pub fn is_empty(&self) -> (r: bool)
        ensures r == (self.pdus@.len() == 0)
    { unimplemented!() }

    #[verifier::external_body]
    pub fn can_push_pdu_payload(&self, packed_len: usize) -> (r: bool)
        requires self.wf(), packed_len <= 0xffff
        ensures r == (self.used + packed_len + 12 <= self.cap)
    { unimplemented!() }

    #[verifier::external_body]
    pub fn storage_slot_index(&self) -> (r: u8)
    { unimplemented!() }

    #[verifier::external_body]
    pub fn push_pdu<D: EtherCrabWireWrite>(&mut self, command: Command, data: D, len_override: Option<u16>) -> (r: Result<PduResponseHandle, PduError>)
        requires old(self).wf(), data.packed().len() <= 0xffff
        ensures
            final(self).cap == old(self).cap,
            ({
                let l = if len_override is Some { max_nat(len_override->Some_0 as nat, data.packed().len()) } else { data.packed().len() };
                &&& (r is Ok) == (old(self).used + l + 12 <= old(self).cap)
                &&& r is Ok ==> final(self).used == old(self).used + l + 12
                        && final(self).pdus@ == old(self).pdus@.push(PduSpec { cmd: command, len: l, data: data.packed() })
                        && (r->Ok_0).alloc_size == l + 12
                &&& r is Err ==> r->Err_0 == PduError::TooLong && *final(self) == *old(self)
            }),
    { unimplemented!() }

    #[verifier::external_body]
    pub fn push_pdu_slice_rest(&mut self, command: Command, bytes: &[u8]) -> (r: Result<Option<(usize, PduResponseHandle)>, PduError>)
        requires old(self).wf()
        ensures
            final(self).cap == old(self).cap,
            r is Ok,
            ({
                let free = if old(self).cap - old(self).used > 12 { (old(self).cap - old(self).used - 12) as nat } else { 0 };
                let n = min_nat(bytes@.len(), free);
                &&& (r->Ok_0 is None) == (n == 0)
                &&& n == 0 ==> *final(self) == *old(self)
                &&& n > 0 ==> (r->Ok_0->Some_0).0 == n
                        && final(self).used == old(self).used + n + 12
                        && final(self).pdus@ == old(self).pdus@.push(PduSpec { cmd: command, len: n, data: bytes@.subrange(0, n as int) })
            }),
    { unimplemented!() }
}

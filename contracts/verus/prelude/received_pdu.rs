// ---- ReceivedPdu / MainDevice as opaque types.  `maybe_wkc` carries the contract proved on the real code by the Kani
//      group `wkc` (same statement). `net_response(cmd, len, p)` = "p is a response the network gave to this command". ----
/// stand-in for the raw-pointer view `ReceivedPdu<'sto>`: the counter field plus the viewed bytes as ghost data
pub struct ReceivedPdu { pub working_counter: u16, pub d: Ghost<Seq<u8>> }

impl core::ops::Deref for ReceivedPdu {
    type Target = [u8];

    #[verifier::external_body]
    fn deref(&self) -> (r: &[u8])
        ensures r@ == self.data()
    { unimplemented!() }
}

impl ReceivedPdu {
    pub open spec fn wkc_v(&self) -> u16 { self.working_counter }
    pub open spec fn data(&self) -> Seq<u8> { self.d@ }

    #[verifier::external_body]
    pub fn maybe_wkc(self, expected: Option<u16>) -> (r: Result<Self, Error>)
        ensures
            (expected is None || expected->Some_0 == self.wkc_v()) ==> r == Ok::<ReceivedPdu, Error>(self),
            (expected is Some && expected->Some_0 != self.wkc_v()) ==>
                r == Err::<ReceivedPdu, Error>(Error::WorkingCounter { expected: expected->Some_0, received: self.wkc_v() }),
    { unimplemented!() }

    /// contract proved on the real pointer code by the Kani harness wkc::rx_trim_front
    #[verifier::external_body]
    pub fn trim_front(&mut self, ct: usize)
        ensures
            final(self).working_counter == old(self).working_counter,
            final(self).data() == old(self).data().subrange(
                if ct < old(self).data().len() { ct as int } else { old(self).data().len() as int }, old(self).data().len() as int),
    { unimplemented!() }

    #[verifier::external_body]
    pub fn as_slice(&self) -> (r: &[u8])
        ensures r@ == self.data()
    { unimplemented!() }

}

pub open spec fn wkc_accepts(expected: Option<u16>, got: u16) -> bool {
    expected is None || expected->Some_0 == got
}

#[derive(Clone, Copy, PartialEq, Eq, Debug)] pub struct Command(pub u8);

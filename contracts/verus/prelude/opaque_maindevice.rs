#[verifier::external_body]
pub struct MainDevice { _p: u8 }

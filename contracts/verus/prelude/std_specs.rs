// ---- assumed contracts for small std functions Verus has no spec for (trusted; listed in evidence) ----
pub assume_specification<T: Copy>[ Option::<&T>::copied ](o: Option<&T>) -> (r: Option<T>)
    ensures
        o is None ==> r is None,
        o is Some ==> r == Some(*(o->Some_0)),
;

/// stand-in for panic!/unreachable!/todo!: reaching it is a failed obligation
#[verifier::external_body]
pub fn vpanic() -> !
    requires false
{
    panic!()
}

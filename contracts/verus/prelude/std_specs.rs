// ---- assumed contracts for small std functions Verus has no spec for (trusted; listed in evidence) ----
pub assume_specification<T: Copy>[ Option::<&T>::copied ](o: Option<&T>) -> (r: Option<T>)
    ensures
        o is None ==> r is None,
        o is Some ==> r == Some(*(o->Some_0)),
;

/// stand-in for panic!/unreachable!/todo!: reaching it is a failed obligation
#[verifier::external_body]
pub fn vpanic() -> !
    requires false
{
    panic!()
}

pub assume_specification<T, const N: usize>[ <[T]>::split_first_chunk ](s: &[T]) -> (r: Option<(&[T; N], &[T])>)
    ensures
        s@.len() < N ==> r is None,
        s@.len() >= N ==> r is Some
            && (r->Some_0).0@ == s@.subrange(0, N as int)
            && (r->Some_0).1@ == s@.subrange(N as int, s@.len() as int),
;

pub assume_specification<T, E, U, F: FnOnce(T) -> Result<U, E>>[ Result::<T, E>::and_then ](s: Result<T, E>, f: F) -> (r: Result<U, E>)
    requires s is Ok ==> f.requires((s->Ok_0,)),
    ensures
        s is Err ==> r is Err && r->Err_0 == s->Err_0,
        s is Ok ==> f.ensures((s->Ok_0,), r),
;

pub assume_specification<T, F: FnOnce() -> Option<T>>[ Option::<T>::or_else ](o: Option<T>, f: F) -> (r: Option<T>)
    requires o is None ==> f.requires(()),
    ensures
        o is Some ==> r == o,
        o is None ==> f.ensures((), r),
;

pub assume_specification[ u16::div_ceil ](a: u16, b: u16) -> (r: u16)
    requires b != 0
    ensures r as int == (a as int + b as int - 1) / (b as int)
;

pub assume_specification[ u64::div_ceil ](a: u64, b: u64) -> (r: u64)
    requires b != 0
    ensures r as int == (a as int + b as int - 1) / (b as int)
;
pub assume_specification[ u32::div_ceil ](a: u32, b: u32) -> (r: u32)
    requires b != 0
    ensures r as int == (a as int + b as int - 1) / (b as int)
;
pub assume_specification[ usize::div_ceil ](a: usize, b: usize) -> (r: usize)
    requires b != 0
    ensures r as int == (a as int + b as int - 1) / (b as int)
;

pub assume_specification<T>[ <[T] as core::convert::AsRef<[T]>>::as_ref ](s: &[T]) -> (r: &[T])
    ensures r@ == s@
;

pub assume_specification<T, U, F: FnOnce(T) -> U>[ Option::<T>::map_or ](o: Option<T>, default: U, f: F) -> (r: U)
    requires o is Some ==> f.requires((o->Some_0,)),
    ensures
        o is None ==> r == default,
        o is Some ==> f.ensures((o->Some_0,), r),
;

/// Option::filter: Some(x) is kept only if the predicate answered true for it (what the predicate answers is whatever the
/// closure's own, verified, postcondition says - an unannotated closure says nothing)
pub assume_specification<T, P: FnOnce(&T) -> bool>[ Option::<T>::filter ](o: Option<T>, predicate: P) -> (r: Option<T>)
    requires o is Some ==> predicate.requires((&o->Some_0,)),
    ensures
        o is None ==> r is None,
        r is Some ==> o is Some && r->Some_0 == o->Some_0 && predicate.ensures((&o->Some_0,), true),
;

pub assume_specification<T, E>[ Result::<T, E>::unwrap_or ](r: Result<T, E>, default: T) -> (v: T)
    ensures v == (match r { Ok(x) => x, Err(_) => default });

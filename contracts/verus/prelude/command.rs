// ---- command types, extracted from src/command/{mod,reads,writes}.rs ----
/*@type file=src/command/reads.rs name=Reads derive="Clone, Copy, PartialEq, Eq, Debug" @*/
/*@type file=src/command/writes.rs name=Writes derive="Clone, Copy, PartialEq, Eq, Debug" @*/
/*@type file=src/command/mod.rs name=Command derive="Clone, Copy, PartialEq, Eq, Debug" @*/
/*@type file=src/command/reads.rs name=WrappedRead derive="Clone, Copy, Debug" @*/
/*@type file=src/command/writes.rs name=WrappedWrite derive="Clone, Copy, Debug" @*/
/*@type file=src/register.rs name=RegisterAddress derive="Clone, Copy, Debug" @*/

impl WrappedRead {
/*@fn file=src/command/reads.rs impl="impl WrappedRead" name=new canary=0
    ensures r.command == command, r.wkc == Some(1u16)
@*/
}
impl WrappedWrite {
/*@fn file=src/command/writes.rs impl="impl WrappedWrite" name=new canary=0
    ensures r.command == command, r.wkc == Some(1u16), r.len_override is None
@*/
}
impl Command {
/*@fn file=src/command/mod.rs impl="impl Command" name=fprd canary=0
    ensures r.command == (Reads::Fprd { address, register }), r.wkc == Some(1u16)
@*/
/*@fn file=src/command/mod.rs impl="impl Command" name=fpwr canary=0
    ensures r.command == (Writes::Fpwr { address, register }), r.wkc == Some(1u16), r.len_override is None
@*/
/*@fn file=src/command/mod.rs impl="impl Command" name=lrw canary=0
    ensures r.command == (Writes::Lrw { address })
@*/
/*@fn file=src/command/mod.rs impl="impl Command" name=frmw canary=0
    ensures r.command == (Reads::Frmw { address, register })
@*/
}
impl From<WrappedRead> for Command {
/*@fn file=src/command/mod.rs impl="impl From<WrappedRead> for Command" name=from ret=none canary=0
@*/
}
impl vstd::std_specs::convert::FromSpecImpl<WrappedRead> for Command {
    open spec fn obeys_from_spec() -> bool { true }
    open spec fn from_spec(v: WrappedRead) -> Command { Command::Read(v.command) }
}
impl From<WrappedWrite> for Command {
/*@fn file=src/command/mod.rs impl="impl From<WrappedWrite> for Command" name=from ret=none canary=0
@*/
}
impl vstd::std_specs::convert::FromSpecImpl<WrappedWrite> for Command {
    open spec fn obeys_from_spec() -> bool { true }
    open spec fn from_spec(v: WrappedWrite) -> Command { Command::Write(v.command) }
}
impl From<RegisterAddress> for u16 {
/*@fn file=src/register.rs impl="impl From<RegisterAddress> for u16" name=from ret=none canary=0
@*/
}
impl vstd::std_specs::convert::FromSpecImpl<RegisterAddress> for u16 {
    open spec fn obeys_from_spec() -> bool { true }
    open spec fn from_spec(v: RegisterAddress) -> u16 { v as u16 }
}

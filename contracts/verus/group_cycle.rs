//@unit group_cycle  props=C07  min_verified=6
// C07 leaf functions of the process-data cycle, extracted from src/subdevice_group/mod.rs:
//   push_state_checks, process_received_pdi_chunk.   CreatedFrame is seen through its (C04) contract.
use vstd::prelude::*;
verus! {

//@include prelude/errors.rs
//@include prelude/opaque_payloads.rs
//@include prelude/std_specs.rs
//@include prelude/wire_traits.rs
//@include prelude/received_pdu.rs
//@include prelude/command.rs
//@include prelude/created_frame_abs.rs
//@include prelude/network.rs

/// stand-in for crate::SubDevice: only the configured address is read here
pub struct SubDevice { pub configured_address: u16 }
impl SubDevice {
    pub fn configured_address(&self) -> (r: u16) ensures r == self.configured_address { self.configured_address }
}

/// R8: `I: Iterator<Item = &SubDevice>` instantiated with the slice iterator the callers pass (`subdevices.iter()`)
pub struct SdIter<'a> { pub rest: &'a [SubDevice] }
impl<'a> SdIter<'a> {
    #[verifier::external_body]
    pub fn next(&mut self) -> (r: Option<&'a SubDevice>)
        ensures
            old(self).rest@.len() == 0 ==> r is None && final(self).rest@ == old(self).rest@,
            old(self).rest@.len() > 0 ==> r is Some && *(r->Some_0) == old(self).rest@[0] && final(self).rest@ == old(self).rest@.skip(1),
    { unimplemented!() }
}

/*@type file=src/al_control.rs name=AlControl derive="Clone, Copy, PartialEq, Eq, Debug" @*/
impl AlControl {
    pub const PACKED_LEN: usize = 2;
    pub uninterp spec fn unpack_spec(b: Seq<u8>) -> Result<AlControl, WireError>;
    /// derive output (C19: wire_al_control)
    #[verifier::external_body]
    pub fn unpack_from_slice(buf: &[u8]) -> (r: Result<AlControl, WireError>)
        ensures r == AlControl::unpack_spec(buf@)
    { unimplemented!() }
}
pub assume_specification[ <SubDeviceState as PartialEq>::eq ](a: &SubDeviceState, b: &SubDeviceState) -> (r: bool)
    ensures r == (*a == *b);

/// "the AL status read of the device at `address` was answered with bytes that decode to state `st`"
pub open spec fn reported(address: u16, st: SubDeviceState, got: RxPdu) -> bool {
    AlControl::unpack_spec(got.data) is Ok && (AlControl::unpack_spec(got.data)->Ok_0).state == st
}

pub open spec fn state_check(sd: SubDevice) -> PduSpec {
    PduSpec { cmd: Command::Read(Reads::Fprd { address: sd.configured_address, register: 0x0130 }), len: 2, data: Seq::<u8>::empty() }
}

/// the first k state-check datagrams for the devices in `devs`
pub open spec fn state_checks(devs: Seq<SubDevice>, k: nat) -> Seq<PduSpec>
    decreases k
{
    if k == 0 { Seq::<PduSpec>::empty() } else { state_checks(devs, (k - 1) as nat).push(state_check(devs[k - 1])) }
}

/// SubDevice `sd` answered its AL-status read with the state `st`
pub open spec fn ok_dev(sd: SubDevice, st: SubDeviceState) -> bool {
    exists|g: RxPdu| answered(state_check(sd).cmd, g) && reported(sd.configured_address, st, g)
}

pub proof fn lemma_ok_dev(sd: SubDevice, st: SubDeviceState, g: RxPdu)
    requires answered(state_check(sd).cmd, g), reported(sd.configured_address, st, g)
    ensures ok_dev(sd, st)
{
}

pub proof fn lemma_state_checks(devs: Seq<SubDevice>, k: nat)
    requires k <= devs.len()
    ensures
        state_checks(devs, k).len() == k,
        forall|j: int| 0 <= j < k ==> state_checks(devs, k)[j] == state_check(devs[j]),
    decreases k
{
    if k > 0 {
        lemma_state_checks(devs, (k - 1) as nat);
    }
}

/*@fn file=src/subdevice_group/mod.rs name=push_state_checks subst="<'group, 'sto, I>=><'group>@@where I: Iterator<Item = &'group SubDevice>,=>@@CreatedFrame<'sto>=>CreatedFrame@@I=>SdIter<'group>" props=C07
    requires old(frame).wf()
    ensures
        final(frame).cap == old(frame).cap,
        r is Ok,    // TooLong is unreachable: can_push_pdu_payload guards every push
        ({
            let k = (r->Ok_0).1 as nat;
            let rest = (r->Ok_0).0;
            let room = ((old(frame).cap - old(frame).used) / 14) as nat;
            &&& k <= 129 && k <= subdevices.rest@.len() && k <= room
            &&& (k == 129 || k == subdevices.rest@.len() || k == room)      // i.e. k = min(devices left, floor(free/14), 129)
            &&& rest.rest@ == subdevices.rest@.skip(k as int)
            &&& final(frame).used == old(frame).used + 14 * k
            &&& final(frame).pdus@ == old(frame).pdus@ + state_checks(subdevices.rest@, k)
        }),
@entry
    let ghost devs0 = subdevices.rest@;
@loop 0
    invariant_except_break
        num_in_this_frame <= 128,
    invariant
        frame.wf(), frame.cap == old(frame).cap,
        num_in_this_frame <= 129,
        num_in_this_frame <= devs0.len(),
        subdevices.rest@ == devs0.skip(num_in_this_frame as int),
        frame.used == old(frame).used + 14 * num_in_this_frame,
        frame.pdus@ == old(frame).pdus@ + state_checks(devs0, num_in_this_frame as nat),
    ensures
        num_in_this_frame == 129 || subdevices.rest@.len() == 0 || frame.used + 14 > frame.cap,
    decreases 130 - num_in_this_frame
@before "num_in_this_frame += 1;"
    proof {
        assert(devs0.skip(num_in_this_frame as int)[0] == devs0[num_in_this_frame as int]);
        assert(devs0.skip(num_in_this_frame as int).skip(1) == devs0.skip(num_in_this_frame as int + 1));
        assert(state_checks(devs0, (num_in_this_frame + 1) as nat) == state_checks(devs0, num_in_this_frame as nat).push(state_check(devs0[num_in_this_frame as int])));
        assert((old(frame).pdus@ + state_checks(devs0, num_in_this_frame as nat)).push(state_check(devs0[num_in_this_frame as int]))
            == old(frame).pdus@ + state_checks(devs0, (num_in_this_frame + 1) as nat));
    }
@*/

/// stand-in for RwLockWriteGuard<'_, R, MySyncUnsafeCell<[u8; MAX_PDI]>>: exclusive access to the group's image
pub struct PdiGuard<const MAX_PDI: usize> { pub image: [u8; MAX_PDI] }
impl<const MAX_PDI: usize> PdiGuard<MAX_PDI> {
    #[verifier::external_body]
    pub fn get_mut(&mut self) -> (r: &mut [u8; MAX_PDI])
        ensures *r == old(self).image, final(self).image == *final(r)
    { unimplemented!() }
}

/// the fields of SubDeviceGroup that the cycle reads
pub struct Grp<const MAX_PDI: usize> { pub read_pdi_len: usize, pub pdi_len: usize, pub start_address: u32, pub subdevices: Vec<SubDevice> }

impl<const MAX_PDI: usize> Grp<MAX_PDI> {
    pub open spec fn wf(&self) -> bool { self.read_pdi_len <= self.pdi_len <= MAX_PDI }

    /// `self.inner().subdevices.iter()`
    #[verifier::external_body]
    pub fn sd_iter(&self) -> (r: SdIter<'_>)
        ensures r.rest@ == self.subdevices@
    { unimplemented!() }

    /// `SubDeviceGroup::len`
    #[verifier::external_body]
    pub fn len(&self) -> (r: usize)
        ensures r == self.subdevices@.len()
    { unimplemented!() }

/*@fn file=src/subdevice_group/mod.rs impl="impl<const MAX_SUBDEVICES: usize, const MAX_PDI: usize, R: RawRwLock, S, DC> SubDeviceGroup<MAX_SUBDEVICES, MAX_PDI, R, S, DC>" name=is_state subst="MainDevice<'_>=>MainDevice@@self.inner().subdevices.iter()=>self.sd_iter()@@frame.await?=>frame.wait().await?" props=C10 attr="#[verifier::loop_isolation(false)] #[verifier::allow_complex_invariants]"
    requires
        maindevice.pdu_loop.area <= 0x7ff,
        maindevice.pdu_loop.area >= 14,                 // a frame can carry at least one state check (C07/C10 quantifier)
        self.subdevices@.len() <= 0xffff,
    ensures
        // Ok(true) only if EVERY SubDevice of the group answered an AL-status read (FPRD 0x0130 to its own configured
        // address) and the answer decodes to the requested state
        r == Ok::<bool, Error>(true) ==> forall|i: int| 0 <= i < self.subdevices@.len() ==> ok_dev(#[trigger] self.subdevices@[i], desired_state),
@loop 0
    invariant
        total_checks <= self.subdevices@.len(),
        subdevices.rest@ == self.subdevices@.skip(total_checks as int),
        forall|i: int| 0 <= i < total_checks ==> ok_dev(#[trigger] self.subdevices@[i], desired_state),
    ensures
        total_checks == self.subdevices@.len(),
    decreases (self.subdevices@.len() - total_checks)
@before "let (rest, num_in_this_frame) = push_state_checks"
    let ghost devs_left = subdevices.rest@;
    let ghost base: int = total_checks as int;
@after "let received = frame.await?;"
    let ghost got = received.pdus@;
    proof {
        lemma_state_checks(devs_left, num_in_this_frame as nat);
        assert(got.len() == num_in_this_frame);
        assert forall|j: int| 0 <= j < got.len() implies answered(state_check(self.subdevices@[base + j]).cmd, #[trigger] got[j]) by {
            assert(devs_left[j] == self.subdevices@[base + j]);
        }
    }
@loop 1
    invariant
        __it0.rest@.len() <= got.len(),
        forall|i: int| base <= i < base + got.len() - __it0.rest@.len() ==> ok_dev(#[trigger] self.subdevices@[i], desired_state),
        __it0.rest@ =~= got.skip(got.len() - __it0.rest@.len()),
    ensures
        __it0.rest@.len() == 0,
    decreases __it0.rest@.len()
@before "let pdu = pdu?;"
    let ghost jj: int = got.len() - __it0.rest@.len() - 1;
@after "return Ok(false); }"
    proof {
        assert(got[jj] == got.skip(jj)[0]);
        lemma_ok_dev(self.subdevices@[base + jj], desired_state, got[jj]);
    }
@*/

/*@fn file=src/subdevice_group/mod.rs impl="impl<const MAX_SUBDEVICES: usize, const MAX_PDI: usize, R: RawRwLock, S, DC> SubDeviceGroup<MAX_SUBDEVICES, MAX_PDI, R, S, DC>" name=process_received_pdi_chunk subst="ReceivedPdu<'_>=>ReceivedPdu@@RwLockWriteGuard<'_, R, MySyncUnsafeCell<[u8; MAX_PDI]>>=>PdiGuard<MAX_PDI>" props=C07
    requires
        self.wf(),
        total_bytes_sent + bytes_in_this_chunk <= self.pdi_len,
    ensures
        ({
            let lo = if total_bytes_sent < self.read_pdi_len { total_bytes_sent as int } else { self.read_pdi_len as int };
            let hi = if total_bytes_sent + bytes_in_this_chunk < self.read_pdi_len { (total_bytes_sent + bytes_in_this_chunk) as int } else { self.read_pdi_len as int };
            &&& (r is Ok) == (data.data().len() >= hi - lo)
            &&& r is Ok ==> r->Ok_0 == data.wkc_v()
                && (forall|i: int| lo <= i < hi ==> final(pdi_lock).image@[i] == data.data()[i - lo])
                && (forall|i: int| 0 <= i < MAX_PDI && !(lo <= i < hi) ==> final(pdi_lock).image@[i] == old(pdi_lock).image@[i])
            &&& r is Err ==> final(pdi_lock).image@ == old(pdi_lock).image@
        }),
@*/
}

} // verus!
fn main() {}

//@unit group_cycle  props=C07  min_verified=6
// C07 leaf functions of the process-data cycle, extracted from src/subdevice_group/mod.rs:
//   push_state_checks, process_received_pdi_chunk.   CreatedFrame is seen through its (C04) contract.
use vstd::prelude::*;
verus! {

//@include prelude/errors.rs
//@include prelude/opaque_payloads.rs
//@include prelude/std_specs.rs
//@include prelude/wire_traits.rs
//@include prelude/received_pdu.rs
//@include prelude/command.rs
//@include prelude/created_frame_abs.rs
//@include prelude/network.rs
//@include prelude/timeouts.rs

/// stand-in for crate::SubDevice: only the configured address is read here
pub struct SubDevice { pub configured_address: u16 }
impl SubDevice {
    pub fn configured_address(&self) -> (r: u16) ensures r == self.configured_address { self.configured_address }
}

/// R8: `I: Iterator<Item = &SubDevice>` instantiated with the slice iterator the callers pass (`subdevices.iter()`)
pub struct SdIter<'a> { pub rest: &'a [SubDevice] }
impl<'a> SdIter<'a> {
    #[verifier::external_body]
    pub fn next(&mut self) -> (r: Option<&'a SubDevice>)
        ensures
            old(self).rest@.len() == 0 ==> r is None && final(self).rest@ == old(self).rest@,
            old(self).rest@.len() > 0 ==> r is Some && *(r->Some_0) == old(self).rest@[0] && final(self).rest@ == old(self).rest@.skip(1),
    { unimplemented!() }
}

/*@type file=src/al_control.rs name=AlControl derive="Clone, Copy, PartialEq, Eq, Debug" @*/
impl AlControl {
    pub const PACKED_LEN: usize = 2;
    pub uninterp spec fn unpack_spec(b: Seq<u8>) -> Result<AlControl, WireError>;
    /// derive output (C19: wire_al_control)
    #[verifier::external_body]
    pub fn unpack_from_slice(buf: &[u8]) -> (r: Result<AlControl, WireError>)
        ensures r == AlControl::unpack_spec(buf@)
    { unimplemented!() }
}
pub assume_specification[ <SubDeviceState as PartialEq>::eq ](a: &SubDeviceState, b: &SubDeviceState) -> (r: bool)
    ensures r == (*a == *b);

/// "the AL status read of the device at `address` was answered with bytes that decode to state `st`"
pub open spec fn reported(address: u16, st: SubDeviceState, got: RxPdu) -> bool {
    AlControl::unpack_spec(got.data) is Ok && (AlControl::unpack_spec(got.data)->Ok_0).state == st
}

pub open spec fn state_check(sd: SubDevice) -> PduSpec {
    PduSpec { cmd: Command::Read(Reads::Fprd { address: sd.configured_address, register: 0x0130 }), len: 2, data: Seq::<u8>::empty() }
}

/// the first k state-check datagrams for the devices in `devs`
pub open spec fn state_checks(devs: Seq<SubDevice>, k: nat) -> Seq<PduSpec>
    decreases k
{
    if k == 0 { Seq::<PduSpec>::empty() } else { state_checks(devs, (k - 1) as nat).push(state_check(devs[k - 1])) }
}

/// SubDevice `sd` answered its AL-status read with the state `st`
pub open spec fn ok_dev(sd: SubDevice, st: SubDeviceState) -> bool {
    exists|g: RxPdu| answered(state_check(sd).cmd, g) && reported(sd.configured_address, st, g)
}

pub proof fn lemma_ok_dev(sd: SubDevice, st: SubDeviceState, g: RxPdu)
    requires answered(state_check(sd).cmd, g), reported(sd.configured_address, st, g)
    ensures ok_dev(sd, st)
{
}

pub proof fn lemma_state_checks(devs: Seq<SubDevice>, k: nat)
    requires k <= devs.len()
    ensures
        state_checks(devs, k).len() == k,
        forall|j: int| 0 <= j < k ==> state_checks(devs, k)[j] == state_check(devs[j]),
    decreases k
{
    if k > 0 {
        lemma_state_checks(devs, (k - 1) as nat);
    }
}

/*@fn file=src/subdevice_group/mod.rs name=push_state_checks subst="<'group, 'sto, I>=><'group>@@where I: Iterator<Item = &'group SubDevice>,=>@@CreatedFrame<'sto>=>CreatedFrame@@I=>SdIter<'group>" props=C07
    requires old(frame).wf()
    ensures
        final(frame).cap == old(frame).cap,
        r is Ok,    // TooLong is unreachable: can_push_pdu_payload guards every push
        ({
            let k = (r->Ok_0).1 as nat;
            let rest = (r->Ok_0).0;
            let room = ((old(frame).cap - old(frame).used) / 14) as nat;
            &&& k <= 129 && k <= subdevices.rest@.len() && k <= room
            &&& (k == 129 || k == subdevices.rest@.len() || k == room)      // i.e. k = min(devices left, floor(free/14), 129)
            &&& rest.rest@ == subdevices.rest@.skip(k as int)
            &&& final(frame).used == old(frame).used + 14 * k
            &&& final(frame).pdus@ == old(frame).pdus@ + state_checks(subdevices.rest@, k)
        }),
@entry
    let ghost devs0 = subdevices.rest@;
@loop 0
    invariant_except_break
        num_in_this_frame <= 128,
    invariant
        frame.wf(), frame.cap == old(frame).cap,
        num_in_this_frame <= 129,
        num_in_this_frame <= devs0.len(),
        subdevices.rest@ == devs0.skip(num_in_this_frame as int),
        frame.used == old(frame).used + 14 * num_in_this_frame,
        frame.pdus@ == old(frame).pdus@ + state_checks(devs0, num_in_this_frame as nat),
    ensures
        num_in_this_frame == 129 || subdevices.rest@.len() == 0 || frame.used + 14 > frame.cap,
    decreases 130 - num_in_this_frame
@before "num_in_this_frame += 1;"
    proof {
        assert(devs0.skip(num_in_this_frame as int)[0] == devs0[num_in_this_frame as int]);
        assert(devs0.skip(num_in_this_frame as int).skip(1) == devs0.skip(num_in_this_frame as int + 1));
        assert(state_checks(devs0, (num_in_this_frame + 1) as nat) == state_checks(devs0, num_in_this_frame as nat).push(state_check(devs0[num_in_this_frame as int])));
        assert((old(frame).pdus@ + state_checks(devs0, num_in_this_frame as nat)).push(state_check(devs0[num_in_this_frame as int]))
            == old(frame).pdus@ + state_checks(devs0, (num_in_this_frame + 1) as nat));
    }
@*/

/// stand-in for RwLockWriteGuard<'_, R, MySyncUnsafeCell<[u8; MAX_PDI]>>: exclusive access to the group's image
pub struct PdiGuard<const MAX_PDI: usize> { pub image: [u8; MAX_PDI] }
impl<const MAX_PDI: usize> PdiGuard<MAX_PDI> {
    #[verifier::external_body]
    pub fn get_mut(&mut self) -> (r: &mut [u8; MAX_PDI])
        ensures *r == old(self).image, final(self).image == *final(r)
    { unimplemented!() }
}

/// stand-in for RwLock<MySyncUnsafeCell<[u8; MAX_PDI]>>: `write()` hands out exclusive access to the image (any contents)
pub struct PdiLock<const MAX_PDI: usize> { pub _p: u8 }
impl<const MAX_PDI: usize> PdiLock<MAX_PDI> {
    #[verifier::external_body]
    pub fn write(&self) -> (r: PdiGuard<MAX_PDI>) { unimplemented!() }
}

/// stand-in for heapless::Vec<SubDeviceState, N>
pub struct StateVec<const N: usize> { pub v: Vec<SubDeviceState> }
impl<const N: usize> StateVec<N> {
    #[verifier::external_body]
    pub fn new() -> (r: Self) ensures r.v@.len() == 0 { unimplemented!() }
    #[verifier::external_body]
    pub fn push(&mut self, item: SubDeviceState) -> (r: Result<(), SubDeviceState>)
        ensures
            (r is Ok) == (old(self).v@.len() < N),
            r is Ok ==> final(self).v@ == old(self).v@.push(item),
            r is Err ==> final(self).v@ == old(self).v@,
    { unimplemented!() }
}

/*@type file=src/subdevice_group/tx_rx_response.rs name=TxRxResponse subst="heapless::Vec<SubDeviceState, N>=>StateVec<N>" @*/

impl EtherCrabWireWrite for u64 {
    open spec fn packed(&self) -> Seq<u8> { Seq::new(8, |i: int| ((*self as int / pow256(i)) % 256) as u8) }
    #[verifier::external_body]
    fn packed_len(&self) -> (r: usize) { 8 }
}
pub open spec fn pow256(i: int) -> int decreases i { if i <= 0 { 1 } else { 256 * pow256(i - 1) } }
pub uninterp spec fn le64(b: Seq<u8>) -> u64;
pub struct U64W;
impl U64W {
    pub const PACKED_LEN: usize = 8;
}
/// `u64::unpack_from_slice` (ethercrab-wire/src/impls.rs)
#[verifier::external_body]
pub fn u64_unpack_from_slice(buf: &[u8]) -> (r: Result<u64, WireError>)
    ensures buf@.len() >= 8 ==> r == Ok::<u64, WireError>(le64(buf@)), buf@.len() < 8 ==> r is Err
{ unimplemented!() }

/// stand-in for core::time::Duration (only constructed from nanoseconds here)
pub struct Duration { pub nanos: u64 }
impl Duration {
    pub fn from_nanos(n: u64) -> (r: Duration) ensures r.nanos == n { Duration { nanos: n } }
}
/*@type file=src/subdevice_group/mod.rs name=CycleInfo @*/
/*@type file=src/subdevice_group/mod.rs name=HasDc @*/
pub const DC_PDU_SIZE: usize = 20;     // CreatedFrame::PDU_OVERHEAD_BYTES (12) + u64::PACKED_LEN (8); src/subdevice_group/mod.rs:38

impl MainDevice {
    /// configured address of the DC reference SubDevice, if one was found during init (an atomic read in the real code)
    #[verifier::external_body]
    pub fn dc_ref_address(&self) -> (r: Option<u16>) { unimplemented!() }
}

/// stand-in for `&mut SubDevice` handed out by iter_mut() (R8), and the per-device state request seen through the
/// abstraction of its contract (proved on the real body in unit pdi_config::request_subdevice_state_nowait)
pub struct SdMut { pub configured_address: u16 }
impl SdMut {
    pub fn configured_address(&self) -> (r: u16) ensures r == self.configured_address { self.configured_address }
}
pub struct SdIterMut { pub rest: Ghost<Seq<SubDevice>> }
impl SdIterMut {
    #[verifier::external_body]
    pub fn next(&mut self) -> (r: Option<SdMut>)
        ensures
            old(self).rest@.len() == 0 ==> r is None && final(self).rest@ == old(self).rest@,
            old(self).rest@.len() > 0 ==> r is Some && (r->Some_0).configured_address == old(self).rest@[0].configured_address
                && final(self).rest@ == old(self).rest@.skip(1),
    { unimplemented!() }
}
/// "the device at `addr` was sent the AL control request for `st` (FPWR 0x0120 to its own station address) and acknowledged it
///  without raising its error flag"
pub uninterp spec fn state_requested(addr: u16, st: SubDeviceState) -> bool;
pub struct SubDeviceRef<'a> { pub maindevice: &'a MainDevice, pub configured_address: u16, pub state: SdMut }
impl<'a> SubDeviceRef<'a> {
    #[verifier::external_body]
    pub fn new(maindevice: &'a MainDevice, configured_address: u16, state: SdMut) -> (r: Self)
        ensures r.configured_address == configured_address
    { unimplemented!() }
    #[verifier::external_body]
    pub async fn request_subdevice_state_nowait(&self, desired_state: SubDeviceState) -> (r: Result<(), Error>)
        ensures r is Ok ==> state_requested(self.configured_address, desired_state)
    { unimplemented!() }
}

impl MainDevice {
/*@fn file=src/maindevice.rs impl="impl<'sto> MainDevice<'sto>" name=single_pdu subst="&'sto self=>&self@@ReceivedPdu<'sto>=>ReceivedPdu@@frame.await?=>frame.wait_l(&__wl).await?@@.mark_sendable(=>.mark_sendable_l(&mut __wl,@@(opt).wake_sender()=>.wake_sender_l(&mut __wl)" props=C01,C11
    requires
        self.pdu_loop.area <= 0x7ff, self.cfg_ok(), data.packed().len() <= 0xffff,
    ensures
        // Ok(v) => ONE datagram with exactly this command and max(data length, override) data bytes was sent, and v is what came
        // back for it: its data area and its working counter (which the callers of `common` then compare - C11)
        r is Ok ==> exists|g: RxPdu| #[trigger] answered(command, g)
            && g.data.len() == (if len_override is Some { max_nat(len_override->Some_0 as nat, data.packed().len()) } else { data.packed().len() })
            && (r->Ok_0).data() == g.data && (r->Ok_0).wkc_v() == g.wkc,

@entry
    let mut __wl: Ghost<Seq<PubEv>> = Ghost(Seq::empty());@*/
}

impl Command {
/*@fn file=src/command/mod.rs impl="impl Command" name=bwr canary=0
    ensures r.command == (Writes::Bwr { address: 0, register }), r.wkc == Some(1u16)
@*/
}
impl PduLoop {
/*@fn file=src/pdu_loop/mod.rs impl="impl<'sto> PduLoop<'sto>" name=pdu_broadcast_zeros subst="self.storage.alloc_frame()=>self.alloc_frame()@@crate::timer_factory::LabeledTimeout=>LabeledTimeout@@frame.await?=>frame.wait_l(&__wl).await?@@.mark_sendable(=>.mark_sendable_l(&mut __wl,@@(opt).wake_sender()=>.wake_sender_l(&mut __wl)" props=C04,C09
    requires self.area <= 0x7ff, timeout == self.cfg_timeout@, retries == self.cfg_retries@     // (blank_memory passes timeouts.pdu() and the configured retry count)
    ensures
        // Ok => ONE broadcast write (address 0, this register) whose data area is `payload_length` bytes and carries no caller data
        // (push_pdu zero-fills it: unit created_frame / Kani frame_build) went out and was answered
        r is Ok ==> exists|g: RxPdu| #[trigger] answered(Command::Write(Writes::Bwr { address: 0, register }), g) && g.data.len() == payload_length,

@entry
    let mut __wl: Ghost<Seq<PubEv>> = Ghost(Seq::empty());@*/
}

impl MainDevice {
/*@fn file=src/maindevice.rs impl="impl<'sto> MainDevice<'sto>" name=blank_memory subst="impl Into<u16>=>u16@@start.into()=>start" truncate_casts=1 props=C09,C06
    requires self.pdu_loop.area <= 0x7ff, self.cfg_ok(), LEN <= 0xffff
    ensures
        // Ok => LEN zero bytes were broadcast-written at `start` (one datagram, configured timeout and retries) and answered
        r is Ok ==> exists|g: RxPdu| #[trigger] answered(Command::Write(Writes::Bwr { address: 0, register: start }), g) && g.data.len() == LEN,
@*/
}

/// the fields of SubDeviceGroup that the cycle reads
pub struct Grp<const MAX_PDI: usize> { pub read_pdi_len: usize, pub pdi_len: usize, pub start_address: u32, pub subdevices: Vec<SubDevice>, pub pdi: PdiLock<MAX_PDI>, pub dc_conf: HasDc }

impl<const MAX_PDI: usize> Grp<MAX_PDI> {
    pub open spec fn wf(&self) -> bool { self.read_pdi_len <= self.pdi_len <= MAX_PDI }

    /// `self.inner().subdevices.iter()`
    #[verifier::external_body]
    pub fn sd_iter(&self) -> (r: SdIter<'_>)
        ensures r.rest@ == self.subdevices@
    { unimplemented!() }

    /// `self.inner.get_mut().subdevices.iter_mut()`
    #[verifier::external_body]
    pub fn sd_iter_mut(&mut self) -> (r: SdIterMut)
        ensures r.rest@ == old(self).subdevices@, *final(self) == *old(self)
    { unimplemented!() }

    /// `SubDeviceGroup::len`
    #[verifier::external_body]
    pub fn len(&self) -> (r: usize)
        ensures r == self.subdevices@.len()
    { unimplemented!() }

/*@fn file=src/subdevice_group/mod.rs impl="impl<const MAX_SUBDEVICES: usize, const MAX_PDI: usize, R: RawRwLock, S, DC> SubDeviceGroup<MAX_SUBDEVICES, MAX_PDI, R, S, DC>" name=tx_rx subst="<'sto>=><const MAX_SUBDEVICES: usize>@@&'sto MainDevice<'sto>=>&MainDevice@@self.inner().pdi_start.start_address=>self.start_address@@self.inner().subdevices.iter()=>self.sd_iter()@@heapless::Vec::<_, MAX_SUBDEVICES>::new()=>StateVec::<MAX_SUBDEVICES>::new()@@frame.await?=>frame.wait_l(&__wl).await?@@.mark_sendable(=>.mark_sendable_l(&mut __wl,@@(opt).wake_sender()=>.wake_sender_l(&mut __wl)" props=C07 attr="#[verifier::loop_isolation(false)] #[verifier::allow_complex_invariants]"
    requires
        self.wf(),
        14 <= maindevice.pdu_loop.area <= 0x7ff, maindevice.cfg_ok(),       // frame sizes from "can carry one state check" up (C07 quantifier)
        self.start_address + self.pdi_len <= u32::MAX,
        self.subdevices@.len() <= 0xffff,
        self.subdevices@.len() <= MAX_SUBDEVICES,       // the group was built with this capacity
    ensures
        // one reported state per SubDevice of the group
        r is Ok ==> (r->Ok_0).subdevice_states.v@.len() == self.subdevices@.len(),
@entry
    let mut __wl: Ghost<Seq<PubEv>> = Ghost(Seq::empty());
@after "let mut pdi_lock = self.pdi.write();"
    let ghost img0 = pdi_lock.image@;
    let ghost mut rx: Seq<u8> = Seq::<u8>::empty();     // what the network returned for the image addresses, in order
    let ghost mut wsum: int = 0;                          // sum of the working counters of the process-data datagrams
@loop 0
    invariant
        total_bytes_sent <= self.pdi_len,
        total_checks <= self.subdevices@.len(),
        subdevices.rest@ == self.subdevices@.skip(total_checks as int),
        // the output part of the image (and everything behind it) is byte-for-byte what the application wrote
        forall|i: int| self.read_pdi_len <= i < MAX_PDI ==> pdi_lock.image@[i] == img0[i],
        // the input part received so far equals what the network returned for those addresses
        rx.len() == total_bytes_sent,
        forall|i: int| 0 <= i < total_bytes_sent && i < self.read_pdi_len ==> pdi_lock.image@[i] == rx[i],
        // reported counter = sum over the process-data datagrams (saturating at u16::MAX)
        lrw_wkc_sum as int == (if wsum > 0xffff { 0xffff } else { wsum }), wsum >= 0,
        subdevice_states.v@.len() == total_checks,
    decreases (self.pdi_len - total_bytes_sent) + (self.subdevices@.len() - total_checks)
@loop_start 0
    let ghost img = pdi_lock.image@;
    let ghost sent0: int = total_bytes_sent as int;
@before "let (rest, num_checks_in_this_frame) = push_state_checks"
    proof {
        // TILING: the process-data datagram of this frame is an LRW at logical address start + (bytes sent so far), carrying
        // exactly the next n image bytes, n = min(bytes left, free space - 12) > 0: consecutive chunks are contiguous, no gap, no overlap
        if pushed_chunk is Some {
            let n = (pushed_chunk->Some_0).0 as int;
            assert(0 < n && sent0 + n <= self.pdi_len);
            assert(frame.pdus@.len() == 1);
            assert(frame.pdus@[0].cmd == Command::Write(Writes::Lrw { address: (self.start_address + sent0) as u32 }));
            assert(frame.pdus@[0].len == n);
            assert(frame.pdus@[0].data == img.subrange(sent0, sent0 + n));
            assert(n == self.pdi_len - sent0 || n == maindevice.pdu_loop.area - 12);
        } else {
            assert(sent0 == self.pdi_len);
        }
    }
@after "let received = frame.await?;"
    let ghost got = received.pdus@;
    let ghost has_lrw: int = if pushed_chunk is Some { 1int } else { 0int };
    proof {
        lemma_state_checks(self.subdevices@.skip(total_checks as int - num_checks_in_this_frame as int), num_checks_in_this_frame as nat);
        assert(got.len() == has_lrw + num_checks_in_this_frame);
    }
@loop_end 0
    proof {
        // ghost bookkeeping at the structural end of the frame loop body: what came back for this frame's LRW
        if pushed_chunk is Some {
            let n = (pushed_chunk->Some_0).0 as int;
            rx = rx + got[0].data.subrange(0, n);
            wsum = wsum + got[0].wkc as int;
        }
    }
@loop 1
    invariant
        __it0.rest@.len() <= got.len() - has_lrw,
        subdevice_states.v@.len() + __it0.rest@.len() == total_checks,
    decreases __it0.rest@.len()
@before "Ok(TxRxResponse"
    proof {
        // the whole image was sent and every SubDevice's state was requested
        assert(total_bytes_sent == self.pdi_len);
        assert(total_checks == self.subdevices@.len());
    }
@*/

/*@fn file=src/subdevice_group/mod.rs impl="impl<const MAX_SUBDEVICES: usize, const MAX_PDI: usize, R: RawRwLock, S, DC> SubDeviceGroup<MAX_SUBDEVICES, MAX_PDI, R, S, DC>" name=tx_rx_sync_system_time subst="<'sto>=><const MAX_SUBDEVICES: usize>@@&'sto MainDevice<'sto>=>&MainDevice@@self.inner().pdi_start.start_address=>self.start_address@@self.inner().subdevices.iter()=>self.sd_iter()@@heapless::Vec::<_, MAX_SUBDEVICES>::new()=>StateVec::<MAX_SUBDEVICES>::new()@@frame.await?=>frame.wait_l(&__wl).await?@@u64::unpack_from_slice(&rx).map_err(Error::from)=>u64_unpack_from_slice(&rx).map_err(|e: WireError| -> (me: Error) ensures me == Error::Wire(e) { Error::from(e) })@@.mark_sendable(=>.mark_sendable_l(&mut __wl,@@(opt).wake_sender()=>.wake_sender_l(&mut __wl)" props=C07 attr="#[verifier::loop_isolation(false)] #[verifier::allow_complex_invariants]" __brk0="Result<TxRxResponse<MAX_SUBDEVICES, Option<u64>>, Error>"
    requires
        self.wf(),
        34 <= maindevice.pdu_loop.area <= 0x7ff, maindevice.cfg_ok(),
        self.start_address + self.pdi_len <= u32::MAX,
        self.subdevices@.len() <= 0xffff,
        self.subdevices@.len() <= MAX_SUBDEVICES,
    ensures
        r is Ok ==> (r->Ok_0).subdevice_states.v@.len() == self.subdevices@.len(),
@entry
    let mut __wl: Ghost<Seq<PubEv>> = Ghost(Seq::empty());
@after "let mut pdi_lock = self.pdi.write();"
    let ghost img0 = pdi_lock.image@;
    let ghost mut rx: Seq<u8> = Seq::<u8>::empty();
    let ghost mut wsum: int = 0;
@loop 0
    invariant
        total_bytes_sent <= self.pdi_len,
        total_checks <= self.subdevices@.len(),
        subdevices.rest@ == self.subdevices@.skip(total_checks as int),
        forall|i: int| self.read_pdi_len <= i < MAX_PDI ==> pdi_lock.image@[i] == img0[i],
        rx.len() == total_bytes_sent,
        forall|i: int| 0 <= i < total_bytes_sent && i < self.read_pdi_len ==> pdi_lock.image@[i] == rx[i],
        lrw_wkc_sum as int == (if wsum > 0xffff { 0xffff } else { wsum }), wsum >= 0,
        subdevice_states.v@.len() == total_checks,
    ensures
        // on Ok the whole image was sent, every SubDevice checked, and the clock datagram answered
        __brk0 is Ok ==> total_bytes_sent == self.pdi_len && total_checks == self.subdevices@.len() && time_read
            && (__brk0->Ok_0).subdevice_states.v@.len() == self.subdevices@.len(),
    decreases (self.pdi_len - total_bytes_sent) + (self.subdevices@.len() - total_checks) + (if time_read { 0int } else { 1int })
@loop_start 0
    let ghost img = pdi_lock.image@;
    let ghost sent0: int = total_bytes_sent as int;
    let ghost first_frame: bool = !time_read;
@before "let (rest, num_checks_in_this_frame) = push_state_checks"
    proof {
        let off: int = if first_frame { 1int } else { 0int };
        if first_frame {
            assert(frame.pdus@[0].cmd == Command::Read(Reads::Frmw { address: dc_ref, register: 0x0910 }));
            assert(frame.pdus@[0].len == 8);
        }
        if pushed_chunk is Some {
            let n = (pushed_chunk->Some_0).0 as int;
            assert(0 < n && sent0 + n <= self.pdi_len);
            assert(frame.pdus@.len() == off + 1);
            assert(frame.pdus@[off].cmd == Command::Write(Writes::Lrw { address: (self.start_address + sent0) as u32 }));
            assert(frame.pdus@[off].len == n);
            assert(frame.pdus@[off].data == img.subrange(sent0, sent0 + n));
        } else {
            assert(sent0 == self.pdi_len);
            assert(frame.pdus@.len() == off);
        }
    }
@after "let received = frame.await?;"
    let ghost got = received.pdus@;
    let ghost off: int = if first_frame { 1int } else { 0int };
    let ghost has_lrw: int = if pushed_chunk is Some { 1int } else { 0int };
    proof {
        lemma_state_checks(self.subdevices@.skip(total_checks as int - num_checks_in_this_frame as int), num_checks_in_this_frame as nat);
        assert(got.len() == off + has_lrw + num_checks_in_this_frame);
    }
@loop 1
    invariant
        __it0.rest@.len() <= got.len() - has_lrw - off,
        subdevice_states.v@.len() + __it0.rest@.len() == total_checks,
    decreases __it0.rest@.len()
@loop_end 0
    proof {
        if pushed_chunk is Some {
            let n = (pushed_chunk->Some_0).0 as int;
            rx = rx + got[off].data.subrange(0, n);
            wsum = wsum + got[off].wkc as int;
        }
    }
@closure 0 "|rx: ReceivedPdu| -> (cr: Result<u64, Error>)"
    ensures rx.data().len() >= 8 ==> cr == Ok::<u64, Error>(le64(rx.data()))
@closure 1 "|response: TxRxResponse<MAX_SUBDEVICES, ()>| -> (cr: TxRxResponse<MAX_SUBDEVICES, Option<u64>>)"
    ensures cr.working_counter == response.working_counter, cr.subdevice_states == response.subdevice_states, cr.extra is None
@*/

/*@fn file=src/subdevice_group/mod.rs impl="impl<const MAX_SUBDEVICES: usize, const MAX_PDI: usize, R: RawRwLock, S> SubDeviceGroup<MAX_SUBDEVICES, MAX_PDI, R, S, HasDc>" name=tx_rx_dc subst="<'sto>=><const MAX_SUBDEVICES: usize>@@&'sto MainDevice<'sto>=>&MainDevice@@self.inner().pdi_start.start_address=>self.start_address@@self.inner().subdevices.iter()=>self.sd_iter()@@heapless::Vec::<_, MAX_SUBDEVICES>::new()=>StateVec::<MAX_SUBDEVICES>::new()@@frame.await?=>frame.wait_l(&__wl).await?@@u64::unpack_from_slice(&rx).map_err(Error::from)=>u64_unpack_from_slice(&rx).map_err(|e: WireError| -> (me: Error) ensures me == Error::Wire(e) { Error::from(e) })@@.mark_sendable(=>.mark_sendable_l(&mut __wl,@@(opt).wake_sender()=>.wake_sender_l(&mut __wl)" props=C07,C18 attr="#[verifier::loop_isolation(false)] #[verifier::allow_complex_invariants]"
    requires
        self.wf(),
        34 <= maindevice.pdu_loop.area <= 0x7ff, maindevice.cfg_ok(),      // the clock datagram (20 bytes) plus one state check (14 bytes) fit
        self.start_address + self.pdi_len <= u32::MAX,
        self.subdevices@.len() <= 0xffff,
        self.subdevices@.len() <= MAX_SUBDEVICES,
        1 <= self.dc_conf.sync0_period <= u32::MAX,     // C18 quantifier
        self.dc_conf.sync0_shift <= 0x2_0000_0000,
    ensures
        r is Ok ==> (r->Ok_0).subdevice_states.v@.len() == self.subdevices@.len(),
        // C18: offset into the cycle = reference time mod period, suggested wait = (period - offset) + shift
        r is Ok ==> (r->Ok_0).extra.cycle_start_offset.nanos as int == (r->Ok_0).extra.dc_system_time as int % self.dc_conf.sync0_period as int
            && (r->Ok_0).extra.next_cycle_wait.nanos as int
                == (self.dc_conf.sync0_period - (r->Ok_0).extra.cycle_start_offset.nanos) + self.dc_conf.sync0_shift,
@entry
    let mut __wl: Ghost<Seq<PubEv>> = Ghost(Seq::empty());
@after "let mut pdi_lock = self.pdi.write();"
    let ghost img0 = pdi_lock.image@;
    let ghost mut rx: Seq<u8> = Seq::<u8>::empty();
    let ghost mut wsum: int = 0;
@loop 0
    invariant
        total_bytes_sent <= self.pdi_len,
        total_checks <= self.subdevices@.len(),
        subdevices.rest@ == self.subdevices@.skip(total_checks as int),
        forall|i: int| self.read_pdi_len <= i < MAX_PDI ==> pdi_lock.image@[i] == img0[i],
        rx.len() == total_bytes_sent,
        forall|i: int| 0 <= i < total_bytes_sent && i < self.read_pdi_len ==> pdi_lock.image@[i] == rx[i],
        lrw_wkc_sum as int == (if wsum > 0xffff { 0xffff } else { wsum }), wsum >= 0,
        subdevice_states.v@.len() == total_checks,
    decreases (self.pdi_len - total_bytes_sent) + (self.subdevices@.len() - total_checks) + (if time_read { 0int } else { 1int })
@loop_start 0
    let ghost img = pdi_lock.image@;
    let ghost sent0: int = total_bytes_sent as int;
    let ghost first_frame: bool = !time_read;
@before "let (rest, num_checks_in_this_frame) = push_state_checks"
    proof {
        // the first frame STARTS with exactly one FRMW(reference clock, 0x0910, 8 zero bytes); later frames carry none
        let off: int = if first_frame { 1int } else { 0int };
        if first_frame {
            assert(frame.pdus@[0].cmd == Command::Read(Reads::Frmw { address: self.dc_conf.reference, register: 0x0910 }));
            assert(frame.pdus@[0].len == 8);
        }
        if pushed_chunk is Some {
            let n = (pushed_chunk->Some_0).0 as int;
            assert(0 < n && sent0 + n <= self.pdi_len);
            assert(frame.pdus@.len() == off + 1);
            assert(frame.pdus@[off].cmd == Command::Write(Writes::Lrw { address: (self.start_address + sent0) as u32 }));
            assert(frame.pdus@[off].len == n);
            assert(frame.pdus@[off].data == img.subrange(sent0, sent0 + n));
        } else {
            assert(sent0 == self.pdi_len);
            assert(frame.pdus@.len() == off);
        }
    }
@after "let received = frame.await?;"
    let ghost got = received.pdus@;
    let ghost off: int = if first_frame { 1int } else { 0int };
    let ghost has_lrw: int = if pushed_chunk is Some { 1int } else { 0int };
    proof {
        lemma_state_checks(self.subdevices@.skip(total_checks as int - num_checks_in_this_frame as int), num_checks_in_this_frame as nat);
        assert(got.len() == off + has_lrw + num_checks_in_this_frame);
    }
@loop 1
    invariant
        __it0.rest@.len() <= got.len() - has_lrw - off,
        subdevice_states.v@.len() + __it0.rest@.len() == total_checks,
    decreases __it0.rest@.len()
@loop_end 0
    proof {
        if pushed_chunk is Some {
            let n = (pushed_chunk->Some_0).0 as int;
            rx = rx + got[off].data.subrange(0, n);
            wsum = wsum + got[off].wkc as int;
        }
    }
@closure 0 "|rx: ReceivedPdu| -> (cr: Result<u64, Error>)"
    ensures rx.data().len() >= 8 ==> cr == Ok::<u64, Error>(le64(rx.data()))
@before "Ok(TxRxResponse"
    proof {
        assert(total_bytes_sent == self.pdi_len);
        assert(total_checks == self.subdevices@.len());
        assert(time_read);        // the clock datagram was sent and answered even when the image is empty
    }
@*/

/*@fn file=src/subdevice_group/mod.rs impl="impl<const MAX_SUBDEVICES: usize, const MAX_PDI: usize, R: RawRwLock, S, DC> SubDeviceGroup<MAX_SUBDEVICES, MAX_PDI, R, S, DC>" name=is_state subst="MainDevice<'_>=>MainDevice@@self.inner().subdevices.iter()=>self.sd_iter()@@frame.await?=>frame.wait_l(&__wl).await?@@.mark_sendable(=>.mark_sendable_l(&mut __wl,@@(opt).wake_sender()=>.wake_sender_l(&mut __wl)" props=C10 attr="#[verifier::loop_isolation(false)] #[verifier::allow_complex_invariants]"
    requires
        maindevice.pdu_loop.area <= 0x7ff, maindevice.cfg_ok(),
        maindevice.pdu_loop.area >= 14,                 // a frame can carry at least one state check (C07/C10 quantifier)
        self.subdevices@.len() <= 0xffff,
    ensures
        // Ok(true) only if EVERY SubDevice of the group answered an AL-status read (FPRD 0x0130 to its own configured
        // address) and the answer decodes to the requested state
        r == Ok::<bool, Error>(true) ==> forall|i: int| 0 <= i < self.subdevices@.len() ==> ok_dev(#[trigger] self.subdevices@[i], desired_state),
@entry
    let mut __wl: Ghost<Seq<PubEv>> = Ghost(Seq::empty());
@loop 0
    invariant
        total_checks <= self.subdevices@.len(),
        subdevices.rest@ == self.subdevices@.skip(total_checks as int),
        forall|i: int| 0 <= i < total_checks ==> ok_dev(#[trigger] self.subdevices@[i], desired_state),
    ensures
        total_checks == self.subdevices@.len(),
    decreases (self.subdevices@.len() - total_checks)
@before "let (rest, num_in_this_frame) = push_state_checks"
    let ghost devs_left = subdevices.rest@;
    let ghost base: int = total_checks as int;
@after "let received = frame.await?;"
    let ghost got = received.pdus@;
    proof {
        lemma_state_checks(devs_left, num_in_this_frame as nat);
        assert(got.len() == num_in_this_frame);
        assert forall|j: int| 0 <= j < got.len() implies answered(state_check(self.subdevices@[base + j]).cmd, #[trigger] got[j]) by {
            assert(devs_left[j] == self.subdevices@[base + j]);
        }
    }
@loop 1
    invariant
        __it0.rest@.len() <= got.len(),
        forall|j: int| 0 <= j < got.len() - __it0.rest@.len() ==>
            reported(self.subdevices@[base + j].configured_address, desired_state, #[trigger] got[j]),
        __it0.rest@ =~= got.skip(got.len() - __it0.rest@.len()),
    ensures
        __it0.rest@.len() == 0,
    decreases __it0.rest@.len()
@loop_start 1
    let ghost jj: int = got.len() - __it0.rest@.len();
    proof {
        if __it0.rest@.len() > 0 { assert(got[jj] == got.skip(jj)[0]); }
    }
@loop_end 0
    proof {
        // every device checked in this frame answered with the requested state (structural anchor: end of the frame loop body)
        assert forall|i: int| base <= i < base + got.len() implies ok_dev(#[trigger] self.subdevices@[i], desired_state) by {
            lemma_ok_dev(self.subdevices@[i], desired_state, got[i - base]);
        }
    }
@*/

/*@fn file=src/subdevice_group/mod.rs impl="impl<const MAX_SUBDEVICES: usize, const MAX_PDI: usize, R: RawRwLock, S, DC> SubDeviceGroup<MAX_SUBDEVICES, MAX_PDI, R, S, DC>" name=wait_for_state subst="MainDevice<'_>=>MainDevice" timeouts=1 props=C10 attr="#[verifier::loop_isolation(false)] #[verifier::allow_complex_invariants]" __brk0="Result<(), Error>"
    requires
        maindevice.pdu_loop.area <= 0x7ff, maindevice.cfg_ok(),
        maindevice.pdu_loop.area >= 14,
        self.subdevices@.len() <= 0xffff,
    ensures
        // success only if, in ONE sweep, every SubDevice of the group reported the requested state
        r is Ok ==> forall|i: int| 0 <= i < self.subdevices@.len() ==> ok_dev(#[trigger] self.subdevices@[i], desired_state),
    // the polling loop runs under the state-transition timeout: it ends - with Ok, with the error of an exchange, or with
    // the timeout error - before the remaining time (a natural number, assumption A-TIME-1) is used up
@loop 0
    invariant
        __dl.active, __dl.t@ == maindevice.timeouts.state_transition_v(),      // the wait runs under the configured STATE-TRANSITION timeout
    ensures
        __brk0 is Ok ==> forall|i: int| 0 <= i < self.subdevices@.len() ==> ok_dev(#[trigger] self.subdevices@[i], desired_state),
    decreases __dl.left@
@*/

/*@fragment file=src/subdevice_group/mod.rs impl="impl<const MAX_SUBDEVICES: usize, const MAX_PDI: usize, R: RawRwLock, S, DC> SubDeviceGroup<MAX_SUBDEVICES, MAX_PDI, R, S, DC>" fn=transition_to from="@start" to="self.wait_for_state(maindevice, desired_state).await?;" name=transition_request_and_wait qual="pub async" sig="&mut self, maindevice: &MainDevice, desired_state: SubDeviceState -> (r: Result<(), Error>)" tail="Ok(())" subst="self.inner.get_mut().subdevices.iter_mut()=>self.sd_iter_mut()" props=C10 attr="#[verifier::loop_isolation(false)]"
    requires
        maindevice.pdu_loop.area <= 0x7ff, maindevice.cfg_ok(),
        maindevice.pdu_loop.area >= 14,
        old(self).subdevices@.len() <= 0xffff,
    ensures
        final(self).subdevices@ == old(self).subdevices@,
        // the new typestate is claimed (Ok) only if the request was written to EVERY member of the group and acknowledged,
        // and afterwards every member reported the requested state in one sweep
        r is Ok ==> forall|i: int| 0 <= i < old(self).subdevices@.len() ==>
            state_requested((#[trigger] old(self).subdevices@[i]).configured_address, desired_state)
            && ok_dev(old(self).subdevices@[i], desired_state),
@entry
    let ghost devs0 = self.subdevices@;
@loop 0
    invariant
        self.subdevices@ == devs0,
        __it0.rest@.len() <= devs0.len(),
        __it0.rest@ =~= devs0.skip(devs0.len() - __it0.rest@.len()),
        forall|i: int| 0 <= i < devs0.len() - __it0.rest@.len() ==> state_requested((#[trigger] devs0[i]).configured_address, desired_state),
    decreases __it0.rest@.len()
@loop_start 0
    proof {
        let k = devs0.len() - __it0.rest@.len() - 1;
        assert(devs0.skip(k)[0] == devs0[k]);
    }
@*/

/*@fn file=src/subdevice_group/mod.rs impl="impl<const MAX_SUBDEVICES: usize, const MAX_PDI: usize, R: RawRwLock, S, DC> SubDeviceGroup<MAX_SUBDEVICES, MAX_PDI, R, S, DC>" name=process_received_pdi_chunk subst="ReceivedPdu<'_>=>ReceivedPdu@@RwLockWriteGuard<'_, R, MySyncUnsafeCell<[u8; MAX_PDI]>>=>PdiGuard<MAX_PDI>" props=C07
    requires
        self.wf(),
        total_bytes_sent + bytes_in_this_chunk <= self.pdi_len,
    ensures
        ({
            let lo = if total_bytes_sent < self.read_pdi_len { total_bytes_sent as int } else { self.read_pdi_len as int };
            let hi = if total_bytes_sent + bytes_in_this_chunk < self.read_pdi_len { (total_bytes_sent + bytes_in_this_chunk) as int } else { self.read_pdi_len as int };
            &&& (r is Ok) == (data.data().len() >= hi - lo)
            &&& r is Ok ==> r->Ok_0 == data.wkc_v()
                && (forall|i: int| lo <= i < hi ==> final(pdi_lock).image@[i] == data.data()[i - lo])
                && (forall|i: int| 0 <= i < MAX_PDI && !(lo <= i < hi) ==> final(pdi_lock).image@[i] == old(pdi_lock).image@[i])
            &&& r is Err ==> final(pdi_lock).image@ == old(pdi_lock).image@
        }),
@*/
}

} // verus!
fn main() {}

//@unit sdo  props=C15,C16  min_verified=8
// Coe::{sdo_read, sdo_read_expedited, sdo_write, sdo_read_array, sdo_write_array} extracted from src/mailbox/coe/mod.rs.
// `mailbox_write_read` (the device) returns ARBITRARY decoded headers and an ARBITRARY byte view: every automatic obligation
// (no underflow/overflow, slices in bounds, copy lengths equal, unwrap on Some, loop termination) is therefore proved
// against any mailbox reply.
use vstd::prelude::*;
verus! {

//@include prelude/errors.rs
//@include prelude/opaque_payloads.rs
//@include prelude/opaque_command.rs
//@include prelude/std_specs.rs
//@include prelude/received_pdu.rs

//@include prelude/wire_traits_buf.rs

// ---- CoE / mailbox header types, extracted ----
/*@type file=src/mailbox/mod.rs name=Priority derive="Clone, Copy, PartialEq, Eq, Debug" @*/
/*@type file=src/mailbox/mod.rs name=MailboxType derive="Clone, Copy, PartialEq, Eq, Debug" @*/
/*@type file=src/mailbox/mod.rs name=MailboxHeader derive="Clone, Copy, PartialEq, Eq, Debug" @*/
/*@type file=src/mailbox/coe/headers.rs name=CoeService derive="Clone, Copy, PartialEq, Eq, Debug" @*/
/*@type file=src/mailbox/coe/headers.rs name=CoeHeader derive="Clone, Copy, PartialEq, Eq, Debug" @*/
/*@type file=src/mailbox/coe/headers.rs name=CoeCommand derive="Clone, Copy, PartialEq, Eq, Debug" @*/
/*@type file=src/mailbox/coe/headers.rs name=SdoHeader derive="Clone, Copy, PartialEq, Eq, Debug" @*/
/*@type file=src/mailbox/coe/headers.rs name=SdoHeaderSegmented derive="Clone, Copy, PartialEq, Eq, Debug" @*/
/*@type file=src/mailbox/coe/headers.rs name=SubIndex derive="Clone, Copy, Debug" @*/
/*@type file=src/mailbox/coe/services.rs name=SdoExpedited derive="Clone, Copy, PartialEq, Debug" @*/
/*@type file=src/mailbox/coe/services.rs name=SdoNormal derive="Clone, Copy, PartialEq, Debug" @*/
/*@type file=src/mailbox/coe/services.rs name=SdoSegmented derive="Clone, Copy, Debug" @*/

impl SubIndex {
/*@fn file=src/mailbox/coe/headers.rs impl="impl SubIndex" name=complete_access props=C15
    ensures r == (*self is Complete)
@*/
/*@fn file=src/mailbox/coe/headers.rs impl="impl SubIndex" name=sub_index props=C15
    ensures r == (match *self { SubIndex::Complete => 1u8, SubIndex::Index(i) => i })
@*/
}
impl From<u8> for SubIndex {
/*@fn file=src/mailbox/coe/headers.rs impl="impl From<u8> for SubIndex" name=from ret=none canary=0
@*/
}
impl vstd::std_specs::convert::FromSpecImpl<u8> for SubIndex {
    open spec fn obeys_from_spec() -> bool { true }
    open spec fn from_spec(v: u8) -> SubIndex { SubIndex::Index(v) }
}
impl SdoNormal {
/*@fn file=src/mailbox/coe/services.rs impl="impl SdoNormal" name=upload props=C15
    ensures
        r.header.length == 0x0a && r.header.mailbox_type == MailboxType::Coe && r.header.counter == counter,
        r.coe_header.service == CoeService::SdoRequest,
        r.sdo_header.command == CoeCommand::Upload && r.sdo_header.index == index
            && r.sdo_header.sub_index == (match access { SubIndex::Complete => 1u8, SubIndex::Index(i) => i })
            && r.sdo_header.complete_access == (access is Complete)
            && !r.sdo_header.expedited_transfer && !r.sdo_header.size_indicator && r.sdo_header.size == 0,
@*/
}
impl SdoSegmented {
/*@fn file=src/mailbox/coe/services.rs impl="impl SdoSegmented" name=upload props=C15
    ensures
        r.header.counter == counter && r.header.mailbox_type == MailboxType::Coe,
        r.sdo_header.toggle == toggle && r.sdo_header.command == CoeCommand::UploadSegment,
@*/
}
impl SdoExpedited {
/*@fn file=src/mailbox/coe/services.rs impl="impl SdoExpedited" name=download props=C15
    ensures
        r.header.counter == counter && r.header.mailbox_type == MailboxType::Coe && r.header.length == 0x0a,
        r.coe_header.service == CoeService::SdoRequest,
        r.sdo_header.command == CoeCommand::Download && r.sdo_header.index == index
            && r.sdo_header.sub_index == (match access { SubIndex::Complete => 1u8, SubIndex::Index(i) => i })
            && r.sdo_header.complete_access == (access is Complete)
            && r.sdo_header.expedited_transfer && r.sdo_header.size_indicator
            && r.sdo_header.size as int == (if len >= 4 { 0int } else { 4 - len }),
        r.data == data,
@*/
}

/// headers decoded from the wire respect their declared bit widths (checked per type by the C19 harnesses)
pub trait CoeServiceRequest: Sized {
    spec fn wf(&self) -> bool;
    /// the mailbox counter the request carries
    spec fn ctr(&self) -> u8;
}
impl CoeServiceRequest for SdoNormal { open spec fn wf(&self) -> bool { self.sdo_header.size <= 3 } open spec fn ctr(&self) -> u8 { self.header.counter } }
impl CoeServiceRequest for SdoExpedited { open spec fn wf(&self) -> bool { self.sdo_header.size <= 3 } open spec fn ctr(&self) -> u8 { self.header.counter } }
impl CoeServiceRequest for SdoSegmented { open spec fn wf(&self) -> bool { self.sdo_header.segment_data_size <= 7 } open spec fn ctr(&self) -> u8 { self.header.counter } }

/*@type file=src/mailbox/coe/headers.rs name=SdoInfoOpCode derive="Clone, Copy, PartialEq, Eq, Debug" @*/
/*@type file=src/mailbox/coe/headers.rs name=SdoInfoHeader derive="Clone, Copy, PartialEq, Eq, Debug" @*/
/*@type file=src/mailbox/coe/services.rs name=ObjectDescriptionListResponse derive="Clone, Copy, PartialEq, Debug" @*/
/*@type file=src/subdevice/types.rs name=Mailbox derive="Clone, Copy, PartialEq, Debug" @*/

impl ObjectDescriptionListResponse {
    pub const PACKED_LEN: usize = 12;
    /// derive output (C19): any headers may come back, or a wire error
    #[verifier::external_body]
    pub fn unpack_from_slice(buf: &[u8]) -> (r: Result<Self, WireError>)
    { unimplemented!() }
}
pub assume_specification[ <SdoInfoOpCode as PartialEq>::eq ](a: &SdoInfoOpCode, b: &SdoInfoOpCode) -> (r: bool)
    ensures r == (*a == *b);

/// stand-in for heapless::Vec<u8, N>: a byte vector that refuses to grow past N
pub struct HVec<const N: usize> { pub v: Vec<u8> }
impl<const N: usize> HVec<N> {
    pub open spec fn wf(&self) -> bool { self.v@.len() <= N }
    #[verifier::external_body]
    pub fn new() -> (r: Self) ensures r.v@.len() == 0 { unimplemented!() }
    #[verifier::external_body]
    pub fn extend_from_slice(&mut self, other: &[u8]) -> (r: Result<(), ()>)
        requires old(self).wf()
        ensures
            final(self).wf(),
            (r is Ok) == (old(self).v@.len() + other@.len() <= N),
            r is Ok ==> final(self).v@ == old(self).v@ + other@,
            r is Err ==> final(self).v@ == old(self).v@,
    { unimplemented!() }
}

/// "the device answered request `req` with decoded headers `h` followed by the bytes `d`"
pub uninterp spec fn replied<R>(req: R, h: R, d: Seq<u8>) -> bool;

/// "this request was written to the SubDevice's mailbox and answered"
pub uninterp spec fn exchanged<R>(req: R) -> bool;


/// number of object bytes carried by an upload segment (ETG1000.6 5.6.2.6.2): mailbox length - 3, and for the minimum
/// size of 7 data bytes the last `segment_data_size` of them are padding
pub open spec fn seglen(h: SdoSegmented) -> int {
    let c: int = if h.header.length >= 3 { h.header.length - 3 } else { 0 };
    if c == 7 { 7 - h.sdo_header.segment_data_size as int } else { c }
}
/// the object bytes delivered by a sequence of segments: their data parts, in order
pub open spec fn seg_concat(hs: Seq<SdoSegmented>, ds: Seq<Seq<u8>>) -> Seq<u8>
    decreases hs.len()
{
    if hs.len() == 0 || ds.len() != hs.len() { Seq::<u8>::empty() }
    else { seg_concat(hs.drop_last(), ds.drop_last()) + ds.last().subrange(0, seglen(hs.last())) }
}
/// a segmented transfer: the j-th segment request carries toggle = (j odd) (first segment: 0, then alternating), a counter
/// in 1..=7, was answered by (hs[j], ds[j]); only the final answer (when `done`) says "last segment"
pub open spec fn seg_chain(reqs: Seq<SdoSegmented>, hs: Seq<SdoSegmented>, ds: Seq<Seq<u8>>, done: bool) -> bool {
    &&& reqs.len() == hs.len()
    &&& ds.len() == hs.len()
    &&& forall|j: int| 0 <= j < hs.len() ==> #[trigger] replied(reqs[j], hs[j], ds[j])
            && reqs[j].sdo_header.toggle == (j % 2 == 1)
            && reqs[j].sdo_header.command == CoeCommand::UploadSegment && 1 <= reqs[j].header.counter <= 7
            && 0 <= seglen(hs[j]) <= ds[j].len()
            && hs[j].sdo_header.is_last_segment == (done && j == hs.len() - 1)
}
pub open spec fn seg_result<T: EtherCrabWireRead>(v: T) -> bool {
    exists|reqs: Seq<SdoSegmented>, hs: Seq<SdoSegmented>, ds: Seq<Seq<u8>>|
        #[trigger] seg_chain(reqs, hs, ds, true) && hs.len() >= 1 && T::unpack_spec(seg_concat(hs, ds)) == Ok::<T, WireError>(v)
}
pub proof fn lemma_chain_push(reqs: Seq<SdoSegmented>, hs: Seq<SdoSegmented>, ds: Seq<Seq<u8>>, req: SdoSegmented, h: SdoSegmented, d: Seq<u8>)
    requires
        seg_chain(reqs, hs, ds, false),
        replied(req, h, d),
        req.sdo_header.toggle == (hs.len() % 2 == 1),
        req.sdo_header.command == CoeCommand::UploadSegment, 1 <= req.header.counter <= 7,
        0 <= seglen(h) <= d.len(),
    ensures seg_chain(reqs.push(req), hs.push(h), ds.push(d), h.sdo_header.is_last_segment)
{
    let (nr, nh, nd) = (reqs.push(req), hs.push(h), ds.push(d));
    assert forall|j: int| 0 <= j < nh.len() implies #[trigger] replied(nr[j], nh[j], nd[j])
        && nr[j].sdo_header.toggle == (j % 2 == 1)
        && nr[j].sdo_header.command == CoeCommand::UploadSegment && 1 <= nr[j].header.counter <= 7
        && 0 <= seglen(nh[j]) <= nd[j].len()
        && nh[j].sdo_header.is_last_segment == (h.sdo_header.is_last_segment && j == nh.len() - 1) by {
        if j < hs.len() {
            assert(nr[j] == reqs[j] && nh[j] == hs[j] && nd[j] == ds[j]);
            assert(replied(reqs[j], hs[j], ds[j]));
        }
    }
}

pub proof fn lemma_seg_push(hs: Seq<SdoSegmented>, ds: Seq<Seq<u8>>, h: SdoSegmented, d: Seq<u8>)
    requires hs.len() == ds.len()
    ensures seg_concat(hs.push(h), ds.push(d)) == seg_concat(hs, ds) + d.subrange(0, seglen(h))
{
    assert(hs.push(h).drop_last() =~= hs);
    assert(ds.push(d).drop_last() =~= ds);
    assert(hs.push(h).last() == h);
    assert(ds.push(d).last() == d);
}

/// "the value `bytes` (1..=4 bytes) was written to (index, sub) by an expedited download that the device acknowledged" - the
/// postcondition of sdo_write for a plain sub-index
pub open spec fn entry_written(index: u16, sub: u8, bytes: Seq<u8>) -> bool {
    exists|req: SdoExpedited| #[trigger] exchanged(req)
        && 1 <= req.header.counter <= 7
        && req.sdo_header.command == CoeCommand::Download && req.sdo_header.expedited_transfer
        && req.sdo_header.index == index && req.sdo_header.sub_index == sub && !req.sdo_header.complete_access
        && req.sdo_header.size as int == 4 - bytes.len()
        && req.data@.subrange(0, bytes.len() as int) == bytes
        && (forall|i: int| bytes.len() <= i < 4 ==> req.data@[i] == 0)
}
/// the count byte at sub-index 0
pub open spec fn arr_written(index: u16, sub: u8, count: int) -> bool { entry_written(index, sub, seq![count as u8]) }

impl EtherCrabWireWrite for u8 {
    open spec fn packed(&self) -> Seq<u8> { seq![*self] }
    #[verifier::external_body]
    fn packed_len(&self) -> (r: usize) { 1 }
    #[verifier::external_body]
    fn pack_to_slice<'buf>(&self, buf: &'buf mut [u8]) -> (r: Result<&'buf [u8], WireError>) { unimplemented!() }
}
/// blanket impl for references (ethercrab-wire/src/impls.rs)
impl<T: EtherCrabWireWrite> EtherCrabWireWrite for &T {
    open spec fn packed(&self) -> Seq<u8> { (**self).packed() }
    #[verifier::external_body]
    fn packed_len(&self) -> (r: usize) { unimplemented!() }
    #[verifier::external_body]
    fn pack_to_slice<'buf>(&self, buf: &'buf mut [u8]) -> (r: Result<&'buf [u8], WireError>) { unimplemented!() }
}
pub struct Buf1 { pub b: [u8; 1] }
impl BufLike for Buf1 {
    open spec fn bytes(&self) -> Seq<u8> { self.b@ }
    #[verifier::external_body]
    fn as_mut(&mut self) -> (r: &mut [u8]) { &mut self.b }
    #[verifier::external_body]
    fn as_ref(&self) -> (r: &[u8]) { &self.b }
}
impl EtherCrabWireSized for u8 {
    const PACKED_LEN: usize = 1;
    type Buffer = Buf1;
    #[verifier::external_body]
    fn buffer() -> (r: Buf1) { Buf1 { b: [0; 1] } }
}
impl EtherCrabWireRead for u8 {
    open spec fn unpack_spec(b: Seq<u8>) -> Result<u8, WireError> {
        if b.len() < 1 { Err(WireError::ReadBufferTooShort) } else { Ok(b[0]) }
    }
    #[verifier::external_body]
    fn unpack_from_slice(buf: &[u8]) -> (r: Result<u8, WireError>) { unimplemented!() }
}
impl EtherCrabWireReadSized for u8 {}
/// `lo..=hi` over u8 (R8: core::ops::RangeInclusive<u8> as an iterator): yields lo, lo+1, .., hi
pub struct RangeInclU8 { pub next: int, pub hi: u8 }
#[verifier::external_body]
pub fn range_incl_u8(lo: u8, hi: u8) -> (r: RangeInclU8) ensures r.next == lo, r.hi == hi { unimplemented!() }
impl RangeInclU8 {
    #[verifier::external_body]
    pub fn next(&mut self) -> (r: Option<u8>)
        ensures
            final(self).hi == old(self).hi,
            old(self).next > old(self).hi ==> r is None && final(self).next == old(self).next,
            old(self).next <= old(self).hi ==> r == Some(old(self).next as u8) && final(self).next == old(self).next + 1,
    { unimplemented!() }
}
/// stand-in for heapless::Vec<T, N>
pub struct CapVec<T, const N: usize> { pub v: Vec<T> }
impl<T, const N: usize> CapVec<T, N> {
    #[verifier::external_body]
    pub fn new() -> (r: Self) ensures r.v@.len() == 0 { unimplemented!() }
    #[verifier::external_body]
    pub fn push(&mut self, item: T) -> (r: Result<(), T>)
        ensures
            (r is Ok) == (old(self).v@.len() < N),
            r is Ok ==> final(self).v@ == old(self).v@.push(item),
            r is Err ==> final(self).v@ == old(self).v@,
    { unimplemented!() }
}
/// `slice.iter().enumerate()` (R8)
pub struct EnumIter<'a, T> { pub s: &'a [T], pub pos: usize }
pub fn enumerate_slice<'a, T>(s: &'a [T]) -> (r: EnumIter<'a, T>) ensures r.s@ == s@, r.pos == 0 { EnumIter { s, pos: 0 } }
impl<'a, T> EnumIter<'a, T> {
    #[verifier::external_body]
    pub fn next(&mut self) -> (r: Option<(usize, &'a T)>)
        requires old(self).pos <= old(self).s@.len()
        ensures
            final(self).s@ == old(self).s@,
            old(self).pos >= old(self).s@.len() ==> r is None && final(self).pos == old(self).pos,
            old(self).pos < old(self).s@.len() ==> r is Some && (r->Some_0).0 == old(self).pos && *((r->Some_0).1) == old(self).s@[old(self).pos as int]
                && final(self).pos == old(self).pos + 1,
    { unimplemented!() }
}

/// the CoE view of a SubDevice: the device side is `mailbox_write_read`, which may answer ANYTHING
/// (`fresh`: ghost - the counter value drawn by the last mailbox_counter() call and not yet used by a request.  C15 "every request
/// carries a mailbox counter cycling through 1..7": each exchange must carry a counter drawn FOR IT - the draw advances the cycle
/// (Kani group mbx), so a value used for two requests repeats a counter, which a SubDevice discards as a duplicate)
pub struct Coe { pub _p: u8, pub fresh: Ghost<Option<u8>> }
impl Coe {
    /// real body: SubDevice::mailbox_counter (fetch_update on an AtomicU8) - Kani group `mbx` proves 1..=7 and the cycle
    #[verifier::external_body]
    pub fn mailbox_counter(&mut self) -> (r: u8)
        ensures 1 <= r <= 7, final(self).fresh@ == Some(r)
    { unimplemented!() }

    #[verifier::external_body]
    pub async fn mailbox_write_read<R: CoeServiceRequest>(&mut self, request: R) -> (r: Result<(R, ReceivedPdu), Error>)
        requires old(self).fresh@ == Some(request.ctr())       // the request carries a counter drawn for it and not used before
        ensures final(self).fresh@ is None,
            r is Ok ==> (r->Ok_0).0.wf() && exchanged(request) && replied(request, (r->Ok_0).0, (r->Ok_0).1.data())
    { unimplemented!() }

    /// the device's response mailbox: ANY bytes
    #[verifier::external_body]
    pub async fn wait_for_mailbox_response(&self, read_mailbox: &Mailbox) -> (r: Result<ReceivedPdu, Error>)
    { unimplemented!() }

/*@fragment file=src/mailbox/coe/mod.rs impl="impl<'maindevice, S> Coe<'maindevice, S>" fn=send_sdo_info_service from="const COE_HEADER_AND_LIST_TYPE_SIZE" to="if !headers.sdo_info_header.incomplete { break; } } }" name=sdo_info_collect qual="pub async" sig="&self, read_mailbox: Mailbox -> (r: Result<Option<HVec<0x1fffe>>, Error>)" tail="Ok(Some(buf))" subst="heapless::Vec::<u8, 0x1fffe>=>HVec::<0x1fffe>" props=C16
    ensures
        // never more than the fixed buffer
        r is Ok && r->Ok_0 is Some ==> (r->Ok_0->Some_0).v@.len() <= 0x1fffe,
@loop 0
    invariant
        buf.wf(),
        responses_left <= 0x1_0000,
    decreases responses_left
@closure 0 "|_e: ()| -> (cr: Error)" of=map_err
    ensures cr == Error::Internal
@*/

/*@fn file=src/mailbox/coe/mod.rs impl="impl<'maindevice, S> Coe<'maindevice, S>" name=sdo_read_expedited subst="&self=>&mut self@@self.subdevice.mailbox_counter()=>self.mailbox_counter()@@impl Into<SubIndex>=>SubIndex@@let sub_index = sub_index.into();=>@@T: SdoExpeditedPayload=>T: EtherCrabWireReadSized" props=C15,C16
    // SdoExpeditedPayload is a crate-private marker implemented only for u8, u16, u32 and the 4-byte PDO `Mapping`
    requires T::PACKED_LEN <= 4
    ensures true
@*/

/*@fn file=src/mailbox/coe/mod.rs impl="impl<'maindevice, S> Coe<'maindevice, S>" name=sdo_write subst="&self=>&mut self@@self.subdevice.mailbox_counter()=>self.mailbox_counter()@@impl Into<SubIndex>=>SubIndex@@let sub_index = sub_index.into();=>" props=C15,C16
    ensures
        value.packed().len() > 4 ==> r is Err,
        // Ok => an expedited download carrying exactly the value's bytes (zero padded to 4), its length, index and sub-index,
        //       with a mailbox counter in 1..=7, was exchanged with the device
        r is Ok ==> exists|req: SdoExpedited| #[trigger] exchanged(req)
            && 1 <= req.header.counter <= 7
            && req.sdo_header.command == CoeCommand::Download && req.sdo_header.expedited_transfer
            && req.sdo_header.index == index
            && req.sdo_header.sub_index == (match sub_index { SubIndex::Complete => 1u8, SubIndex::Index(i) => i })
            && req.sdo_header.complete_access == (sub_index is Complete)
            && req.sdo_header.size as int == 4 - value.packed().len()
            && req.data@.subrange(0, value.packed().len() as int) == value.packed()
            && (forall|i: int| value.packed().len() <= i < 4 ==> req.data@[i] == 0),
@before "let (_response, _data)"
    proof {
        let n = value.packed().len() as int;
        assert(request.data == buf);
        assert(buf@.subrange(0, n) == value.packed());
        assert forall|i: int| n <= i < 4 implies buf@[i] == 0 by {
            assert(buf@[i] == buf@.subrange(n, 4)[i - n]);
        }
        assert(request.sdo_header.size as int == 4 - n);
    }
@before "return Err(Error::Internal);"
    proof { assert(value.packed().len() > 4); }     // refused ONLY for values that do not fit an expedited download
@*/

/*@fn file=src/mailbox/coe/mod.rs impl="impl<'maindevice, S> Coe<'maindevice, S>" name=sdo_read subst="&self=>&mut self@@self.subdevice.mailbox_counter()=>self.mailbox_counter()@@impl Into<SubIndex>=>SubIndex@@let sub_index = sub_index.into();=>" props=C15,C16 attr="#[verifier::loop_isolation(false)] #[verifier::allow_complex_invariants]"
    requires T::PACKED_LEN <= 0x7fff_ffff      // a destination type is not larger than isize::MAX bytes
    ensures
        // Ok(v) => an upload request for exactly (index, sub_index) with a counter in 1..=7 was answered, and
        //  - expedited answer: v decodes the first 4-size bytes after the headers
        //  - normal answer (complete size <= bytes present): v decodes the `length - 10` bytes after the 4-byte size field,
        //    and an object larger than the destination is refused (TooLong), never truncated
        //  - segmented answer (complete size > bytes present): v decodes the concatenation of the segments' data parts, the
        //    segment requests alternate the toggle bit starting with 0 and carry counters in 1..=7, and the transfer ends at
        //    the first segment marked last
        r is Ok ==> exists|req: SdoNormal, h: SdoNormal, d: Seq<u8>| #[trigger] replied(req, h, d)
            && 1 <= req.header.counter <= 7 && req.sdo_header.command == CoeCommand::Upload && req.sdo_header.index == index
            && req.sdo_header.sub_index == (match sub_index { SubIndex::Complete => 1u8, SubIndex::Index(i) => i })
            && req.sdo_header.complete_access == (sub_index is Complete)
            && (h.sdo_header.expedited_transfer ==> d.len() >= 4 - h.sdo_header.size
                    && T::unpack_spec(d.subrange(0, 4 - h.sdo_header.size)) == Ok::<T, WireError>(r->Ok_0))
            && (!h.sdo_header.expedited_transfer ==> d.len() >= 4 && le32(d) <= T::PACKED_LEN)
            && (!h.sdo_header.expedited_transfer && le32(d) <= (if h.header.length >= 10 { h.header.length - 10 } else { 0 }) ==> ({
                    let dl = if h.header.length >= 10 { (h.header.length - 10) as int } else { 0 };
                    d.len() >= 4 + dl && T::unpack_spec(d.subrange(4, 4 + dl)) == Ok::<T, WireError>(r->Ok_0)
                }))
            && (!h.sdo_header.expedited_transfer && le32(d) > (if h.header.length >= 10 { h.header.length - 10 } else { 0 }) ==> seg_result::<T>(r->Ok_0)),
@after "let data: &[u8] = &response;"
    let ghost req0 = request;
    let ghost h0 = headers;
    let ghost d0 = data@;
    let ghost mut greqs: Seq<SdoSegmented> = Seq::empty();
    let ghost mut ghs: Seq<SdoSegmented> = Seq::empty();
    let ghost mut gds: Seq<Seq<u8>> = Seq::empty();
@after "let (headers, data) = self.mailbox_write_read(request).await?;"
    let ghost gd = data.data();
    let ghost buf_before = buf@;
@after "total_len += chunk_len;"
    proof {
        lemma_seg_push(ghs, gds, headers, gd);
        assert(seglen(headers) == chunk_len);
        assert(buf@.subrange(0, total_len as int) =~= buf_before.subrange(0, total_len - chunk_len) + gd.subrange(0, chunk_len as int));
        lemma_chain_push(greqs, ghs, gds, request, headers, gd);
        greqs = greqs.push(request);
        ghs = ghs.push(headers);
        gds = gds.push(gd);
        assert(seg_chain(greqs, ghs, gds, headers.sdo_header.is_last_segment));
    }
@before "return Err(Error::Mailbox(MailboxError::TooLong"
    proof {
        // TooLong is produced only here, and only for an object that really exceeds the destination (an object that fits
        // exactly must be delivered)
        assert(!h0.sdo_header.expedited_transfer && le32(d0) > T::PACKED_LEN);
    }
@before "T::unpack_from_slice(response_payload).map_err"
    proof {
        let dl: int = if h0.header.length >= 10 { (h0.header.length - 10) as int } else { 0 };
        if h0.sdo_header.expedited_transfer {
            assert(response_payload@ == d0.subrange(0, 4 - h0.sdo_header.size as int));
        } else {
            assert(d0.len() >= 4);
            assert(le32(d0) <= T::PACKED_LEN);
            if le32(d0) <= dl {
                assert(response_payload@ =~= d0.subrange(4, 4 + dl));
            } else {
                assert(response_payload@ == seg_concat(ghs, gds));
                assert(seg_chain(greqs, ghs, gds, true));
            }
        }
        assert(replied(req0, h0, d0));
    }
@loop 0
    invariant_except_break
        seg_chain(greqs, ghs, gds, false),
        toggle == (ghs.len() % 2 == 1),
    invariant
        total_len <= buf@.len(),
        buf@.len() == T::PACKED_LEN,
        ghs.len() == gds.len(),
        buf@.subrange(0, total_len as int) == seg_concat(ghs, gds),
    ensures
        seg_chain(greqs, ghs, gds, true),
        ghs.len() >= 1,
    decreases buf@.len() - total_len
@closure 0 "|_e: WireError| -> (cr: Error)"
    ensures cr == Error::Pdu(PduError::Decode)
@before "return Err(Error::Mailbox(MailboxError::SdoResponseInvalid"
    proof { assert(chunk_len == 0 && !headers.sdo_header.is_last_segment); }   // refused ONLY for a data-less segment that is not the last
@*/

// the array helpers: the implicit `.into()` of the sub-index argument (first statement of sdo_write / sdo_read, removed there by
// substitution) is spelled out at the call sites instead
/*@fn file=src/mailbox/coe/mod.rs impl="impl<'maindevice, S> Coe<'maindevice, S>" name=sdo_write_array subst="&self=>&mut self@@impl AsRef<[T]>=>&[T]@@self.sdo_write(index, 0,=>self.sdo_write(index, SubIndex::from(0u8),@@self.sdo_write(index, i as u8,=>self.sdo_write(index, SubIndex::from(i as u8),@@values.iter().enumerate()=>enumerate_slice(values)" props=C15 attr="#[verifier::loop_isolation(false)]"
    requires values@.len() <= 254          // sub-indices are 8 bit: at most 254 entries behind the count
    ensures
        // Ok => the count was cleared first, entry k went to sub-index k+1 (k = 0..n-1, in order), the count n was written last
        r is Ok ==> arr_written(index, 0, 0) && arr_written(index, 0, values@.len() as int)
            && forall|k: int| 0 <= k < values@.len() ==> #[trigger] entry_written(index, (k + 1) as u8, values@[k].packed()),
@loop 0
    invariant
        __it0.pos <= values@.len(), __it0.s@ == values@,
        forall|k: int| 0 <= k < __it0.pos ==> #[trigger] entry_written(index, (k + 1) as u8, values@[k].packed()),
    decreases values@.len() - __it0.pos
@*/

/*@fn file=src/mailbox/coe/mod.rs impl="impl<'maindevice, S> Coe<'maindevice, S>" name=sdo_read_array subst="&self=>&mut self@@heapless::Vec<T, MAX_ENTRIES>=>CapVec<T, MAX_ENTRIES>@@heapless::Vec::new()=>CapVec::<T, MAX_ENTRIES>::new()@@self.sdo_read::<u8>(index, 0)=>self.sdo_read::<u8>(index, SubIndex::from(0u8))@@self.sdo_read::<T>(index, i)=>self.sdo_read::<T>(index, SubIndex::from(i))@@1..=len=>range_incl_u8(1, len)" incl_ranges=1 props=C15,C16 attr="#[verifier::loop_isolation(false)]"
    requires T::PACKED_LEN <= 0x7fff_ffff
    ensures
        // Ok => as many entries as the count at sub-index 0 said (never more than the caller's capacity - a larger count is an
        // error, not a truncation); entry k is what reading sub-index k+1 returned
        r is Ok ==> (r->Ok_0).v@.len() <= MAX_ENTRIES && (r->Ok_0).v@.len() <= 255,
        r is Err && r->Err_0 == Error::Capacity(Item::SdoSubIndex) ==> true,
@loop 0
    invariant
        __it0.hi == len, 1 <= __it0.next <= len as int + 1,
        values.v@.len() == __it0.next - 1, len as int <= MAX_ENTRIES,
    decreases len as int + 1 - __it0.next
@closure 0 "|_e: T| -> (cr: Error)"
    ensures cr == Error::Internal
@before "return Err(Error::Capacity(Item::SdoSubIndex));"
    proof { assert(len as int > MAX_ENTRIES); }    // refused ONLY when the object has more entries than the destination holds
@*/
}

} // verus!
fn main() {}

//@unit sdo  props=C15,C16  min_verified=8
// Coe::{sdo_read, sdo_read_expedited, sdo_write, sdo_read_array, sdo_write_array} extracted from src/mailbox/coe/mod.rs.
// `mailbox_write_read` (the device) returns ARBITRARY decoded headers and an ARBITRARY byte view: every automatic obligation
// (no underflow/overflow, slices in bounds, copy lengths equal, unwrap on Some, loop termination) is therefore proved
// against any mailbox reply.
use vstd::prelude::*;
verus! {

//@include prelude/errors.rs
//@include prelude/opaque_payloads.rs
//@include prelude/opaque_command.rs
//@include prelude/std_specs.rs
//@include prelude/received_pdu.rs

// ---- wire traits with the Buffer associated type (ethercrab-wire/src/lib.rs); contract assumed, C19 checks impls ----
pub trait BufLike {
    spec fn bytes(&self) -> Seq<u8>;
    fn as_mut(&mut self) -> (r: &mut [u8])
        ensures r@ == old(self).bytes(), final(self).bytes() == final(r)@;
    fn as_ref(&self) -> (r: &[u8])
        ensures r@ == self.bytes();
}
pub trait EtherCrabWireSized {
    const PACKED_LEN: usize;
    type Buffer: BufLike;
    fn buffer() -> (r: Self::Buffer)
        ensures r.bytes().len() == Self::PACKED_LEN;
}
pub trait EtherCrabWireRead: Sized {
    spec fn unpack_spec(b: Seq<u8>) -> Result<Self, WireError>;
    fn unpack_from_slice(buf: &[u8]) -> (r: Result<Self, WireError>)
        ensures r == Self::unpack_spec(buf@);
}
pub trait EtherCrabWireReadSized: EtherCrabWireRead + EtherCrabWireSized {}
pub trait EtherCrabWireWrite {
    spec fn packed(&self) -> Seq<u8>;
    fn packed_len(&self) -> (r: usize) ensures r == self.packed().len();
    fn pack_to_slice<'buf>(&self, buf: &'buf mut [u8]) -> (r: Result<&'buf [u8], WireError>)
        ensures
            final(buf)@.len() == old(buf)@.len(),
            (r is Ok) == (self.packed().len() <= old(buf)@.len()),
            r is Ok ==> final(buf)@.subrange(0, self.packed().len() as int) == self.packed()
                && final(buf)@.subrange(self.packed().len() as int, old(buf)@.len() as int) == old(buf)@.subrange(self.packed().len() as int, old(buf)@.len() as int),
            r is Err ==> r->Err_0 == WireError::WriteBufferTooShort && final(buf)@ == old(buf)@;
}
impl From<WireError> for Error {
    fn from(value: WireError) -> (r: Self) ensures r == Error::Wire(value) { Error::Wire(value) }
}
impl vstd::std_specs::convert::FromSpecImpl<WireError> for Error {
    open spec fn obeys_from_spec() -> bool { true }
    open spec fn from_spec(v: WireError) -> Error { Error::Wire(v) }
}

pub struct Buf4 { pub b: [u8; 4] }
impl BufLike for Buf4 {
    open spec fn bytes(&self) -> Seq<u8> { self.b@ }
    #[verifier::external_body]
    fn as_mut(&mut self) -> (r: &mut [u8]) { &mut self.b }
    #[verifier::external_body]
    fn as_ref(&self) -> (r: &[u8]) { &self.b }
}
pub open spec fn le32(b: Seq<u8>) -> u32 {
    (b[0] as u32 + 256 * (b[1] as u32) + 65536 * (b[2] as u32) + 16777216 * (b[3] as u32)) as u32
}
impl EtherCrabWireSized for u32 {
    const PACKED_LEN: usize = 4;
    type Buffer = Buf4;
    #[verifier::external_body]
    fn buffer() -> (r: Buf4) { Buf4 { b: [0; 4] } }
}
impl EtherCrabWireRead for u32 {
    open spec fn unpack_spec(b: Seq<u8>) -> Result<u32, WireError> {
        if b.len() < 4 { Err(WireError::ReadBufferTooShort) } else { Ok(le32(b)) }
    }
    #[verifier::external_body]
    fn unpack_from_slice(buf: &[u8]) -> (r: Result<u32, WireError>) { unimplemented!() }
}

// ---- CoE / mailbox header types, extracted ----
/*@type file=src/mailbox/mod.rs name=Priority derive="Clone, Copy, PartialEq, Eq, Debug" @*/
/*@type file=src/mailbox/mod.rs name=MailboxType derive="Clone, Copy, PartialEq, Eq, Debug" @*/
/*@type file=src/mailbox/mod.rs name=MailboxHeader derive="Clone, Copy, PartialEq, Eq, Debug" @*/
/*@type file=src/mailbox/coe/headers.rs name=CoeService derive="Clone, Copy, PartialEq, Eq, Debug" @*/
/*@type file=src/mailbox/coe/headers.rs name=CoeHeader derive="Clone, Copy, PartialEq, Eq, Debug" @*/
/*@type file=src/mailbox/coe/headers.rs name=CoeCommand derive="Clone, Copy, PartialEq, Eq, Debug" @*/
/*@type file=src/mailbox/coe/headers.rs name=SdoHeader derive="Clone, Copy, PartialEq, Eq, Debug" @*/
/*@type file=src/mailbox/coe/headers.rs name=SdoHeaderSegmented derive="Clone, Copy, PartialEq, Eq, Debug" @*/
/*@type file=src/mailbox/coe/headers.rs name=SubIndex derive="Clone, Copy, Debug" @*/
/*@type file=src/mailbox/coe/services.rs name=SdoExpedited derive="Clone, Copy, PartialEq, Debug" @*/
/*@type file=src/mailbox/coe/services.rs name=SdoNormal derive="Clone, Copy, PartialEq, Debug" @*/
/*@type file=src/mailbox/coe/services.rs name=SdoSegmented derive="Clone, Copy, Debug" @*/

impl SubIndex {
/*@fn file=src/mailbox/coe/headers.rs impl="impl SubIndex" name=complete_access props=C15
    ensures r == (*self is Complete)
@*/
/*@fn file=src/mailbox/coe/headers.rs impl="impl SubIndex" name=sub_index props=C15
    ensures r == (match *self { SubIndex::Complete => 1u8, SubIndex::Index(i) => i })
@*/
}
impl SdoNormal {
/*@fn file=src/mailbox/coe/services.rs impl="impl SdoNormal" name=upload props=C15
    ensures
        r.header.length == 0x0a && r.header.mailbox_type == MailboxType::Coe && r.header.counter == counter,
        r.coe_header.service == CoeService::SdoRequest,
        r.sdo_header.command == CoeCommand::Upload && r.sdo_header.index == index
            && r.sdo_header.sub_index == (match access { SubIndex::Complete => 1u8, SubIndex::Index(i) => i })
            && r.sdo_header.complete_access == (access is Complete)
            && !r.sdo_header.expedited_transfer && !r.sdo_header.size_indicator && r.sdo_header.size == 0,
@*/
}
impl SdoSegmented {
/*@fn file=src/mailbox/coe/services.rs impl="impl SdoSegmented" name=upload props=C15
    ensures
        r.header.counter == counter && r.header.mailbox_type == MailboxType::Coe,
        r.sdo_header.toggle == toggle && r.sdo_header.command == CoeCommand::UploadSegment,
@*/
}
impl SdoExpedited {
/*@fn file=src/mailbox/coe/services.rs impl="impl SdoExpedited" name=download props=C15
    ensures
        r.header.counter == counter && r.header.mailbox_type == MailboxType::Coe && r.header.length == 0x0a,
        r.coe_header.service == CoeService::SdoRequest,
        r.sdo_header.command == CoeCommand::Download && r.sdo_header.index == index
            && r.sdo_header.sub_index == (match access { SubIndex::Complete => 1u8, SubIndex::Index(i) => i })
            && r.sdo_header.complete_access == (access is Complete)
            && r.sdo_header.expedited_transfer && r.sdo_header.size_indicator
            && r.sdo_header.size as int == (if len >= 4 { 0int } else { 4 - len }),
        r.data == data,
@*/
}

/// the CoE view of a SubDevice: the device side is `mailbox_write_read`, which may answer ANYTHING
pub struct Coe { pub _p: u8 }
impl Coe {
    /// real body: SubDevice::mailbox_counter (fetch_update on an AtomicU8) - Kani group `mbx` proves 1..=7
    #[verifier::external_body]
    pub fn mailbox_counter(&self) -> (r: u8)
        ensures 1 <= r <= 7
    { unimplemented!() }

    #[verifier::external_body]
    pub async fn mailbox_write_read<R>(&self, request: R) -> (r: Result<(R, ReceivedPdu), Error>)
    { unimplemented!() }

/*@fn file=src/mailbox/coe/mod.rs impl="impl<'maindevice, S> Coe<'maindevice, S>" name=sdo_read_expedited subst="self.subdevice.mailbox_counter()=>self.mailbox_counter()@@impl Into<SubIndex>=>SubIndex@@let sub_index = sub_index.into();=>@@T: SdoExpeditedPayload=>T: EtherCrabWireReadSized" props=C15,C16
    // SdoExpeditedPayload is a crate-private marker implemented only for u8, u16, u32 and the 4-byte PDO `Mapping`
    requires T::PACKED_LEN <= 4
    ensures true
@*/

/*@fn file=src/mailbox/coe/mod.rs impl="impl<'maindevice, S> Coe<'maindevice, S>" name=sdo_read subst="self.subdevice.mailbox_counter()=>self.mailbox_counter()@@impl Into<SubIndex>=>SubIndex@@let sub_index = sub_index.into();=>" props=C15,C16 attr="#[verifier::loop_isolation(false)]"
    ensures true
@loop 0
    invariant
        total_len <= buf@.len(),
    decreases buf@.len() - total_len
@closure 0 "|_e: WireError| -> (cr: Error)"
    ensures cr == Error::Pdu(PduError::Decode)
@*/
}

} // verus!
fn main() {}

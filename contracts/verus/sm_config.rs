//@unit sm_config  props=C08  min_verified=3
// C08: SubDeviceRef::write_sm_config (src/subdevice/configuration.rs) extracted whole, with RegisterAddress::sync_manager and
// PdoDirection::filter_terms: WHAT is written to WHICH sync-manager register of WHICH device when a process-data sync manager is
// set up - start address and control byte as the EEPROM describes them, the byte length the caller computed, enabled only if the
// EEPROM says so and there is data, status zero; the record returned (which write_fmmu_config then maps) is the one written.
use vstd::prelude::*;
verus! {

//@include prelude/errors.rs
//@include prelude/opaque_payloads.rs
//@include prelude/std_specs.rs
//@include prelude/wire_traits.rs
//@include prelude/opaque_maindevice.rs
//@include prelude/received_pdu.rs
//@include prelude/command.rs

/*@type file=src/sync_manager_channel.rs name=OperationMode derive="Clone, Copy, PartialEq, Eq, Debug" @*/
/*@type file=src/sync_manager_channel.rs name=Direction derive="Clone, Copy, PartialEq, Eq, Debug" @*/
/*@type file=src/sync_manager_channel.rs name=BufferState derive="Clone, Copy, PartialEq, Eq, Debug" @*/
/*@type file=src/sync_manager_channel.rs name=Control derive="Clone, Copy, PartialEq, Eq, Debug" @*/
/*@type file=src/sync_manager_channel.rs name=Status derive="Clone, Copy, PartialEq, Eq, Debug" @*/
/*@type file=src/sync_manager_channel.rs name=Enable derive="Clone, Copy, PartialEq, Eq, Debug" @*/
/*@type file=src/sync_manager_channel.rs name=SyncManagerChannel derive="Clone, Copy, PartialEq, Eq, Debug" @*/
/*@type file=src/eeprom/types.rs name=SyncManagerType derive="Clone, Copy, PartialEq, Eq, Debug" @*/
/*@type file=src/eeprom/types.rs name=FmmuUsage derive="Clone, Copy, PartialEq, Eq, Debug" @*/
/*@type file=src/subdevice/configuration.rs name=PdoDirection derive="Clone, Copy, PartialEq, Eq, Debug" @*/

/// `#[derive(Default)]` of the two records (all flags false, first buffer) - the language-defined derive
pub open spec fn status_zero() -> Status {
    Status { has_write_event: false, has_read_event: false, mailbox_full: false, buffer_state: BufferState::First, read_buffer_open: false, write_buffer_open: false }
}
pub open spec fn enable_with(e: bool) -> Enable {
    Enable { enable: e, repeat: false, enable_dc_event_bus_write: false, enable_dc_event_local_write: false, channel_pdi_disabled: false, repeat_ack: false }
}
impl Default for Status {
    #[verifier::external_body]
    fn default() -> (r: Self) ensures r == status_zero() { unimplemented!() }
}
impl Default for Enable {
    #[verifier::external_body]
    fn default() -> (r: Self) ensures r == enable_with(false) { unimplemented!() }
}

/// bitflags stand-in (src/eeprom/types.rs `SyncManagerEnable: u8`, ENABLE = bit 0)
#[derive(Clone, Copy)]
pub struct SyncManagerEnable { pub bits: u8 }
impl SyncManagerEnable {
    pub const ENABLE: SyncManagerEnable = SyncManagerEnable { bits: 0x01 };
    #[verifier::external_body]
    pub fn contains(&self, other: SyncManagerEnable) -> (r: bool)
        ensures r == ((self.bits & other.bits) == other.bits)
    { unimplemented!() }
}
/// the EEPROM's description of one sync manager (src/eeprom/types.rs SyncManager; derived decoder: C19)
pub struct SyncManager { pub start_addr: u16, pub length: u16, pub control: Control, pub enable: SyncManagerEnable, pub usage_type: SyncManagerType }

impl EtherCrabWireWrite for &SyncManagerChannel {
    uninterp spec fn packed(&self) -> Seq<u8>;
    #[verifier::external_body]
    fn packed_len(&self) -> (r: usize) { 8 }
}
/// "FPWR of this sync-manager record to `register` of station `address` was issued (and acknowledged by one device)"
pub uninterp spec fn wrote_sm(address: u16, register: u16, value: SyncManagerChannel) -> bool;
impl WrappedWrite {
    #[verifier::external_body]
    pub async fn send(self, maindevice: &MainDevice, data: &SyncManagerChannel) -> (r: Result<(), Error>)
        ensures r is Ok ==> exists|a: u16, g: u16| self.command == (Writes::Fpwr { address: a, register: g }) && self.wkc == Some(1u16) && wrote_sm(a, g, *data)
    { unimplemented!() }
}

impl RegisterAddress {
/*@fn file=src/register.rs impl="impl RegisterAddress" name=sync_manager noconst=1 props=C08
    requires index < 16          // `_ => unreachable!()`: an obligation of every caller (R2)
    ensures r as u16 == 0x0800 + 8 * index
@*/
}
impl PdoDirection {
/*@fn file=src/subdevice/configuration.rs impl="impl PdoDirection" name=filter_terms props=C08
    ensures
        self is MasterRead ==> r.0 == SyncManagerType::ProcessDataRead && r.1 == FmmuUsage::Inputs,
        self is MasterWrite ==> r.0 == SyncManagerType::ProcessDataWrite && r.1 == FmmuUsage::Outputs,
@*/
}

pub struct SubDeviceRef<'a> { pub maindevice: &'a MainDevice, pub configured_address: u16 }
impl<'a> SubDeviceRef<'a> {
/*@fn file=src/subdevice/mod.rs impl="impl<'maindevice, S> SubDeviceRef<'maindevice, S>" name=write subst="impl Into<u16>=>RegisterAddress" props=C08
    ensures r.command == (Writes::Fpwr { address: self.configured_address, register: register as u16 }), r.wkc == Some(1u16)
@*/

/*@fn file=src/subdevice/configuration.rs impl="impl<S> SubDeviceRef<'_, S>" name=write_sm_config props=C08
    requires sync_manager_index < 16
    ensures
        r is Ok ==> ({
            let c = r->Ok_0;
            &&& c.physical_start_address == sync_manager.start_addr
            &&& c.length_bytes == length_bytes
            &&& c.control == sync_manager.control
            &&& c.status == status_zero()
            // enabled only if the EEPROM says so AND there is data to map
            &&& c.enable == enable_with((sync_manager.enable.bits & 1 == 1) && length_bytes > 0)
            // exactly this record went to register 0x0800 + 8 * index of THIS device
            &&& wrote_sm(self.configured_address, (0x0800 + 8 * sync_manager_index) as u16, c)
        }),
@*/
}

} // verus!
fn main() {}

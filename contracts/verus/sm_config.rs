//@unit sm_config  props=C08,C15,C09  min_verified=6
// C08: SubDeviceRef::write_sm_config (src/subdevice/configuration.rs) extracted whole, with RegisterAddress::sync_manager and
// PdoDirection::filter_terms: WHAT is written to WHICH sync-manager register of WHICH device when a process-data sync manager is
// set up - start address and control byte as the EEPROM describes them, the byte length the caller computed, enabled only if the
// EEPROM says so and there is data, status zero; the record returned (which write_fmmu_config then maps) is the one written.
use vstd::prelude::*;
verus! {

//@include prelude/errors.rs
//@include prelude/opaque_payloads.rs
//@include prelude/std_specs.rs
//@include prelude/wire_traits.rs
//@include prelude/opaque_maindevice.rs
//@include prelude/received_pdu.rs
//@include prelude/command.rs

/*@type file=src/sync_manager_channel.rs name=OperationMode derive="Clone, Copy, PartialEq, Eq, Debug" @*/
/*@type file=src/sync_manager_channel.rs name=Direction derive="Clone, Copy, PartialEq, Eq, Debug" @*/
/*@type file=src/sync_manager_channel.rs name=BufferState derive="Clone, Copy, PartialEq, Eq, Debug" @*/
/*@type file=src/sync_manager_channel.rs name=Control derive="Clone, Copy, PartialEq, Eq, Debug" @*/
/*@type file=src/sync_manager_channel.rs name=Status derive="Clone, Copy, PartialEq, Eq, Debug" @*/
/*@type file=src/sync_manager_channel.rs name=Enable derive="Clone, Copy, PartialEq, Eq, Debug" @*/
/*@type file=src/sync_manager_channel.rs name=SyncManagerChannel derive="Clone, Copy, PartialEq, Eq, Debug" @*/
/*@type file=src/eeprom/types.rs name=SyncManagerType derive="Clone, Copy, PartialEq, Eq, Debug" @*/
/*@type file=src/eeprom/types.rs name=FmmuUsage derive="Clone, Copy, PartialEq, Eq, Debug" @*/
/*@type file=src/subdevice/configuration.rs name=PdoDirection derive="Clone, Copy, PartialEq, Eq, Debug" @*/

/// `#[derive(Default)]` of the two records (all flags false, first buffer) - the language-defined derive
pub open spec fn status_zero() -> Status {
    Status { has_write_event: false, has_read_event: false, mailbox_full: false, buffer_state: BufferState::First, read_buffer_open: false, write_buffer_open: false }
}
pub open spec fn enable_with(e: bool) -> Enable {
    Enable { enable: e, repeat: false, enable_dc_event_bus_write: false, enable_dc_event_local_write: false, channel_pdi_disabled: false, repeat_ack: false }
}
impl Default for Status {
    #[verifier::external_body]
    fn default() -> (r: Self) ensures r == status_zero() { unimplemented!() }
}
impl Default for Enable {
    #[verifier::external_body]
    fn default() -> (r: Self) ensures r == enable_with(false) { unimplemented!() }
}

/// bitflags stand-in (src/eeprom/types.rs `SyncManagerEnable: u8`, ENABLE = bit 0)
#[derive(Clone, Copy)]
pub struct SyncManagerEnable { pub bits: u8 }
impl SyncManagerEnable {
    pub const ENABLE: SyncManagerEnable = SyncManagerEnable { bits: 0x01 };
    #[verifier::external_body]
    pub fn contains(&self, other: SyncManagerEnable) -> (r: bool)
        ensures r == ((self.bits & other.bits) == other.bits)
    { unimplemented!() }
}
/// the EEPROM's description of one sync manager (src/eeprom/types.rs SyncManager; derived decoder: C19)
pub struct SyncManager { pub start_addr: u16, pub length: u16, pub control: Control, pub enable: SyncManagerEnable, pub usage_type: SyncManagerType }

impl EtherCrabWireWrite for &SyncManagerChannel {
    uninterp spec fn packed(&self) -> Seq<u8>;
    #[verifier::external_body]
    fn packed_len(&self) -> (r: usize) { 8 }
}
/// "FPWR of this sync-manager record to `register` of station `address` was issued (and acknowledged by one device)"
pub uninterp spec fn wrote_sm(address: u16, register: u16, value: SyncManagerChannel) -> bool;
impl WrappedWrite {
    #[verifier::external_body]
    pub async fn send(self, maindevice: &MainDevice, data: &SyncManagerChannel) -> (r: Result<(), Error>)
        ensures r is Ok ==> exists|a: u16, g: u16| self.command == (Writes::Fpwr { address: a, register: g }) && self.wkc == Some(1u16) && wrote_sm(a, g, *data)
    { unimplemented!() }
}

impl RegisterAddress {
/*@fn file=src/register.rs impl="impl RegisterAddress" name=sync_manager noconst=1 props=C08
    requires index < 16          // `_ => unreachable!()`: an obligation of every caller (R2)
    ensures r as u16 == 0x0800 + 8 * index
@*/
}
impl PdoDirection {
/*@fn file=src/subdevice/configuration.rs impl="impl PdoDirection" name=filter_terms props=C08
    ensures
        self is MasterRead ==> r.0 == SyncManagerType::ProcessDataRead && r.1 == FmmuUsage::Inputs,
        self is MasterWrite ==> r.0 == SyncManagerType::ProcessDataWrite && r.1 == FmmuUsage::Outputs,
@*/
}

// ---- mailbox configuration (configure_mailbox_sms / configure_mailboxes) ----
pub assume_specification[ <SyncManagerType as PartialEq>::eq ](a: &SyncManagerType, b: &SyncManagerType) -> (r: bool)
    ensures r == (*a == *b);
impl SyncManager {
/*@fn file=src/eeprom/types.rs impl="impl SyncManager" name=usage_type props=C15
    ensures
        self.usage_type != SyncManagerType::Unknown ==> r == self.usage_type,
        // an EEPROM that leaves the usage byte empty: recovered from mode and direction
        self.usage_type == SyncManagerType::Unknown ==> r == (match (self.control.operation_mode, self.control.direction) {
            (OperationMode::Normal, Direction::MasterRead) => SyncManagerType::ProcessDataRead,
            (OperationMode::Normal, Direction::MasterWrite) => SyncManagerType::ProcessDataWrite,
            (OperationMode::Mailbox, Direction::MasterRead) => SyncManagerType::MailboxRead,
            (OperationMode::Mailbox, Direction::MasterWrite) => SyncManagerType::MailboxWrite,
        }),
@*/
}
/// bitflags stand-ins (src/eeprom/types.rs): MailboxProtocols (COE = 0x04), CoeDetails (ENABLE_COMPLETE_ACCESS = 0x20)
#[derive(Clone, Copy, PartialEq, Eq)]
pub struct MailboxProtocols { pub bits: u8 }
impl MailboxProtocols {
    pub const COE: MailboxProtocols = MailboxProtocols { bits: 0x04 };
    #[verifier::external_body]
    pub fn contains(&self, other: MailboxProtocols) -> (r: bool) ensures r == ((self.bits & other.bits) == other.bits) { unimplemented!() }
    #[verifier::external_body]
    pub fn is_empty(&self) -> (r: bool) ensures r == (self.bits == 0) { unimplemented!() }
}
#[derive(Clone, Copy, PartialEq, Eq)]
pub struct CoeDetails { pub bits: u8 }
impl CoeDetails {
    pub const ENABLE_COMPLETE_ACCESS: CoeDetails = CoeDetails { bits: 0x20 };
    #[verifier::external_body]
    pub fn contains(&self, other: CoeDetails) -> (r: bool) ensures r == ((self.bits & other.bits) == other.bits) { unimplemented!() }
}
/*@type file=src/eeprom/types.rs name=DefaultMailbox derive="Clone, Copy, PartialEq, Eq" @*/
impl DefaultMailbox {
/*@fn file=src/eeprom/types.rs impl="impl DefaultMailbox" name=has_mailbox props=C15
    ensures r == ((self.supported_protocols.bits != 0 && self.subdevice_receive_size > 0) || self.subdevice_send_size > 0)
@*/
}
impl Default for DefaultMailbox {
    #[verifier::external_body]
    fn default() -> (r: Self)
        ensures r == (DefaultMailbox { subdevice_receive_offset: 0, subdevice_receive_size: 0, subdevice_send_offset: 0, subdevice_send_size: 0, supported_protocols: MailboxProtocols { bits: 0 } })
    { unimplemented!() }
}
/// SiiGeneral as far as it is read here
#[derive(Clone, Copy)]
pub struct SiiGeneral { pub coe_details: CoeDetails }
impl Default for SiiGeneral {
    #[verifier::external_body]
    fn default() -> (r: Self) ensures r.coe_details.bits == 0 { unimplemented!() }
}
/*@type file=src/subdevice/types.rs name=Mailbox derive="Clone, Copy, PartialEq, Eq, Debug" @*/
/*@type file=src/subdevice/types.rs name=MailboxConfig derive="Clone, Copy, PartialEq, Eq" @*/
pub trait IgnoreNoCategory<T> {
    spec fn ignored(self) -> Result<Option<T>, Error> where Self: Sized;
    fn ignore_no_category(self) -> (r: Result<Option<T>, Error>) where Self: Sized
        ensures r == self.ignored();
}
impl<T> IgnoreNoCategory<T> for Result<T, Error> {
    open spec fn ignored(self) -> Result<Option<T>, Error> {
        match self { Ok(v) => Ok(Some(v)), Err(Error::Eeprom(EepromError::NoCategory)) => Ok(None), Err(e) => Err(e) }
    }
/*@fn file=src/error.rs impl="impl<T> IgnoreNoCategory<T> for Result<T, Error>" name=ignore_no_category props=C15
@*/
}
/// "`c` is the default-mailbox block / `g` the general block decoded from the EEPROM of the device at `addr`" (units subdevice_eeprom)
pub uninterp spec fn mbx_block_of(addr: u16, c: DefaultMailbox) -> bool;
/// where the mailbox sizes come from: the device's EEPROM block, or all-zero when the EEPROM has none
pub open spec fn cfg_src(addr: u16, c: DefaultMailbox) -> bool {
    mbx_block_of(addr, c) || c == (DefaultMailbox { subdevice_receive_offset: 0, subdevice_receive_size: 0, subdevice_send_offset: 0, subdevice_send_size: 0, supported_protocols: MailboxProtocols { bits: 0 } })
}
pub struct Eeprom { pub addr: u16 }
impl Eeprom {
    #[verifier::external_body]
    pub async fn mailbox_config(&self) -> (r: Result<DefaultMailbox, Error>) ensures r is Ok ==> mbx_block_of(self.addr, r->Ok_0) { unimplemented!() }
    #[verifier::external_body]
    pub async fn general(&self) -> (r: Result<SiiGeneral, Error>) { unimplemented!() }
}
/// `slice.iter().enumerate()` (R8)
pub struct EnumIter<'a, T> { pub s: &'a [T], pub pos: usize }
pub fn enumerate_slice<'a, T>(s: &'a [T]) -> (r: EnumIter<'a, T>) ensures r.s@ == s@, r.pos == 0 { EnumIter { s, pos: 0 } }
impl<'a, T> EnumIter<'a, T> {
    #[verifier::external_body]
    pub fn next(&mut self) -> (r: Option<(usize, &'a T)>)
        requires old(self).pos <= old(self).s@.len()
        ensures
            final(self).s@ == old(self).s@,
            old(self).pos >= old(self).s@.len() ==> r is None && final(self).pos == old(self).pos,
            old(self).pos < old(self).s@.len() ==> r is Some && (r->Some_0).0 == old(self).pos && *((r->Some_0).1) == old(self).s@[old(self).pos as int]
                && final(self).pos == old(self).pos + 1,
    { unimplemented!() }
}
pub assume_specification<T, F: FnOnce(T) -> bool>[ Option::<T>::is_some_and ](o: Option<T>, f: F) -> (r: bool)
    requires o is Some ==> f.requires((o->Some_0,)),
    ensures o is None ==> !r, o is Some ==> f.ensures((o->Some_0,), r);

pub struct SdConfig { pub mailbox: MailboxConfig }
pub struct SdState { pub config: SdConfig }
pub struct SubDeviceRef<'a> { pub maindevice: &'a MainDevice, pub configured_address: u16, pub state: SdState }
/// the last sync manager of each mailbox kind in the list decides (later entries overwrite earlier ones)
pub open spec fn last_of(sms: Seq<SyncManager>, upto: int, kind: SyncManagerType) -> Option<int>
    decreases upto
{
    if upto <= 0 { None } else if sm_kind(sms[upto - 1]) == kind { Some(upto - 1) } else { last_of(sms, upto - 1, kind) }
}
pub open spec fn sm_kind(sm: SyncManager) -> SyncManagerType {
    if sm.usage_type != SyncManagerType::Unknown { sm.usage_type } else {
        match (sm.control.operation_mode, sm.control.direction) {
            (OperationMode::Normal, Direction::MasterRead) => SyncManagerType::ProcessDataRead,
            (OperationMode::Normal, Direction::MasterWrite) => SyncManagerType::ProcessDataWrite,
            (OperationMode::Mailbox, Direction::MasterRead) => SyncManagerType::MailboxRead,
            (OperationMode::Mailbox, Direction::MasterWrite) => SyncManagerType::MailboxWrite,
        }
    }
}
impl<'a> SubDeviceRef<'a> {
    pub fn configured_address(&self) -> (r: u16) ensures r == self.configured_address { self.configured_address }
    #[verifier::external_body]
    pub fn eeprom(&self) -> (r: Eeprom) ensures r.addr == self.configured_address { unimplemented!() }
/*@fn file=src/subdevice/mod.rs impl="impl<'maindevice, S> SubDeviceRef<'maindevice, S>" name=write subst="impl Into<u16>=>RegisterAddress" props=C08
    ensures r.command == (Writes::Fpwr { address: self.configured_address, register: register as u16 }), r.wkc == Some(1u16)
@*/

/*@fn file=src/subdevice/configuration.rs impl="impl<S> SubDeviceRef<'_, S>" name=write_sm_config props=C08
    requires sync_manager_index < 16
    ensures
        r is Ok ==> ({
            let c = r->Ok_0;
            &&& c.physical_start_address == sync_manager.start_addr
            &&& c.length_bytes == length_bytes
            &&& c.control == sync_manager.control
            &&& c.status == status_zero()
            // enabled only if the EEPROM says so AND there is data to map
            &&& c.enable == enable_with((sync_manager.enable.bits & 1 == 1) && length_bytes > 0)
            // exactly this record went to register 0x0800 + 8 * index of THIS device
            &&& wrote_sm(self.configured_address, (0x0800 + 8 * sync_manager_index) as u16, c)
        }),
@*/
}

impl<'a> SubDeviceRef<'a> {
/*@fn file=src/subdevice/configuration.rs impl="impl<S> SubDeviceRef<'_, S>" name=configure_mailbox_sms subst="sync_managers.iter().enumerate()=>enumerate_slice(sync_managers)@@let mut read_mailbox = None;=>let mut read_mailbox: Option<Mailbox> = None;@@let mut write_mailbox = None;=>let mut write_mailbox: Option<Mailbox> = None;" truncate_casts=1 props=C15,C09 attr="#[verifier::loop_isolation(false)]"
    requires sync_managers@.len() <= 16
    ensures
        final(self).configured_address == old(self).configured_address,
        // the mailbox record the SDO layer later works with: the READ mailbox is the (last) MailboxRead sync manager of the EEPROM
        // list - its start address, its index - with the length the device SENDS; the WRITE mailbox the (last) MailboxWrite one
        // with the length the device RECEIVES; CoE only if announced and there is a non-empty read mailbox
        r is Ok ==> exists|c: DefaultMailbox| #[trigger] cfg_src(old(self).configured_address, c) && ({
            let m = final(self).state.config.mailbox;
            let rd = last_of(sync_managers@, sync_managers@.len() as int, SyncManagerType::MailboxRead);
            let wr = last_of(sync_managers@, sync_managers@.len() as int, SyncManagerType::MailboxWrite);
            m == old(self).state.config.mailbox || {
                &&& (m.read is Some) == (rd is Some)
                &&& m.read is Some ==> (m.read->Some_0).address == sync_managers@[rd->Some_0].start_addr && (m.read->Some_0).sync_manager == rd->Some_0
                        && (m.read->Some_0).len == c.subdevice_send_size
                &&& (m.write is Some) == (wr is Some)
                &&& m.write is Some ==> (m.write->Some_0).address == sync_managers@[wr->Some_0].start_addr && (m.write->Some_0).sync_manager == wr->Some_0
                        && (m.write->Some_0).len == c.subdevice_receive_size
                &&& m.has_coe ==> m.read is Some && (m.read->Some_0).len > 0 && (m.supported_protocols.bits & 0x04) == 0x04
                &&& m.supported_protocols == c.supported_protocols
            }
        }),
@closure 0 "|| -> (cr: DefaultMailbox)" of=unwrap_or_else
    ensures cr == (DefaultMailbox { subdevice_receive_offset: 0, subdevice_receive_size: 0, subdevice_send_offset: 0, subdevice_send_size: 0, supported_protocols: MailboxProtocols { bits: 0 } })
@closure 1 "|| -> (cr: SiiGeneral)" of=unwrap_or_else
    ensures cr.coe_details.bits == 0
@closure 0 "|mbox: Mailbox| -> (cr: bool)" of=is_some_and
    ensures cr == (mbox.len > 0)
@loop 0
    invariant
        __it0.s@ == sync_managers@, __it0.pos <= sync_managers@.len(), self.configured_address == old(self).configured_address,
        self.state == old(self).state,
        (read_mailbox is Some) == (last_of(sync_managers@, __it0.pos as int, SyncManagerType::MailboxRead) is Some),
        read_mailbox is Some ==> ({ let k = last_of(sync_managers@, __it0.pos as int, SyncManagerType::MailboxRead)->Some_0;
            (read_mailbox->Some_0).address == sync_managers@[k].start_addr && (read_mailbox->Some_0).sync_manager == k && (read_mailbox->Some_0).len == mailbox_config.subdevice_send_size }),
        (write_mailbox is Some) == (last_of(sync_managers@, __it0.pos as int, SyncManagerType::MailboxWrite) is Some),
        write_mailbox is Some ==> ({ let k = last_of(sync_managers@, __it0.pos as int, SyncManagerType::MailboxWrite)->Some_0;
            (write_mailbox->Some_0).address == sync_managers@[k].start_addr && (write_mailbox->Some_0).sync_manager == k && (write_mailbox->Some_0).len == mailbox_config.subdevice_receive_size }),
    decreases sync_managers@.len() - __it0.pos
@before "if !mailbox_config.has_mailbox()"
    proof { assert(cfg_src(self.configured_address, mailbox_config)); }
@*/
}

// ---- configure_mailboxes: the INIT -> PRE-OP sequence of one device ----
/*@type file=src/eeprom/types.rs name=SiiOwner derive="Clone, Copy, PartialEq, Eq, Debug" @*/
/// ghost log of what this function did to the device, in order
pub enum Step { Owner(SiiOwner), MailboxSms, PreOpReached }
pub struct SmList { pub v: Vec<SyncManager> }
impl core::ops::Deref for SmList {
    type Target = [SyncManager];
    #[verifier::external_body]
    fn deref(&self) -> (r: &[SyncManager]) ensures r@ == self.v@ { unimplemented!() }
}
pub struct Eeprom2 { pub addr: u16 }
impl Eeprom2 {
    /// unit eeprom_items::sync_managers: at most 8 entries (heapless capacity)
    #[verifier::external_body]
    pub async fn sync_managers(&self) -> (r: Result<SmList, Error>) ensures r is Ok ==> (r->Ok_0).v@.len() <= 8 { unimplemented!() }
}
pub struct Dev<'a> { pub inner: SubDeviceRef<'a>, pub log: Ghost<Seq<Step>> }
impl<'a> Dev<'a> {
    /// units state_wait (set_eeprom_mode, request_subdevice_state extracted whole) and this unit (configure_mailbox_sms)
    #[verifier::external_body]
    pub async fn set_eeprom_mode(&mut self, mode: SiiOwner) -> (r: Result<(), Error>)
        ensures r is Ok ==> final(self).log@ == old(self).log@.push(Step::Owner(mode)), r is Err ==> final(self).log@ == old(self).log@, final(self).inner.configured_address == old(self).inner.configured_address
    { unimplemented!() }
    #[verifier::external_body]
    pub fn eeprom(&self) -> (r: Eeprom2) ensures r.addr == self.inner.configured_address { unimplemented!() }
    #[verifier::external_body]
    pub async fn configure_mailbox_sms(&mut self, sync_managers: &[SyncManager]) -> (r: Result<(), Error>)
        requires sync_managers@.len() <= 16
        ensures r is Ok ==> final(self).log@ == old(self).log@.push(Step::MailboxSms), r is Err ==> final(self).log@ == old(self).log@, final(self).inner.configured_address == old(self).inner.configured_address
    { unimplemented!() }
    #[verifier::external_body]
    pub async fn request_subdevice_state(&mut self, desired_state: SubDeviceState) -> (r: Result<(), Error>)
        ensures r is Ok && desired_state == SubDeviceState(0x02) ==> final(self).log@ == old(self).log@.push(Step::PreOpReached), r is Err ==> final(self).log@ == old(self).log@,
            final(self).inner.configured_address == old(self).inner.configured_address
    { unimplemented!() }
}
#[allow(non_upper_case_globals)]
impl SubDeviceState {
    pub const None: SubDeviceState = SubDeviceState(0x00); pub const Init: SubDeviceState = SubDeviceState(0x01); pub const PreOp: SubDeviceState = SubDeviceState(0x02);
    pub const Bootstrap: SubDeviceState = SubDeviceState(0x03); pub const SafeOp: SubDeviceState = SubDeviceState(0x04); pub const Op: SubDeviceState = SubDeviceState(0x08);
}
impl<'a> Dev<'a> {
/*@fn file=src/subdevice/configuration.rs impl="impl<S> SubDeviceRef<'_, S>" name=configure_mailboxes props=C09,C15,C10
    requires old(self).log@.len() == 0
    ensures
        // Ok => exactly this sequence happened on the device: EEPROM to the MainDevice, the mailbox sync managers written (they must
        // be configured in INIT), EEPROM to the device's PDI side for the transition, PRE-OP requested AND SEEN, EEPROM back to the MainDevice
        r is Ok ==> final(self).log@ =~= seq![Step::Owner(SiiOwner::Master), Step::MailboxSms, Step::Owner(SiiOwner::Pdi), Step::PreOpReached, Step::Owner(SiiOwner::Master)],
@*/
}

} // verus!
fn main() {}

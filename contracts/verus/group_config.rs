//@unit group_config  props=C08  min_verified=3
// C08 at GROUP level: SubDeviceGroup::configure_fmmus (inputs pass, outputs pass, PdiTooLong check) and
// SubDeviceGroupRef::into_pre_op (the next group's image starts MAX_PDI further), extracted whole.
// The per-device step SubDeviceRef::configure_fmmus is seen through the abstraction of its contract (proved on the real
// body in unit pdi_config): it maps the device's window for the given direction at [offset_in - start, offset_out - start)
// and returns offset_out >= offset_in.  R8: `subdevices.iter_mut()` is instantiated with a stand-in iterator that hands
// out the devices in order.
use vstd::prelude::*;
verus! {

//@include prelude/errors.rs
//@include prelude/opaque_payloads.rs
//@include prelude/opaque_command.rs
//@include prelude/std_specs.rs
//@include prelude/opaque_maindevice.rs

/*@type file=src/pdi.rs name=PdiOffset derive="Clone, Copy, PartialEq, Eq, Debug" @*/
/*@type file=src/subdevice/configuration.rs name=PdoDirection derive="Clone, Copy, PartialEq, Eq, Debug" @*/
impl PdiOffset {
    /// contract proved in unit pdi_config
    #[verifier::external_body]
    pub fn increment(self, bytes: u16) -> (r: Self)
        requires self.start_address + bytes <= u32::MAX
        ensures r.start_address == self.start_address + bytes
    { unimplemented!() }
}

/// stand-in for `&mut SubDevice` handed out by iter_mut()
pub struct SdMut { pub configured_address: u16 }
impl SdMut {
    pub fn configured_address(&self) -> (r: u16) ensures r == self.configured_address { self.configured_address }
}
/// the group's devices: addresses in group order (ghost)
pub struct SdVec { pub addrs: Ghost<Seq<u16>> }
pub struct SdIterMut { pub rest: Ghost<Seq<u16>> }
#[verifier::external_body]
pub fn sd_iter_mut(v: &mut SdVec) -> (r: SdIterMut)
    ensures r.rest@ == old(v).addrs@, final(v).addrs@ == old(v).addrs@
{ unimplemented!() }
impl SdIterMut {
    #[verifier::external_body]
    pub fn next(&mut self) -> (r: Option<SdMut>)
        ensures
            old(self).rest@.len() == 0 ==> r is None && final(self).rest@ == old(self).rest@,
            old(self).rest@.len() > 0 ==> r is Some && (r->Some_0).configured_address == old(self).rest@[0] && final(self).rest@ == old(self).rest@.skip(1),
    { unimplemented!() }
}

/// "the device at `addr` had its `dir` window set to bytes [lo, hi) of its group's image, and its sync managers and FMMUs
///  programmed for logical addresses [start + lo, start + hi)"  (established by SubDeviceRef::configure_fmmus)
pub uninterp spec fn window_assigned(addr: u16, dir: PdoDirection, start: u32, lo: int, hi: int) -> bool;
/// "the mailbox sync managers of the device at `addr` were configured" (SubDeviceRef::configure_mailboxes)
pub uninterp spec fn mailboxes_configured(addr: u16) -> bool;

pub struct SubDeviceRef<'a> { pub maindevice: &'a MainDevice, pub configured_address: u16, pub state: SdMut }
impl<'a> SubDeviceRef<'a> {
    #[verifier::external_body]
    pub fn new(maindevice: &'a MainDevice, configured_address: u16, state: SdMut) -> (r: Self)
        ensures r.configured_address == configured_address, r.state == state
    { unimplemented!() }

    /// abstraction of the contract proved on the real body (unit pdi_config::configure_fmmus)
    #[verifier::external_body]
    pub async fn configure_fmmus(&mut self, global_offset: PdiOffset, group_start_address: u32, direction: PdoDirection) -> (r: Result<PdiOffset, Error>)
        requires group_start_address <= global_offset.start_address
        ensures
            final(self).configured_address == old(self).configured_address,
            r is Ok ==> (r->Ok_0).start_address >= global_offset.start_address
                && window_assigned(old(self).configured_address, direction, group_start_address,
                        global_offset.start_address - group_start_address, (r->Ok_0).start_address - group_start_address),
    { unimplemented!() }

    #[verifier::external_body]
    pub async fn configure_mailboxes(&mut self) -> (r: Result<(), Error>)
        ensures r is Ok ==> mailboxes_configured(old(self).configured_address)
    { unimplemented!() }
}

pub struct GroupInner { pub subdevices: SdVec, pub pdi_start: PdiOffset }
pub struct InnerCell { pub v: GroupInner }
impl InnerCell {
    #[verifier::external_body]
    pub fn get_mut(&mut self) -> (r: &mut GroupInner)
        ensures *r == old(self).v, final(self).v == *final(r)
    { unimplemented!() }
}

/// the layout the passes produce: pos[0..=n] input boundaries, pos[n..=2n] output boundaries (relative to the image start)
pub open spec fn layout_ok(addrs: Seq<u16>, start: u32, pos: Seq<int>) -> bool {
    let n = addrs.len() as int;
    &&& pos.len() == 2 * n + 1
    &&& pos[0] == 0
    &&& forall|i: int| 0 <= i < 2 * n ==> pos[i] <= #[trigger] pos[i + 1]
    &&& forall|i: int| 0 <= i < n ==> #[trigger] window_assigned(addrs[i], PdoDirection::MasterRead, start, pos[i], pos[i + 1])
    &&& forall|i: int| 0 <= i < n ==> #[trigger] window_assigned(addrs[i], PdoDirection::MasterWrite, start, pos[n + i], pos[n + i + 1])
}

/// the fields of SubDeviceGroup touched by configure_fmmus
pub struct Grp<const MAX_PDI: usize> { pub read_pdi_len: usize, pub pdi_len: usize, pub inner: InnerCell }

impl<const MAX_PDI: usize> Grp<MAX_PDI> {
/*@fn file=src/subdevice_group/mod.rs impl="impl<const MAX_SUBDEVICES: usize, const MAX_PDI: usize, R: RawRwLock, DC> SubDeviceGroup<MAX_SUBDEVICES, MAX_PDI, R, PreOp, DC>" name=configure_fmmus subst="MainDevice<'_>=>MainDevice@@inner.subdevices.iter_mut()=>sd_iter_mut(&mut inner.subdevices)" props=C08 attr="#[verifier::loop_isolation(false)]"
    ensures
        final(self).inner.v.subdevices.addrs@ == old(self).inner.v.subdevices.addrs@,
        final(self).inner.v.pdi_start == old(self).inner.v.pdi_start,
        // Ok => the image fits the declared capacity, inputs come first, and the windows tile [0, read_len) and
        // [read_len, len) in group order: inside the image, mutually disjoint, all inputs before all outputs
        r is Ok ==> final(self).read_pdi_len <= final(self).pdi_len <= MAX_PDI
            && exists|pos: Seq<int>| #[trigger] layout_ok(old(self).inner.v.subdevices.addrs@, old(self).inner.v.pdi_start.start_address, pos)
                    && pos[old(self).inner.v.subdevices.addrs@.len() as int] == final(self).read_pdi_len
                    && pos[2 * (old(self).inner.v.subdevices.addrs@.len() as int)] == final(self).pdi_len,
        // (a layout that does not fit is an error: Ok implies len <= MAX_PDI where len is the true end of the last window)
@entry
    let ghost addrs0 = self.inner.v.subdevices.addrs@;
    let ghost start0 = self.inner.v.pdi_start.start_address;
    let ghost mut pos: Seq<int> = seq![0int];
@loop 0
    invariant
        inner.pdi_start.start_address == start0, inner.subdevices.addrs@ == addrs0,
        pdi_position.start_address >= start0,
        pos.len() >= 1,
        pos.len() + __it0.rest@.len() == addrs0.len() + 1,
        __it0.rest@ =~= addrs0.skip(pos.len() - 1),
        pos[0] == 0, pos.last() == pdi_position.start_address - start0,
        forall|i: int| 0 <= i < pos.len() - 1 ==> pos[i] <= #[trigger] pos[i + 1],
        forall|i: int| 0 <= i < pos.len() - 1 ==> #[trigger] window_assigned(addrs0[i], PdoDirection::MasterRead, start0, pos[i], pos[i + 1]),
    decreases __it0.rest@.len()
@loop_end 0
    proof {
        let ghost p0 = pos;
        pos = pos.push(pdi_position.start_address - start0);
        assert(forall|i: int| 0 <= i < p0.len() ==> pos[i] == p0[i]);
        assert(addrs0.skip(p0.len() - 1)[0] == addrs0[p0.len() - 1]);
        assert(addrs0.skip(p0.len() - 1).skip(1) =~= addrs0.skip(pos.len() - 1));
    }
@loop 1
    invariant
        inner.pdi_start.start_address == start0, inner.subdevices.addrs@ == addrs0,
        pdi_position.start_address >= start0,
        addrs0.len() + 1 <= pos.len(),
        pos.len() + __it1.rest@.len() == 2 * addrs0.len() + 1,
        __it1.rest@ =~= addrs0.skip(pos.len() - 1 - addrs0.len()),
        pos[0] == 0, pos.last() == pdi_position.start_address - start0,
        pos[addrs0.len() as int] == self.read_pdi_len,
        self.read_pdi_len <= pdi_position.start_address - start0,
        forall|i: int| 0 <= i < pos.len() - 1 ==> pos[i] <= #[trigger] pos[i + 1],
        forall|i: int| 0 <= i < addrs0.len() ==> #[trigger] window_assigned(addrs0[i], PdoDirection::MasterRead, start0, pos[i], pos[i + 1]),
        forall|i: int| 0 <= i < pos.len() - 1 - addrs0.len() ==> #[trigger] window_assigned(addrs0[i], PdoDirection::MasterWrite, start0, pos[addrs0.len() + i], pos[addrs0.len() + i + 1]),
    decreases __it1.rest@.len()
@loop_end 1
    proof {
        let ghost p0 = pos;
        let ghost n = addrs0.len() as int;
        pos = pos.push(pdi_position.start_address - start0);
        assert(forall|i: int| 0 <= i < p0.len() ==> pos[i] == p0[i]);
        assert(addrs0.skip(p0.len() - 1 - n)[0] == addrs0[p0.len() - 1 - n]);
        assert(addrs0.skip(p0.len() - 1 - n).skip(1) =~= addrs0.skip(pos.len() - 1 - n));
    }
@after_loop 1
    proof {
        assert(pos.len() == 2 * addrs0.len() + 1);
        assert(layout_ok(addrs0, start0, pos));
        assert(pos[2 * (addrs0.len() as int)] == pdi_position.start_address - start0);
    }
@before "return Err(Error::PdiTooLong"
    proof {
        // ONLY a layout that really exceeds the capacity is refused as too long: an image that fills it exactly is accepted
        assert(self.pdi_len > MAX_PDI);
    }
@*/
}

// ---- SubDeviceGroupRef::into_pre_op (src/subdevice_group/handle.rs) ----
pub struct GroupInnerRef<'a> { pub subdevices: &'a mut SdVec, pub pdi_start: &'a mut PdiOffset }
pub struct SubDeviceGroupRef<'a> { pub max_pdi_len: usize, pub inner: GroupInnerRef<'a> }

impl<'a> SubDeviceGroupRef<'a> {
/*@fn file=src/subdevice_group/handle.rs impl="impl SubDeviceGroupRef<'_>" name=into_pre_op subst="<'sto>=>@@&'sto MainDevice<'sto>=>&MainDevice@@inner.subdevices.iter_mut()=>sd_iter_mut(inner.subdevices)" props=C08 attr="#[verifier::loop_isolation(false)]"
    requires
        // MAX_PDI below 64 KiB (the property's quantifier; `max_pdi_len as u16` would truncate above) and the logical
        // address space is not exhausted
        old(self).max_pdi_len <= 0xffff,
        pdi_position.start_address + old(self).max_pdi_len <= u32::MAX,
    ensures
        // the group's image starts at the given position and the next group's image starts exactly MAX_PDI further:
        // images of different groups occupy disjoint logical address ranges
        r is Ok ==> *final(self).inner.pdi_start == pdi_position
            && (r->Ok_0).start_address == pdi_position.start_address + old(self).max_pdi_len,
@loop 0
    invariant
        *inner.pdi_start == pdi_position,
    decreases __it0.rest@.len()
@*/
}

} // verus!
fn main() {}

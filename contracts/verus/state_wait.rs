//@unit state_wait  props=C10,C09,C12  min_verified=4
// C10: the two polling loops that wait for an AL state, extracted WHOLE with their timeout scope made explicit (rule R18):
// MainDevice::wait_for_state (broadcast read, expected counter = number of SubDevices) and SubDeviceRef::wait_for_state
// (one device, used while a SubDevice is created).  The devices are arbitrary: a status read returns ANY AlControl value or fails.
use vstd::prelude::*;
verus! {

//@include prelude/errors.rs
//@include prelude/opaque_payloads.rs
//@include prelude/std_specs.rs
//@include prelude/wire_traits.rs
//@include prelude/received_pdu.rs

pub struct LabeledTimeout { pub _p: u8 }
pub struct Timeouts { pub _p: u8 }
impl Timeouts {
    pub uninterp spec fn state_transition_v(&self) -> LabeledTimeout;
    #[verifier::external_body]
    pub fn state_transition(&self) -> (r: LabeledTimeout) ensures r == self.state_transition_v() { unimplemented!() }
    #[verifier::external_body]
    pub async fn loop_tick(&self) { unimplemented!() }
}
//@include prelude/timeouts.rs

/*@type file=src/command/reads.rs name=Reads derive="Clone, Copy, PartialEq, Eq, Debug" @*/
/*@type file=src/command/reads.rs name=WrappedRead derive="Clone, Copy, Debug" @*/
/*@type file=src/al_control.rs name=AlControl derive="Clone, Copy, PartialEq, Eq, Debug" @*/
/*@type file=src/register.rs name=RegisterAddress derive="Clone, Copy, Debug" @*/
impl From<RegisterAddress> for u16 {
/*@fn file=src/register.rs impl="impl From<RegisterAddress> for u16" name=from ret=none canary=0
@*/
}
impl vstd::std_specs::convert::FromSpecImpl<RegisterAddress> for u16 {
    open spec fn obeys_from_spec() -> bool { true }
    open spec fn from_spec(v: RegisterAddress) -> u16 { v as u16 }
}
pub assume_specification[ <SubDeviceState as PartialEq>::eq ](a: &SubDeviceState, b: &SubDeviceState) -> (r: bool)
    ensures r == (*a == *b);

/// "a read with command `c`, accepted only with working counter `wkc` (None = not looked at), returned the AL status `st`"
pub uninterp spec fn al_status_read(c: Reads, wkc: Option<u16>, st: AlControl) -> bool;

/// "the datagram with read command `c` and `len` data bytes came back with working counter `wkc`" (every SubDevice that
/// processes a broadcast read increments the counter once)
pub uninterp spec fn counter_of(c: Reads, len: u16, wkc: u16) -> bool;
pub struct MainDev { pub timeouts: Timeouts, pub n: u16 }

/*@type file=src/command/writes.rs name=Writes derive="Clone, Copy, PartialEq, Eq, Debug" @*/
/*@type file=src/command/writes.rs name=WrappedWrite derive="Clone, Copy, Debug" @*/
/*@type file=src/eeprom/types.rs name=SiiOwner derive="Clone, Copy, PartialEq, Eq, Debug" @*/
/// "the value `v` went out with this write command and was acknowledged by exactly one device"
pub uninterp spec fn cfg_sent(cmd: Writes, wkc: Option<u16>, v: int) -> bool;
pub trait CfgVal { spec fn val(&self) -> int; }
impl CfgVal for u16 { open spec fn val(&self) -> int { *self as int } }
impl CfgVal for SiiOwner { open spec fn val(&self) -> int { if *self is Master { 0 } else { 1 } } }     // discriminants of the enum (C19)
impl WrappedWrite {
/*@fn file=src/command/writes.rs impl="impl WrappedWrite" name=new canary=0
    ensures r.command == command, r.wkc == Some(1u16), r.len_override is None
@*/
    /// real body: src/command/writes.rs (unit `wrapped`)
    #[verifier::external_body]
    pub async fn send<D: CfgVal>(self, maindevice: &MainDev, data: D) -> (r: Result<(), Error>)
        ensures r is Ok ==> cfg_sent(self.command, self.wkc, data.val())
    { unimplemented!() }
    /// `send` with a ghost log threaded through (R24): register and value of every successful write, in order
    #[verifier::external_body]
    pub async fn send_logged<D: CfgVal>(self, log: &mut Ghost<Seq<(u16, int)>>, maindevice: &MainDev, data: D) -> (r: Result<(), Error>)
        ensures
            r is Ok ==> cfg_sent(self.command, self.wkc, data.val())
                && exists|a: u16, g: u16| self.command == (Writes::Fpwr { address: a, register: g }) && final(log)@ == old(log)@.push((g, data.val())),
            r is Err ==> final(log)@ == old(log)@,
    { unimplemented!() }
}
impl Command {
/*@fn file=src/command/mod.rs impl="impl Command" name=fpwr canary=0
    ensures r.command == (Writes::Fpwr { address, register }), r.wkc == Some(1u16)
@*/
}

impl WrappedRead {
/*@fn file=src/command/reads.rs impl="impl WrappedRead" name=new canary=0
    ensures r.command == command, r.wkc == Some(1u16)
@*/
/*@fn file=src/command/reads.rs impl="impl WrappedRead" name=with_wkc canary=0
    ensures r.command == self.command, r.wkc == Some(wkc)
@*/
/*@fn file=src/command/reads.rs impl="impl WrappedRead" name=ignore_wkc canary=0
    ensures r.command == self.command, r.wkc is None
@*/
    /// `receive::<AlControl>` (unit wrapped: Ok only if the counter matched the expected one)
    #[verifier::external_body]
    pub async fn receive_al(self, maindevice: &MainDev) -> (r: Result<AlControl, Error>)
        ensures r is Ok ==> al_status_read(self.command, self.wkc, r->Ok_0)
    { unimplemented!() }
    /// `receive_wkc::<u8>` (unit wrapped): the working counter of what came back, no expectation applied
    #[verifier::external_body]
    pub async fn receive_wkc_u8(self, maindevice: &MainDev) -> (r: Result<u16, Error>)
        ensures r is Ok ==> counter_of(self.command, 1, r->Ok_0)
    { unimplemented!() }
    /// `receive::<AlStatusCode>` on the diagnostic path (result only logged)
    #[verifier::external_body]
    pub async fn receive_code(self, maindevice: &MainDev) -> (r: Result<AlStatusCode, Error>)
    { unimplemented!() }
}
impl AlStatusCode { #[allow(non_upper_case_globals)] pub const UnspecifiedError: AlStatusCode = AlStatusCode(1); }
#[derive(Clone, Copy, PartialEq, Eq, Debug)] pub struct Command { pub _p: u8 }
impl Command {
/*@fn file=src/command/mod.rs impl="impl Command" name=brd canary=0
    ensures r.command == (Reads::Brd { address: 0, register }), r.wkc == Some(1u16)
@*/
/*@fn file=src/command/mod.rs impl="impl Command" name=fprd canary=0
    ensures r.command == (Reads::Fprd { address, register })
@*/
}
/*@const file=src/lib.rs name=BASE_SUBDEVICE_ADDRESS @*/

impl MainDev {
    /// `self.num_subdevices.load(Relaxed)` / `self.num_subdevices()`: the number of SubDevices found by init (<= the caller's
    /// capacity, a u16 counter)
    #[verifier::external_body]
    pub fn num_loaded(&self) -> (r: u16) ensures r == self.n { unimplemented!() }
    #[verifier::external_body]
    pub fn num_subdevices(&self) -> (r: usize) ensures r == self.n { unimplemented!() }

/*@fn file=src/maindevice.rs impl="impl<'sto> MainDevice<'sto>" name=count_subdevices subst=".receive_wkc::<u8>(self)=>.receive_wkc_u8(self)" props=C09
    ensures
        // the number of SubDevices reported is the working counter of ONE broadcast read of one byte (register 0x0000): each
        // SubDevice on the ring increments it exactly once
        r is Ok ==> counter_of(Reads::Brd { address: 0, register: 0x0000 }, 1, r->Ok_0),
@*/

/*@fn file=src/maindevice.rs impl="impl<'sto> MainDevice<'sto>" name=wait_for_state subst="self.num_subdevices.load(Ordering::Relaxed)=>self.num_loaded()@@.receive::<AlControl>(self)=>.receive_al(self)@@.receive::<AlStatusCode>(self)=>.receive_code(self)" timeouts=1 props=C10 attr="#[verifier::loop_isolation(false)] #[verifier::allow_complex_invariants]" __brk0="Result<(), Error>"
    requires self.n <= 0xefff           // station addresses 0x1000 + i stay inside u16 (init stores at most the caller's capacity)
    ensures
        // success only if ONE broadcast read, answered by exactly the number of SubDevices on the network, showed the requested state
        // and no error bit (the broadcast ORs the status of all devices)
        r is Ok ==> exists|st: AlControl| #[trigger] al_status_read(Reads::Brd { address: 0, register: 0x0130 }, Some(self.n), st)
            && !st.error && st.state == desired_state,
    // a raised error bit ends the wait with Err(StateTransition) (stated at the site); the poll loop runs under the
    // state-transition timeout and terminates
@loop 0
    invariant
        __dl.active, num_subdevices == self.n, __dl.t@ == self.timeouts.state_transition_v(),
    ensures
        __brk0 is Ok ==> exists|st: AlControl| #[trigger] al_status_read(Reads::Brd { address: 0, register: 0x0130 }, Some(self.n), st)
            && !st.error && st.state == desired_state,
    decreases __dl.left@
@before "return Err(Error::StateTransition);"
    proof { assert(status.error); }      // StateTransition ONLY when a device raised its error bit
@*/
}

/// "the AL control request for `st` was written to station `addr` and acknowledged without error"
pub uninterp spec fn state_requested(addr: u16, st: SubDeviceState) -> bool;
pub struct Identity { pub _p: u8 }
/// "`id` is the identity block decoded from the EEPROM of the device at `addr`"
pub uninterp spec fn identity_of(addr: u16, id: Identity) -> bool;
pub struct Eeprom { pub addr: u16 }
impl Eeprom {
    #[verifier::external_body]
    pub async fn identity(&self) -> (r: Result<Identity, Error>) ensures r is Ok ==> identity_of(self.addr, r->Ok_0) { unimplemented!() }
}
pub struct SubDeviceRef<'a> { pub maindevice: &'a MainDev, pub configured_address: u16 }
impl<'a> SubDeviceRef<'a> {
/*@fn file=src/subdevice/mod.rs impl="impl<'maindevice, S> SubDeviceRef<'maindevice, S>" name=write subst="impl Into<u16>=>RegisterAddress" props=C09
    ensures r.command == (Writes::Fpwr { address: self.configured_address, register: register as u16 }), r.wkc == Some(1u16)
@*/
/*@fn file=src/subdevice/mod.rs impl="impl<'maindevice, S> SubDeviceRef<'maindevice, S>" name=set_eeprom_mode subst=".send(self.maindevice,=>.send_logged(&mut __wl, self.maindevice," props=C09,C12
    ensures
        // EEPROM ownership: first 2 ("owner = master, cancel PDI access") then the requested owner, both to register 0x0500 of THIS device
        r is Ok ==> cfg_sent(Writes::Fpwr { address: self.configured_address, register: 0x0500 }, Some(1u16), 2)
            && cfg_sent(Writes::Fpwr { address: self.configured_address, register: 0x0500 }, Some(1u16), mode.val()),
@entry
    let mut __wl: Ghost<Seq<(u16, int)>> = Ghost(Seq::empty());
@before "Ok(())"
    proof {
        // ORDER: the cancel value FIRST, the requested owner LAST (what the register holds afterwards), nothing in between
        assert(__wl@ =~= seq![(0x0500u16, 2int), (0x0500u16, mode.val())]);
    }
@*/
    /// `SubDeviceEeprom::new(DeviceEeprom::new(..))` and its identity() (units subdevice_eeprom / eeprom_device)
    #[verifier::external_body]
    pub fn eeprom(&self) -> (r: Eeprom) ensures r.addr == self.configured_address { unimplemented!() }
/*@fn file=src/subdevice/mod.rs impl="impl<'maindevice, S> SubDeviceRef<'maindevice, S>" name=read subst="impl Into<u16>=>RegisterAddress" props=C10
    ensures r.command == (Reads::Fprd { address: self.configured_address, register: register as u16 })
@*/
    /// unit pdi_config (request_subdevice_state_nowait extracted whole): Ok only if the AL control write was acknowledged by this
    /// device without the error bit
    #[verifier::external_body]
    pub async fn request_subdevice_state_nowait(&self, desired_state: SubDeviceState) -> (r: Result<(), Error>)
        ensures r is Ok ==> state_requested(self.configured_address, desired_state)
    { unimplemented!() }
/*@fn file=src/subdevice/mod.rs impl="impl<'maindevice, S> SubDeviceRef<'maindevice, S>" name=request_subdevice_state props=C10
    ensures
        // the waiting variant: the request was acknowledged by THIS device and THIS device was then seen in the requested state
        r is Ok ==> state_requested(self.configured_address, desired_state)
            && exists|st: AlControl| #[trigger] al_status_read(Reads::Fprd { address: self.configured_address, register: 0x0130 }, None, st)
                && st.state == desired_state,
@*/
/*@fn file=src/subdevice/mod.rs impl="impl<'maindevice, S> SubDeviceRef<'maindevice, S>" name=wait_for_state subst=".receive::<AlControl>(self.maindevice)=>.receive_al(self.maindevice)" timeouts=1 props=C10 attr="#[verifier::loop_isolation(false)] #[verifier::allow_complex_invariants]" __brk0="Result<(), Error>"
    ensures
        // success only if THIS device (FPRD 0x0130 to its own station address) reported the requested state
        r is Ok ==> exists|st: AlControl| #[trigger] al_status_read(Reads::Fprd { address: self.configured_address, register: 0x0130 }, None, st)
            && st.state == desired_state,
@loop 0
    invariant
        __dl.active, __dl.t@ == self.maindevice.timeouts.state_transition_v(),
    ensures
        __brk0 is Ok ==> exists|st: AlControl| #[trigger] al_status_read(Reads::Fprd { address: self.configured_address, register: 0x0130 }, None, st)
            && st.state == desired_state,
    decreases __dl.left@
@*/
}

impl<'a> SubDeviceRef<'a> {
    pub fn new(maindevice: &'a MainDev, configured_address: u16, state: ()) -> (r: Self)
        ensures r.configured_address == configured_address
    { SubDeviceRef { maindevice, configured_address } }
}
#[allow(non_upper_case_globals)]
impl SubDeviceState {
    // every discriminant of the real enum (src/subdevice_state.rs), so that naming another state is decided, not a lost anchor
    pub const None: SubDeviceState = SubDeviceState(0x00); pub const Init: SubDeviceState = SubDeviceState(0x01); pub const PreOp: SubDeviceState = SubDeviceState(0x02);
    pub const Bootstrap: SubDeviceState = SubDeviceState(0x03); pub const SafeOp: SubDeviceState = SubDeviceState(0x04); pub const Op: SubDeviceState = SubDeviceState(0x08);
}

// ---- the head of SubDevice::new (R6 fragment, from the first statement to the identity read; the tail is in unit init_addr) ----
/*@fragment file=src/subdevice/mod.rs impl="impl SubDevice" fn=new from="@start" to="let identity = eeprom.identity().await?;" name=subdevice_new_head qual="pub async" sig="maindevice: &MainDev, index: u16, configured_address: u16 -> (r: Result<Identity, Error>)" tail="Ok(identity)" props=C09
    ensures
        // before anything is read: THIS device (its own station address) was seen in INIT, EEPROM ownership was handed to the
        // MainDevice (2, then Master = 0, to 0x0500 of this device), and the identity comes from THIS device's EEPROM
        r is Ok ==> (exists|st: AlControl| #[trigger] al_status_read(Reads::Fprd { address: configured_address, register: 0x0130 }, None, st) && st.state == SubDeviceState(0x01))
            && cfg_sent(Writes::Fpwr { address: configured_address, register: 0x0500 }, Some(1u16), 2)
            && cfg_sent(Writes::Fpwr { address: configured_address, register: 0x0500 }, Some(1u16), 0)
            && identity_of(configured_address, r->Ok_0),
@*/

} // verus!
fn main() {}

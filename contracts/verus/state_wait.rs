//@unit state_wait  props=C10,C09  min_verified=2
// C10: the two polling loops that wait for an AL state, extracted WHOLE with their timeout scope made explicit (rule R18):
// MainDevice::wait_for_state (broadcast read, expected counter = number of SubDevices) and SubDeviceRef::wait_for_state
// (one device, used while a SubDevice is created).  The devices are arbitrary: a status read returns ANY AlControl value or fails.
use vstd::prelude::*;
verus! {

//@include prelude/errors.rs
//@include prelude/opaque_payloads.rs
//@include prelude/std_specs.rs
//@include prelude/wire_traits.rs
//@include prelude/received_pdu.rs

pub struct LabeledTimeout { pub _p: u8 }
pub struct Timeouts { pub _p: u8 }
impl Timeouts {
    #[verifier::external_body]
    pub fn state_transition(&self) -> (r: LabeledTimeout) { unimplemented!() }
    #[verifier::external_body]
    pub async fn loop_tick(&self) { unimplemented!() }
}
//@include prelude/timeouts.rs

/*@type file=src/command/reads.rs name=Reads derive="Clone, Copy, PartialEq, Eq, Debug" @*/
/*@type file=src/command/reads.rs name=WrappedRead derive="Clone, Copy, Debug" @*/
/*@type file=src/al_control.rs name=AlControl derive="Clone, Copy, PartialEq, Eq, Debug" @*/
/*@type file=src/register.rs name=RegisterAddress derive="Clone, Copy, Debug" @*/
impl From<RegisterAddress> for u16 {
/*@fn file=src/register.rs impl="impl From<RegisterAddress> for u16" name=from ret=none canary=0
@*/
}
impl vstd::std_specs::convert::FromSpecImpl<RegisterAddress> for u16 {
    open spec fn obeys_from_spec() -> bool { true }
    open spec fn from_spec(v: RegisterAddress) -> u16 { v as u16 }
}
pub assume_specification[ <SubDeviceState as PartialEq>::eq ](a: &SubDeviceState, b: &SubDeviceState) -> (r: bool)
    ensures r == (*a == *b);

/// "a read with command `c`, accepted only with working counter `wkc` (None = not looked at), returned the AL status `st`"
pub uninterp spec fn al_status_read(c: Reads, wkc: Option<u16>, st: AlControl) -> bool;

/// "the datagram with read command `c` and `len` data bytes came back with working counter `wkc`" (every SubDevice that
/// processes a broadcast read increments the counter once)
pub uninterp spec fn counter_of(c: Reads, len: u16, wkc: u16) -> bool;
pub struct MainDev { pub timeouts: Timeouts, pub n: u16 }

impl WrappedRead {
/*@fn file=src/command/reads.rs impl="impl WrappedRead" name=new canary=0
    ensures r.command == command, r.wkc == Some(1u16)
@*/
/*@fn file=src/command/reads.rs impl="impl WrappedRead" name=with_wkc canary=0
    ensures r.command == self.command, r.wkc == Some(wkc)
@*/
/*@fn file=src/command/reads.rs impl="impl WrappedRead" name=ignore_wkc canary=0
    ensures r.command == self.command, r.wkc is None
@*/
    /// `receive::<AlControl>` (unit wrapped: Ok only if the counter matched the expected one)
    #[verifier::external_body]
    pub async fn receive_al(self, maindevice: &MainDev) -> (r: Result<AlControl, Error>)
        ensures r is Ok ==> al_status_read(self.command, self.wkc, r->Ok_0)
    { unimplemented!() }
    /// `receive_wkc::<u8>` (unit wrapped): the working counter of what came back, no expectation applied
    #[verifier::external_body]
    pub async fn receive_wkc_u8(self, maindevice: &MainDev) -> (r: Result<u16, Error>)
        ensures r is Ok ==> counter_of(self.command, 1, r->Ok_0)
    { unimplemented!() }
    /// `receive::<AlStatusCode>` on the diagnostic path (result only logged)
    #[verifier::external_body]
    pub async fn receive_code(self, maindevice: &MainDev) -> (r: Result<AlStatusCode, Error>)
    { unimplemented!() }
}
impl AlStatusCode { #[allow(non_upper_case_globals)] pub const UnspecifiedError: AlStatusCode = AlStatusCode(1); }
#[derive(Clone, Copy, PartialEq, Eq, Debug)] pub struct Command { pub _p: u8 }
impl Command {
/*@fn file=src/command/mod.rs impl="impl Command" name=brd canary=0
    ensures r.command == (Reads::Brd { address: 0, register }), r.wkc == Some(1u16)
@*/
/*@fn file=src/command/mod.rs impl="impl Command" name=fprd canary=0
    ensures r.command == (Reads::Fprd { address, register })
@*/
}
/*@const file=src/lib.rs name=BASE_SUBDEVICE_ADDRESS @*/

impl MainDev {
    /// `self.num_subdevices.load(Relaxed)` / `self.num_subdevices()`: the number of SubDevices found by init (<= the caller's
    /// capacity, a u16 counter)
    #[verifier::external_body]
    pub fn num_loaded(&self) -> (r: u16) ensures r == self.n { unimplemented!() }
    #[verifier::external_body]
    pub fn num_subdevices(&self) -> (r: usize) ensures r == self.n { unimplemented!() }

/*@fn file=src/maindevice.rs impl="impl<'sto> MainDevice<'sto>" name=count_subdevices subst=".receive_wkc::<u8>(self)=>.receive_wkc_u8(self)" props=C09
    ensures
        // the number of SubDevices reported is the working counter of ONE broadcast read of one byte (register 0x0000): each
        // SubDevice on the ring increments it exactly once
        r is Ok ==> counter_of(Reads::Brd { address: 0, register: 0x0000 }, 1, r->Ok_0),
@*/

/*@fn file=src/maindevice.rs impl="impl<'sto> MainDevice<'sto>" name=wait_for_state subst="self.num_subdevices.load(Ordering::Relaxed)=>self.num_loaded()@@.receive::<AlControl>(self)=>.receive_al(self)@@.receive::<AlStatusCode>(self)=>.receive_code(self)" timeouts=1 props=C10 attr="#[verifier::loop_isolation(false)] #[verifier::allow_complex_invariants]" __brk0="Result<(), Error>"
    requires self.n <= 0xefff           // station addresses 0x1000 + i stay inside u16 (init stores at most the caller's capacity)
    ensures
        // success only if ONE broadcast read, answered by exactly the number of SubDevices on the network, showed the requested state
        // and no error bit (the broadcast ORs the status of all devices)
        r is Ok ==> exists|st: AlControl| #[trigger] al_status_read(Reads::Brd { address: 0, register: 0x0130 }, Some(self.n), st)
            && !st.error && st.state == desired_state,
    // a raised error bit ends the wait with Err(StateTransition) (stated at the site); the poll loop runs under the
    // state-transition timeout and terminates
@loop 0
    invariant
        __dl.active, num_subdevices == self.n,
    ensures
        __brk0 is Ok ==> exists|st: AlControl| #[trigger] al_status_read(Reads::Brd { address: 0, register: 0x0130 }, Some(self.n), st)
            && !st.error && st.state == desired_state,
    decreases __dl.left@
@*/
}

pub struct SubDeviceRef<'a> { pub maindevice: &'a MainDev, pub configured_address: u16 }
impl<'a> SubDeviceRef<'a> {
/*@fn file=src/subdevice/mod.rs impl="impl<'maindevice, S> SubDeviceRef<'maindevice, S>" name=read subst="impl Into<u16>=>RegisterAddress" props=C10
    ensures r.command == (Reads::Fprd { address: self.configured_address, register: register as u16 })
@*/
/*@fn file=src/subdevice/mod.rs impl="impl<'maindevice, S> SubDeviceRef<'maindevice, S>" name=wait_for_state subst=".receive::<AlControl>(self.maindevice)=>.receive_al(self.maindevice)" timeouts=1 props=C10 attr="#[verifier::loop_isolation(false)] #[verifier::allow_complex_invariants]" __brk0="Result<(), Error>"
    ensures
        // success only if THIS device (FPRD 0x0130 to its own station address) reported the requested state
        r is Ok ==> exists|st: AlControl| #[trigger] al_status_read(Reads::Fprd { address: self.configured_address, register: 0x0130 }, None, st)
            && st.state == desired_state,
@loop 0
    invariant
        __dl.active,
    ensures
        __brk0 is Ok ==> exists|st: AlControl| #[trigger] al_status_read(Reads::Fprd { address: self.configured_address, register: 0x0130 }, None, st)
            && st.state == desired_state,
    decreases __dl.left@
@*/
}

} // verus!
fn main() {}

//@unit pdu_iter  props=C01,C07  min_verified=3
// ReceivedPduIter::next and ReceivedFrame::first_pdu extracted WHOLE (src/pdu_loop/frame_element/received_frame.rs): the walk over
// the datagrams of one received frame for ANY buffer contents, ANY slot size and ANY number of datagrams - the unbounded counterpart of
// the Kani harnesses wkc::rx_first_pdu / rx_pdu_iter_first / rx_pdu_iter_chain (real pointers, 28-byte datagram area).
// The slot buffer is seen as a byte sequence (FrameBox::pdu_buf / pdu_payload_len, pointer code in the Kani group slots); the raw
// pointer the view keeps is seen as "the bytes it points at" (ViewPtr): the safety condition of ReceivedPdu's Deref (from_raw_parts
// over `len` bytes) becomes the postcondition `len <= bytes behind the pointer`, and two more bytes for the counter.
// Decided: item i is exactly datagram i of the chain `pdus_from(buf, 0)` (header at p, data at p+10, counter behind the data, next at
// p+12+len iff bit 15 of the flags word) - which is the contract the units group_cycle / wrapped ASSUME of the iterator (prelude
// network.rs) - an item that does not fit is an error, never a view outside the buffer, and the walk ends after the last datagram.
use vstd::prelude::*;
verus! {

//@include prelude/errors.rs
//@include prelude/opaque_payloads.rs
//@include prelude/opaque_command.rs
//@include prelude/std_specs.rs
use core::marker::PhantomData;

impl From<WireError> for Error {
    fn from(value: WireError) -> (r: Self) ensures r == Error::Wire(value) { Error::Wire(value) }
}
impl vstd::std_specs::convert::FromSpecImpl<WireError> for Error {
    open spec fn obeys_from_spec() -> bool { true }
    open spec fn from_spec(v: WireError) -> Error { Error::Wire(v) }
}

pub open spec fn le16(b: Seq<u8>, i: int) -> u16 { (b[i] as u16 + 256 * (b[i + 1] as u16)) as u16 }

// ---- wire decoders the function calls (derived PduHeader: Kani generated harness wire_pdu_header; PduFlags: Kani pdu_flags_all_values;
//      u16: Kani wire_prim_u16) ----
/*@type file=src/pdu_loop/pdu_flags.rs name=PduFlags derive="Clone, Copy, PartialEq, Eq, Debug" @*/
impl PduFlags {
/*@fn file=src/pdu_loop/pdu_flags.rs impl="impl PduFlags" name=len canary=0
    ensures r == self.length
@*/
}
/*@type file=src/pdu_loop/pdu_header.rs name=PduHeader derive="Clone, Copy, Debug" @*/
impl PduHeader {
    pub const PACKED_LEN: usize = 10;
    #[verifier::external_body]
    pub fn unpack_from_slice(buf: &[u8]) -> (r: Result<Self, WireError>)
        ensures
            (r is Ok) == (buf@.len() >= 10),
            r is Ok ==> (r->Ok_0).command_code == buf@[0] && (r->Ok_0).index == buf@[1]
                && (r->Ok_0).flags.length == le16(buf@, 6) % 0x800 && (r->Ok_0).flags.more_follows == (le16(buf@, 6) >= 0x8000),
    { unimplemented!() }
}
pub struct U16w;
impl U16w {
    #[verifier::external_body]
    pub fn unpack_from_slice(buf: &[u8]) -> (r: Result<u16, WireError>)
        ensures (r is Ok) == (buf@.len() >= 2), r is Ok ==> r->Ok_0 == le16(buf@, 0)
    { unimplemented!() }
}

// ---- the view and the frame ----
/// stand-in for `NonNull<u8>` obtained from `slice.as_ptr()`: the bytes from the pointer to the end of the slice it was taken from
pub struct ViewPtr { pub bytes: Ghost<Seq<u8>> }
#[verifier::external_body]
pub fn view_of(s: &[u8]) -> (r: ViewPtr) ensures r.bytes@ == s@ { unimplemented!() }

pub struct ReceivedPdu { pub data_start: ViewPtr, pub len: usize, pub working_counter: u16, pub _storage: PhantomData<()> }
impl ReceivedPdu {
    /// what Deref shows (`from_raw_parts(data_start, len)`) - defined only when `safe()`
    pub open spec fn data(&self) -> Seq<u8> { self.data_start.bytes@.subrange(0, self.len as int) }
    /// the safety condition of Deref: `len` bytes are readable behind the pointer, inside the buffer the pointer was taken from
    pub open spec fn safe(&self) -> bool { self.len <= self.data_start.bytes@.len() }
}

pub struct FrameBox { pub buf: Ghost<Seq<u8>>, pub used: usize }
impl FrameBox {
    /// the slot's datagram area (Kani group slots: frame_box accessors)
    #[verifier::external_body]
    pub fn pdu_buf(&self) -> (r: &[u8]) ensures r@ == self.buf@ { unimplemented!() }
    #[verifier::external_body]
    pub fn pdu_payload_len(&self) -> (r: usize) ensures r == self.used { unimplemented!() }
}
pub struct ReceivedFrame { pub inner: FrameBox }
pub struct PduResponseHandle { pub index_in_frame: u8, pub pdu_idx: u8, pub command_code: u8, pub alloc_size: usize }

// ---- the chain of datagrams in a buffer ----
pub open spec fn dlen(b: Seq<u8>, p: int) -> int { (le16(b, p + 6) % 0x800) as int }
pub open spec fn dmore(b: Seq<u8>, p: int) -> bool { le16(b, p + 6) >= 0x8000 }
/// the datagram at p (header + data + counter) lies inside the buffer
pub open spec fn fits(b: Seq<u8>, p: int) -> bool { 0 <= p && p + 10 <= b.len() && p + 10 + dlen(b, p) + 2 <= b.len() }
pub struct RxPdu { pub data: Seq<u8>, pub wkc: u16 }
pub open spec fn pdu_at(b: Seq<u8>, p: int) -> RxPdu {
    RxPdu { data: b.subrange(p + 10, p + 10 + dlen(b, p)), wkc: le16(b, p + 10 + dlen(b, p)) }
}
/// position of the datagram after the one at p (usize::MAX = "none": the iterator's end marker)
pub open spec fn next_pos(b: Seq<u8>, p: int) -> int { if dmore(b, p) { p + 12 + dlen(b, p) } else { usize::MAX as int } }

/// the well-formed datagrams from position p on, in order (the sequence the callers' contract of the iterator speaks about);
/// `fuel` bounds the recursion by the bytes left
pub open spec fn pdus_from(b: Seq<u8>, p: int) -> Seq<RxPdu>
    decreases b.len() - p
{
    if fits(b, p) {
        if dmore(b, p) { seq![pdu_at(b, p)] + pdus_from(b, p + 12 + dlen(b, p)) } else { seq![pdu_at(b, p)] }
    } else { Seq::empty() }
}

pub struct ReceivedPduIter { pub frame: ReceivedFrame, pub buf_pos: usize }

impl ReceivedFrame {
/*@fn file=src/pdu_loop/frame_element/received_frame.rs impl="impl<'sto> ReceivedFrame<'sto>" name=first_pdu subst="ReceivedPdu<'sto>=>ReceivedPdu@@NonNull::new_unchecked(=>view_of(@@.as_ptr() .cast_mut()=>@@u16::unpack_from_slice=>U16w::unpack_from_slice" props=C01
    requires self.inner.buf@.len() <= 0xffff
    ensures
        // delivered: it is the FIRST datagram, it lies inside the buffer, and it answers the handle's command and index
        r is Ok ==> fits(self.inner.buf@, 0) && (r->Ok_0).safe()
            && (r->Ok_0).data() == pdu_at(self.inner.buf@, 0).data && (r->Ok_0).working_counter == pdu_at(self.inner.buf@, 0).wkc
            && self.inner.buf@[0] == handle.command_code && self.inner.buf@[1] == handle.pdu_idx,
        // completeness: a first datagram that fits and carries the expected command and index IS delivered
        fits(self.inner.buf@, 0) && self.inner.buf@[0] == handle.command_code && self.inner.buf@[1] == handle.pdu_idx ==> r is Ok,
        // the documented errors
        fits(self.inner.buf@, 0) && self.inner.buf@[0] != handle.command_code ==> r == Err::<ReceivedPdu, Error>(Error::Pdu(PduError::Decode)),
        fits(self.inner.buf@, 0) && self.inner.buf@[0] == handle.command_code && self.inner.buf@[1] != handle.pdu_idx
            ==> r == Err::<ReceivedPdu, Error>(Error::Pdu(PduError::InvalidIndex(self.inner.buf@[1]))),
@*/
/*@fn file=src/pdu_loop/frame_element/received_frame.rs impl="impl<'sto> ReceivedFrame<'sto>" name=into_pdu_iter subst="ReceivedPduIter<'sto>=>ReceivedPduIter" props=C01 canary=0
    ensures r.frame == self, r.buf_pos == 0
@*/
}

impl ReceivedPduIter {
    /// the datagrams still to come
    pub open spec fn rest(&self) -> Seq<RxPdu> {
        if self.frame.inner.used == 0 { Seq::empty() } else { pdus_from(self.frame.inner.buf@, self.buf_pos as int) }
    }

/*@fn file=src/pdu_loop/frame_element/received_frame.rs impl="impl<'sto> Iterator for ReceivedPduIter<'sto>" name=next subst="Option<Self::Item>=>Option<Result<ReceivedPdu, Error>>@@NonNull::new_unchecked(=>view_of(@@.as_ptr() .cast_mut()=>@@u16::unpack_from_slice=>U16w::unpack_from_slice" props=C01,C07
    requires old(self).frame.inner.buf@.len() <= 0xffff
    ensures
        final(self).frame == old(self).frame,
        // a well-formed datagram at the cursor is delivered - exactly its data area and counter - and the cursor moves to its successor
        old(self).frame.inner.used != 0 && fits(old(self).frame.inner.buf@, old(self).buf_pos as int) ==> ({
            let b = old(self).frame.inner.buf@; let p = old(self).buf_pos as int;
            &&& r is Some && r->Some_0 is Ok
            &&& (r->Some_0->Ok_0).safe()
            &&& (r->Some_0->Ok_0).data() == pdu_at(b, p).data
            &&& (r->Some_0->Ok_0).working_counter == pdu_at(b, p).wkc
            &&& final(self).buf_pos == next_pos(b, p)
        }),
        // hence: the head of the remaining chain is yielded and the tail remains (the contract assumed by the callers' units)
        old(self).rest().len() > 0 ==> r is Some && r->Some_0 is Ok
            && (r->Some_0->Ok_0).data() == old(self).rest()[0].data && (r->Some_0->Ok_0).working_counter == old(self).rest()[0].wkc
            && final(self).rest() == old(self).rest().skip(1),
        // nothing is ever delivered that is not a well-formed datagram at the cursor; an empty frame or a cursor past the end ends the walk
        r is Some && r->Some_0 is Ok ==> old(self).frame.inner.used != 0 && fits(old(self).frame.inner.buf@, old(self).buf_pos as int),
        (r is None) == (old(self).frame.inner.used == 0 || old(self).buf_pos > old(self).frame.inner.buf@.len()),
@closure 0 "|b: &[u8]| -> (cr: Result<u16, Error>)" of=and_then
    ensures (cr is Ok) == (b@.len() >= 2), cr is Ok ==> cr->Ok_0 == le16(b@, 0)
@*/
}

} // verus!
fn main() {}

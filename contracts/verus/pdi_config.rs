//@unit pdi_config  props=C08  min_verified=6
// C08: PdiOffset arithmetic and SubDeviceRef::write_fmmu_config, extracted from src/pdi.rs and
// src/subdevice/configuration.rs.  Register writes are observed through the predicate `wrote(address, register, value)`.
use vstd::prelude::*;
use core::ops::Range;
verus! {

//@include prelude/errors.rs
//@include prelude/opaque_payloads.rs
//@include prelude/std_specs.rs
//@include prelude/wire_traits.rs
//@include prelude/opaque_maindevice.rs
//@include prelude/received_pdu.rs
//@include prelude/command.rs

/*@type file=src/pdi.rs name=PdiOffset derive="Clone, Copy, PartialEq, Eq, Debug" @*/
/*@type file=src/pdi.rs name=PdiSegment derive="Clone, PartialEq, Eq, Debug" @*/

impl PdiOffset {
/*@fn file=src/pdi.rs impl="impl PdiOffset" name=increment_inner props=C08
    requires self.start_address + inc_bytes <= u32::MAX
    ensures r.start_address == self.start_address + inc_bytes
@*/
/*@fn file=src/pdi.rs impl="impl PdiOffset" name=increment props=C08
    requires self.start_address + bytes <= u32::MAX
    ensures r.start_address == self.start_address + bytes
@*/
/*@fn file=src/pdi.rs impl="impl PdiOffset" name=increment_byte_aligned props=C08,C13
    requires
        self.start_address + (bits + 7) / 8 <= u32::MAX,       // (any 16-bit bit length: no bound on `bits`)
    ensures r.start_address == self.start_address + (bits as int + 7) / 8      // ceil(bits / 8) bytes
@*/
/*@fn file=src/pdi.rs impl="impl PdiOffset" name=up_to props=C08
    ensures r.start == self.start_address as usize, r.end == other.start_address as usize
@*/
}

/*@type file=src/fmmu.rs name=Fmmu derive="Clone, Copy, PartialEq, Eq" @*/
/*@type file=src/eeprom/types.rs name=SyncManagerType derive="Clone, Copy, PartialEq, Eq, Debug" @*/
pub assume_specification[ <SyncManagerType as PartialEq>::eq ](a: &SyncManagerType, b: &SyncManagerType) -> (r: bool)
    ensures r == (*a == *b);

/// stand-in for SyncManagerChannel: the two fields read here (control / status / enable are not touched)
pub struct SyncManagerChannel { pub physical_start_address: u16, pub length_bytes: u16 }

impl EtherCrabWireSized for Fmmu { const PACKED_LEN: usize = 16; }
impl EtherCrabWireRead for Fmmu {
    uninterp spec fn unpack_spec(b: Seq<u8>) -> Result<Fmmu, WireError>;
    #[verifier::external_body]
    fn unpack_from_slice(buf: &[u8]) -> (r: Result<Fmmu, WireError>) { unimplemented!() }
}
impl EtherCrabWireWrite for &Fmmu {
    uninterp spec fn packed(&self) -> Seq<u8>;
    #[verifier::external_body]
    fn packed_len(&self) -> (r: usize) { 16 }
}

/// "FPWR of `value` to `register` of station `address` was issued"
pub uninterp spec fn wrote_fmmu(address: u16, register: u16, value: Fmmu) -> bool;

pub open spec fn fmmu_reg(i: int) -> u16 { (0x0600 + 16 * i) as u16 }

impl RegisterAddress {
    /// table of src/register.rs (Fmmu0 = 0x0600 .. Fmmu15 = 0x06f0); unreachable!() for index >= 16
    #[verifier::external_body]
    pub fn fmmu(index: u8) -> (r: RegisterAddress)
        requires index < 16
        ensures r as u16 == fmmu_reg(index as int)
    { unimplemented!() }
}

impl WrappedRead {
    /// checked read (contract proved in unit `wrapped`): Ok => the counter matched
    #[verifier::external_body]
    pub async fn receive<T: EtherCrabWireRead + EtherCrabWireSized>(self, maindevice: &MainDevice) -> (r: Result<T, Error>)
    { unimplemented!() }
}
impl WrappedWrite {
/*@fn file=src/command/writes.rs impl="impl WrappedWrite" name=ignore_wkc canary=0
    ensures r.command == self.command, r.wkc is None, r.len_override == self.len_override
@*/
/*@fn file=src/command/writes.rs impl="impl WrappedWrite" name=with_wkc canary=0
    ensures r.command == self.command, r.wkc == Some(wkc), r.len_override == self.len_override
@*/
    #[verifier::external_body]
    pub async fn send(self, maindevice: &MainDevice, data: &Fmmu) -> (r: Result<(), Error>)
        ensures r is Ok ==> exists|a: u16, g: u16| self.command == (Writes::Fpwr { address: a, register: g }) && wrote_fmmu(a, g, *data)
    { unimplemented!() }
}

/*@type file=src/al_control.rs name=AlControl derive="Clone, Copy, PartialEq, Eq, Debug" @*/
impl AlControl {
/*@fn file=src/al_control.rs impl="impl AlControl" name=new props=C10
    ensures r.state == state, !r.error, !r.id_request
@*/
}
impl EtherCrabWireSized for AlControl { const PACKED_LEN: usize = 2; }
impl EtherCrabWireRead for AlControl {
    uninterp spec fn unpack_spec(b: Seq<u8>) -> Result<AlControl, WireError>;
    #[verifier::external_body]
    fn unpack_from_slice(buf: &[u8]) -> (r: Result<AlControl, WireError>) { unimplemented!() }
}
impl EtherCrabWireSized for AlStatusCode { const PACKED_LEN: usize = 2; }
impl EtherCrabWireRead for AlStatusCode {
    uninterp spec fn unpack_spec(b: Seq<u8>) -> Result<AlStatusCode, WireError>;
    #[verifier::external_body]
    fn unpack_from_slice(buf: &[u8]) -> (r: Result<AlStatusCode, WireError>) { unimplemented!() }
}

/// "the AL control write `req` to station `address` was answered (working counter checked) with `resp`"
pub uninterp spec fn al_exchange(cmd: Writes, req: AlControl, resp: AlControl) -> bool;

impl WrappedWrite {
    /// checked write-and-read-back (contract proved in unit `wrapped`: Ok => the counter matched)
    #[verifier::external_body]
    pub async fn send_receive<T: EtherCrabWireRead>(self, maindevice: &MainDevice, value: AlControl) -> (r: Result<AlControl, Error>)
        // C10/C11: the state request is a CHECKED exchange - exactly one device must have taken it
        requires self.wkc == Some(1u16)
        ensures r is Ok ==> al_exchange(self.command, value, r->Ok_0)
    { unimplemented!() }
}

/*@type file=src/subdevice/types.rs name=IoRanges derive="Clone, PartialEq, Eq, Debug" @*/
/*@type file=src/subdevice/configuration.rs name=PdoDirection derive="Clone, Copy, PartialEq, Eq, Debug" @*/
/// SubDeviceState is an opaque payload in the preludes; the one variant named here (src/subdevice_state.rs: PreOp = 0x02)
impl SubDeviceState { #[allow(non_upper_case_globals)] pub const PreOp: SubDeviceState = SubDeviceState(2); }
pub assume_specification[ <SubDeviceState as PartialEq>::eq ](a: &SubDeviceState, b: &SubDeviceState) -> (r: bool)
    ensures r == (*a == *b);
/// the part of SubDevice (reached through `self.state`, `S: DerefMut<Target = SubDevice>`) that configure_fmmus touches
pub struct MbxCfg { pub has_coe: bool }
pub struct SdConfig { pub mailbox: MbxCfg, pub io: IoRanges }
pub struct SdState { pub config: SdConfig }
/// EEPROM contents as far as configure_fmmus hands them on (opaque lists; parsing: C12/C13)
pub struct SmVec { pub _p: u8 }
pub struct FuVec { pub _p: u8 }
pub struct Eep { pub _p: u8 }
impl Eep {
    #[verifier::external_body]
    pub async fn sync_managers(&self) -> (r: Result<SmVec, Error>) { unimplemented!() }
    #[verifier::external_body]
    pub async fn fmmus(&self) -> (r: Result<FuVec, Error>) { unimplemented!() }
}

/// the fields of SubDeviceRef used here
pub struct SubDeviceRef<'a> { pub maindevice: &'a MainDevice, pub configured_address: u16, pub state: SdState }

impl<'a> SubDeviceRef<'a> {
/*@fn file=src/subdevice/mod.rs impl="impl<'maindevice, S> SubDeviceRef<'maindevice, S>" name=write subst="impl Into<u16>=>RegisterAddress" props=C08
    ensures r.command == (Writes::Fpwr { address: self.configured_address, register: register as u16 }), r.wkc == Some(1u16)
@*/
/*@fn file=src/subdevice/mod.rs impl="impl<'maindevice, S> SubDeviceRef<'maindevice, S>" name=read subst="impl Into<u16>=>RegisterAddress" props=C08
    ensures r.command == (Reads::Fprd { address: self.configured_address, register: register as u16 })
@*/

/*@fn file=src/subdevice/mod.rs impl="impl<'maindevice, S> SubDeviceRef<'maindevice, S>" name=request_subdevice_state_nowait props=C10
    ensures
        // Ok only if THIS device (its own station address) acknowledged the request without raising its error flag
        r is Ok ==> exists|resp: AlControl| #[trigger] al_exchange(Writes::Fpwr { address: self.configured_address, register: 0x0120 },
                AlControl { state: desired_state, error: false, id_request: false }, resp) && !resp.error,
@*/

    #[verifier::external_body]
    pub fn eeprom(&self) -> (r: Eep) { unimplemented!() }
    /// AL status read (src/subdevice/mod.rs::state): any state or an error
    #[verifier::external_body]
    pub async fn state(&self) -> (r: Result<SubDeviceState, Error>) { unimplemented!() }
    /// the sync-manager passes (iterator adapters keep them out of Verus' reach): ASSUMED to return the segment from the
    /// offset they were given up to the offset they leave behind, never moving it backwards
    #[verifier::external_body]
    pub async fn configure_pdos_coe(&self, sync_managers: &SmVec, fmmu_usage: &FuVec, direction: PdoDirection, global_offset: &mut PdiOffset) -> (r: Result<PdiSegment, Error>)
        ensures r is Ok ==> (r->Ok_0).bytes.start == old(global_offset).start_address as usize
            && (r->Ok_0).bytes.end == final(global_offset).start_address as usize
            && final(global_offset).start_address >= old(global_offset).start_address
    { unimplemented!() }
    #[verifier::external_body]
    pub async fn configure_pdos_eeprom(&self, sync_managers: &SmVec, direction: PdoDirection, global_offset: &mut PdiOffset) -> (r: Result<PdiSegment, Error>)
        ensures r is Ok ==> (r->Ok_0).bytes.start == old(global_offset).start_address as usize
            && (r->Ok_0).bytes.end == final(global_offset).start_address as usize
            && final(global_offset).start_address >= old(global_offset).start_address
    { unimplemented!() }

/*@fn file=src/subdevice/configuration.rs impl="impl<S> SubDeviceRef<'_, S>" name=configure_fmmus props=C08
    requires group_start_address <= global_offset.start_address
    ensures
        final(self).configured_address == old(self).configured_address,
        // Ok => the window recorded for this direction is [offset given - image start, offset returned - image start): the next
        // device's window starts where this one ends; the other direction's window is untouched
        r is Ok ==> (r->Ok_0).start_address >= global_offset.start_address && ({
            let lo = (global_offset.start_address - group_start_address) as usize;
            let hi = ((r->Ok_0).start_address - group_start_address) as usize;
            match direction {
                PdoDirection::MasterRead => final(self).state.config.io.input.bytes == (lo..hi)
                    && final(self).state.config.io.output == old(self).state.config.io.output,
                PdoDirection::MasterWrite => final(self).state.config.io.output.bytes == (lo..hi)
                    && final(self).state.config.io.input == old(self).state.config.io.input,
            }
        }),
@before "return Err(Error::InvalidState"
    proof { assert(state != SubDeviceState(2)); }      // refused ONLY when the device is not in PRE-OP
@*/

/*@fn file=src/subdevice/configuration.rs impl="impl<S> SubDeviceRef<'_, S>" name=write_fmmu_config props=C08,C13
    requires
        fmmu_index < 16,
        old(global_offset).start_address + (sm_bit_len + 7) / 8 <= u32::MAX,
    ensures
        r is Ok ==> final(global_offset).start_address == old(global_offset).start_address + (sm_bit_len as int + 7) / 8,
        r is Err ==> *final(global_offset) == *old(global_offset),
        // the FMMU programmed into THIS device (its own station address, the register of fmmu_index) either extends an enabled
        // mapping by the SM length, or maps [offset_before, +SM length) onto the SM's physical start, enabled in the SM's direction
        r is Ok ==> exists|f: Fmmu| #[trigger] wrote_fmmu(self.configured_address, fmmu_reg(fmmu_index as int), f) && f.enable && (
            (f.logical_start_address == old(global_offset).start_address
                && f.length_bytes == sm_config.length_bytes
                && f.physical_start_address == sm_config.physical_start_address
                && f.logical_start_bit == 0 && f.logical_end_bit == 7 && f.physical_start_bit == 0
                && f.read_enable == (desired_sm_type == SyncManagerType::ProcessDataRead)
                && f.write_enable == (desired_sm_type == SyncManagerType::ProcessDataWrite))
            || (exists|g: Fmmu| g.enable && g.length_bytes + sm_config.length_bytes <= 0xffff
                    && f == (Fmmu { length_bytes: (g.length_bytes + sm_config.length_bytes) as u16, ..g }))),
@*/
}

} // verus!
fn main() {}

//@unit eeprom_device  props=C14,C12  min_verified=3
// DeviceEeprom::write_word (src/eeprom/device_provider.rs) extracted whole: the retry loop of one EEPROM word write.
// The device is the SII status register, which may report ANY status (or the read may fail) every time it is polled;
// wait_while_busy is extracted too (rule R18: the busy poll runs under the EEPROM timeout).
// Decided: every attempt sends the two data bytes to SiiData (0x0508) and then a write request for exactly `start_word`
// to SiiControl (0x0502) of this SubDevice; the word is retried only while the device reports a command error and at most
// 20 times (<= 21 attempts in all, ghost counter); the loop terminates; an exchange error ends the call with that error.
// (What happens at the bound - Ok although the last status still reports a command error - is the author's documented
// tolerance for devices that report the flag spuriously, src/eeprom/types.rs SiiControl::command_error; not a finding.)
use vstd::prelude::*;
verus! {

//@include prelude/errors.rs
//@include prelude/opaque_payloads.rs
//@include prelude/std_specs.rs
//@include prelude/wire_traits.rs
pub struct LabeledTimeout { pub _p: u8 }
pub struct Timeouts { pub _p: u8 }
impl Timeouts {
    pub uninterp spec fn eeprom_v(&self) -> LabeledTimeout;
    #[verifier::external_body]
    pub fn eeprom(&self) -> (r: LabeledTimeout) ensures r == self.eeprom_v() { unimplemented!() }
    #[verifier::external_body]
    pub async fn loop_tick(&self) { unimplemented!() }
}
pub struct MainDevice { pub timeouts: Timeouts }
//@include prelude/received_pdu.rs
//@include prelude/command.rs
//@include prelude/timeouts.rs

/// the status word of the SII interface as far as write_word looks at it (all other bits arbitrary)
pub struct SiiControl { pub busy: bool, pub command_error: bool, pub read_size: SiiReadSize }
/*@type file=src/eeprom/types.rs name=SiiReadSize derive="Clone, Copy, PartialEq, Eq, Debug" @*/
impl SiiReadSize {
/*@fn file=src/eeprom/types.rs impl="impl SiiReadSize" name=chunk_len props=C12
    ensures r == (if *self is Octets4 { 4u16 } else { 8u16 })
@*/
}

/// the write request for a word address: derive-packed as [0x01, 0x02, lo, hi, 0, 0] (access = read/write, write strobe;
/// Kani eeprom_alias::sii_write_request checks SiiRequest::write(..).pack() against these bytes for every address)
/// the read request: [0x00, 0x01, lo, hi, 0, 0] (read-only access, read strobe; Kani eeprom_alias::sii_read_request)
pub struct SiiRequest { pub address: u16, pub is_write: bool }
impl SiiRequest {
    #[verifier::external_body]
    pub fn write(address: u16) -> (r: Self)
        ensures r.address == address, r.is_write
    { unimplemented!() }
    #[verifier::external_body]
    pub fn read(address: u16) -> (r: Self)
        ensures r.address == address, !r.is_write
    { unimplemented!() }
}
pub open spec fn sii_write_bytes(a: u16) -> Seq<u8> { seq![0x01u8, 0x02u8, (a % 256) as u8, (a / 256) as u8, 0u8, 0u8] }
pub open spec fn sii_read_bytes(a: u16) -> Seq<u8> { seq![0x00u8, 0x01u8, (a % 256) as u8, (a / 256) as u8, 0u8, 0u8] }
impl EtherCrabWireWrite for SiiRequest {
    open spec fn packed(&self) -> Seq<u8> { if self.is_write { sii_write_bytes(self.address) } else { sii_read_bytes(self.address) } }
    #[verifier::external_body]
    fn packed_len(&self) -> (r: usize) { 6 }
}
impl EtherCrabWireWrite for [u8; 2] {
    open spec fn packed(&self) -> Seq<u8> { self@ }
    #[verifier::external_body]
    fn packed_len(&self) -> (r: usize) { 2 }
}

/// "`bytes` were sent with this write command"
pub uninterp spec fn reg_sent(cmd: Writes, bytes: Seq<u8>) -> bool;

/// "a checked read of the SII control/status register (0x0502) of station `addr` returned `st`"
pub uninterp spec fn sii_status_read(addr: u16, st: SiiControl) -> bool;
impl WrappedRead {
/*@fn file=src/command/reads.rs impl="impl WrappedRead" name=ignore_wkc canary=0
    ensures r.command == self.command, r.wkc is None
@*/
/*@fn file=src/command/reads.rs impl="impl WrappedRead" name=with_wkc canary=0
    ensures r.command == self.command, r.wkc == Some(wkc)
@*/
    /// `receive::<SiiControl>` (unit wrapped): ANY status
    #[verifier::external_body]
    pub async fn receive_sii(self, maindevice: &MainDevice) -> (r: Result<SiiControl, Error>)
        // C11: the SII status poll is a CHECKED read (exactly one device answered) - a silent device reads as "not busy, no error"
        requires self.wkc == Some(1u16)
        ensures r is Ok ==> (match self.command { Reads::Fprd { address, register } => register == 0x0502 ==> sii_status_read(address, r->Ok_0), _ => true })
    { unimplemented!() }
}
/// "a read of `len` bytes with this command, accepted only with working counter `wkc`, returned `data`"
pub uninterp spec fn slice_read(cmd: Reads, wkc: Option<u16>, len: u16, data: Seq<u8>) -> bool;
impl WrappedRead {
    /// real body: src/command/reads.rs (unit `wrapped`)
    #[verifier::external_body]
    pub async fn receive_slice(self, maindevice: &MainDevice, len: u16) -> (r: Result<ReceivedPdu, Error>)
        ensures r is Ok ==> slice_read(self.command, self.wkc, len, (r->Ok_0).data()) && (r->Ok_0).data().len() == len
    { unimplemented!() }
}
pub assume_specification<T, E, F: FnOnce(&T)>[ Result::<T, E>::inspect ](r: Result<T, E>, f: F) -> (o: Result<T, E>)
    requires r is Ok ==> f.requires((&r->Ok_0,)),
    ensures o == r;
impl WrappedWrite {
    /// real body: src/command/writes.rs (unit `wrapped`)
    #[verifier::external_body]
    pub async fn send<D: EtherCrabWireWrite>(self, maindevice: &MainDevice, data: D) -> (r: Result<(), Error>)
        ensures r is Ok ==> reg_sent(self.command, data.packed())
    { unimplemented!() }
}

/// (`wlog`: GHOST field added to the extracted struct - the register writes issued through this handle, in order; erased at run time)
/*@type file=src/eeprom/device_provider.rs name=DeviceEeprom subst="<'subdevice>=><'a>@@&'subdevice MainDevice<'subdevice>=>&'a MainDevice@@configured_address: u16,=>configured_address: u16, pub wlog: Ghost<Seq<(u16, Seq<u8>)>>," @*/
impl WrappedWrite {
    /// `send` with the ghost log threaded through (same exchange as `send`; the log records register and bytes when it succeeds)
    #[verifier::external_body]
    pub async fn send_logged<D: EtherCrabWireWrite>(self, log: &mut Ghost<Seq<(u16, Seq<u8>)>>, maindevice: &MainDevice, data: D) -> (r: Result<(), Error>)
        ensures
            r is Ok ==> reg_sent(self.command, data.packed())
                && exists|a: u16, g: u16| self.command == (Writes::Fpwr { address: a, register: g }) && final(log)@ == old(log)@.push((g, data.packed())),
            r is Err ==> final(log)@ == old(log)@,
    { unimplemented!() }
}
/// k attempts: each one the data word to 0x0508 FIRST, then the write request for the word address to 0x0502 (the rising edge of
/// the write strobe stores whatever is in the data register)
pub open spec fn attempts_log(k: nat, data: Seq<u8>, word: u16) -> Seq<(u16, Seq<u8>)>
    decreases k
{
    if k == 0 { Seq::empty() } else { attempts_log((k - 1) as nat, data, word).push((0x0508u16, data)).push((0x0502u16, sii_write_bytes(word))) }
}

impl<'a> DeviceEeprom<'a> {
/*@fn file=src/eeprom/device_provider.rs impl="impl<'subdevice> DeviceEeprom<'subdevice>" name=wait_while_busy subst=".receive::<SiiControl>(self.maindevice)=>.receive_sii(self.maindevice)" timeouts=1 props=C14,C13 attr="#[verifier::loop_isolation(false)] #[verifier::allow_complex_invariants]" __brk0="Result<SiiControl, Error>"
    ensures
        // Ok(status) only for a status this device (FPRD 0x0502 to its own station address) reported with the busy bit clear;
        // the poll runs under the EEPROM timeout and terminates
        r is Ok ==> sii_status_read(self.configured_address, r->Ok_0) && !(r->Ok_0).busy,
@loop 0
    invariant
        __dl.active, __dl.t@ == self.maindevice.timeouts.eeprom_v(),
    ensures
        __brk0 is Ok ==> sii_status_read(self.configured_address, __brk0->Ok_0) && !(__brk0->Ok_0).busy,
    decreases __dl.left@
@*/

/*@fn file=src/eeprom/device_provider.rs impl="impl EepromDataProvider for DeviceEeprom<'_>" name=read_chunk subst="impl core::ops::Deref<Target = [u8]>=>ReceivedPdu" props=C12,C09
    ensures
        // one chunk: a READ request for exactly `start_word` goes to SiiControl (0x0502) of this device; once it reports not busy,
        // the data register (0x0508) of this device is read with the length THE DEVICE announced in that status (4 or 8 octets)
        // and those bytes are what is returned
        r is Ok ==> reg_sent(Writes::Fpwr { address: old(self).configured_address, register: 0x0502 }, sii_read_bytes(start_word))
            && exists|st: SiiControl| #[trigger] sii_status_read(old(self).configured_address, st) && !st.busy
                && slice_read(Reads::Fprd { address: old(self).configured_address, register: 0x0508 }, Some(1u16),
                              if st.read_size is Octets4 { 4u16 } else { 8u16 }, (r->Ok_0).data()),
@closure 0 "|data: &ReceivedPdu|" of=inspect
@*/

/*@fn file=src/eeprom/device_provider.rs impl="impl EepromDataProvider for DeviceEeprom<'_>" name=write_word subst=".send(self.maindevice,=>.send_logged(&mut self.wlog, self.maindevice," props=C14
    ensures
        r is Ok ==> reg_sent(Writes::Fpwr { address: old(self).configured_address, register: 0x0508 }, data@)
            && reg_sent(Writes::Fpwr { address: old(self).configured_address, register: 0x0502 }, sii_write_bytes(start_word)),
        // ORDER: what this call wrote to the device is k >= 1 attempts, each the data word first and the write request second -
        // and nothing else
        r is Ok ==> exists|k: nat| 1 <= k <= 21 && final(self).wlog@ == old(self).wlog@ + #[trigger] attempts_log(k, data@, start_word),
@entry
    let ghost mut attempts: nat = 0;
@loop 0
    invariant_except_break
        attempts == retry_count,
    invariant
        retry_count <= 20,
        self.configured_address == old(self).configured_address,
        attempts > 0 ==> reg_sent(Writes::Fpwr { address: self.configured_address, register: 0x0508 }, data@)
            && reg_sent(Writes::Fpwr { address: self.configured_address, register: 0x0502 }, sii_write_bytes(start_word)),
        self.wlog@ == old(self).wlog@ + attempts_log(attempts, data@, start_word),
    ensures
        // at most 21 attempts, and at least one
        1 <= attempts <= 21,
        self.wlog@ == old(self).wlog@ + attempts_log(attempts, data@, start_word),
        reg_sent(Writes::Fpwr { address: self.configured_address, register: 0x0508 }, data@)
            && reg_sent(Writes::Fpwr { address: self.configured_address, register: 0x0502 }, sii_write_bytes(start_word)),
    decreases 20 - retry_count
@loop_start 0
    proof { attempts = attempts + 1; }
@*/
}

} // verus!
fn main() {}

//@unit created_frame  props=C04,C07  min_verified=6
// CreatedFrame::{push_pdu, push_pdu_slice_rest, can_push_pdu_payload, is_empty} and generate::write_packed, extracted verbatim.
// What is decided here, for frames of ANY size <= 2047 and ANY number of datagrams: the space ACCOUNTING contract that the
// process-data cycle relies on (Ok iff the datagram fits, used length advances by exactly 12 + len, a refused push changes
// nothing, fill-the-rest is cut to min(len, free - 12) and says so) and the absence of overflow / out-of-bounds / failed
// unwraps (the position of the previous header is tracked correctly).  The BYTE CONTENT of the datagrams is decided by
// the Kani group frame_build on the real pointers (bounded).
use vstd::prelude::*;
verus! {

//@include prelude/errors.rs
//@include prelude/opaque_payloads.rs
//@include prelude/std_specs.rs
//@include prelude/command.rs

pub assume_specification<Idx: Clone>[ <core::ops::Range<Idx> as Clone>::clone ](r: &core::ops::Range<Idx>) -> (c: core::ops::Range<Idx>)
    ensures c == *r;

// ---- wire traits as used here: only lengths matter; pack_to_slice_unchecked panics on a short buffer (its documented
//      contract) and changes nothing outside its prefix ----
pub trait EtherCrabWireWrite {
    spec fn plen(&self) -> nat;
    fn packed_len(&self) -> (r: usize) ensures r == self.plen();
    fn pack_to_slice_unchecked<'buf>(&self, buf: &'buf mut [u8]) -> (r: &'buf [u8])
        requires old(buf)@.len() >= self.plen()
        ensures final(buf)@.len() == old(buf)@.len(),
            forall|i: int| self.plen() <= i < old(buf)@.len() ==> final(buf)@[i] == old(buf)@[i];
}
impl EtherCrabWireWrite for &[u8] {
    open spec fn plen(&self) -> nat { self@.len() }
    #[verifier::external_body]
    fn packed_len(&self) -> (r: usize) { self.len() }
    #[verifier::external_body]
    fn pack_to_slice_unchecked<'buf>(&self, buf: &'buf mut [u8]) -> (r: &'buf [u8]) { unimplemented!() }
}

/*@type file=src/pdu_loop/pdu_flags.rs name=PduFlags derive="Clone, Copy, PartialEq, Eq, Debug" @*/
impl PduFlags {
/*@fn file=src/pdu_loop/pdu_flags.rs impl="impl PduFlags" name=new canary=0
    ensures r.length == data_len, r.more_follows == more_follows, !r.circulated
@*/
/*@fn file=src/pdu_loop/pdu_flags.rs impl="impl PduFlags" name=len canary=0
    ensures r == self.length
@*/
/*@fn file=src/pdu_loop/pdu_flags.rs impl="impl PduFlags" name=with_len canary=0
    ensures r.length == len, !r.more_follows, !r.circulated
@*/
    /// hand-written impl in pdu_flags.rs (bit layout checked by Kani frame_build / C19): needs 2 bytes
    #[verifier::external_body]
    pub fn unpack_from_slice(buf: &[u8]) -> (r: Result<PduFlags, WireError>)
        ensures buf@.len() >= 2 ==> r is Ok
    { unimplemented!() }
}
impl EtherCrabWireWrite for PduFlags {
    open spec fn plen(&self) -> nat { 2 }
    #[verifier::external_body]
    fn packed_len(&self) -> (r: usize) { 2 }
    #[verifier::external_body]
    fn pack_to_slice_unchecked<'buf>(&self, buf: &'buf mut [u8]) -> (r: &'buf [u8]) { unimplemented!() }
}
/*@type file=src/pdu_loop/pdu_header.rs name=PduHeader derive="Clone, Copy, Debug" @*/
impl PduHeader { pub const PACKED_LEN: usize = 10; }
impl EtherCrabWireWrite for PduHeader {
    open spec fn plen(&self) -> nat { 10 }
    #[verifier::external_body]
    fn packed_len(&self) -> (r: usize) { 10 }
    #[verifier::external_body]
    fn pack_to_slice_unchecked<'buf>(&self, buf: &'buf mut [u8]) -> (r: &'buf [u8]) { unimplemented!() }
}

impl Command {
    #[verifier::external_body]
    pub fn code(&self) -> (r: u8) { unimplemented!() }
    #[verifier::external_body]
    pub fn pack(&self) -> (r: [u8; 4]) { unimplemented!() }
}

/*@fn file=src/generate.rs name=write_packed subst="ethercrab_wire::EtherCrabWireWrite=>EtherCrabWireWrite" props=C04
    requires old(buf)@.len() >= value.plen()
    ensures final(r)@.len() == old(buf)@.len() - value.plen(), r@.len() == old(buf)@.len() - value.plen(),
@*/

/// FrameBox seen from CreatedFrame: the PDU area and the consumed length (real pointer code: Kani groups slots / frame_build)
/*@type file=src/pdu_loop/frame_element/mod.rs name=FrameState derive="Clone, Copy, PartialEq, Eq, Debug" @*/
pub open spec fn le16v(b: Seq<u8>) -> int { b[0] as int + 256 * (b[1] as int) }
pub struct FrameBox { pub area: Vec<u8>, pub payload_len: usize, pub ecat_hdr: Vec<u8>, pub state: FrameState }
impl FrameBox {
    /// the two bytes of the EtherCAT frame header in front of the datagram area (pointer code: Kani frame_build::cf_mark_sendable)
    #[verifier::external_body]
    pub fn ecat_frame_header_mut(&mut self) -> (r: &mut [u8])
        ensures r@ == old(self).ecat_hdr@, r@.len() == 2, final(self).ecat_hdr@ == final(r)@,
            final(self).area@ == old(self).area@, final(self).payload_len == old(self).payload_len, final(self).state == old(self).state
    { unimplemented!() }
    /// the atomic state store.  ORDERING OBLIGATION (C02/C04): a frame is published to the transmit task (Sendable) only once its
    /// frame header describes the datagrams in it - the store is a Release, everything written before it is what TX will send
    #[verifier::external_body]
    pub fn set_state(&mut self, st: FrameState)
        requires st == FrameState::Sendable ==> le16v(old(self).ecat_hdr@) == old(self).payload_len + 0x1000
        ensures final(self).state == st, final(self).ecat_hdr@ == old(self).ecat_hdr@, final(self).area@ == old(self).area@, final(self).payload_len == old(self).payload_len
    { unimplemented!() }
    #[verifier::external_body]
    pub fn pdu_payload_len(&self) -> (r: usize) ensures r == self.payload_len { unimplemented!() }
    #[verifier::external_body]
    pub fn pdu_buf(&self) -> (r: &[u8]) ensures r@ == self.area@ { unimplemented!() }
    #[verifier::external_body]
    pub fn pdu_buf_mut(&mut self) -> (r: &mut [u8])
        ensures r@ == old(self).area@, final(self).area@ == final(r)@, final(self).payload_len == old(self).payload_len
    { unimplemented!() }
    #[verifier::external_body]
    pub fn next_pdu_idx(&self) -> (r: u8) { unimplemented!() }
    #[verifier::external_body]
    pub fn storage_slot_index(&self) -> (r: u8) { unimplemented!() }
    #[verifier::external_body]
    pub fn add_pdu(&mut self, alloc_size: usize, pdu_idx: u8)
        requires old(self).payload_len + alloc_size <= usize::MAX
        ensures final(self).payload_len == old(self).payload_len + alloc_size, final(self).area@ == old(self).area@
    { unimplemented!() }
}

/*@type file=src/pdu_loop/frame_element/created_frame.rs name=CreatedFrame subst="<'sto>=>@@FrameBox<'sto>=>FrameBox" @*/
/*@type file=src/pdu_loop/frame_element/created_frame.rs name=PduResponseHandle @*/

impl CreatedFrame {
/*@const file=src/pdu_loop/frame_element/created_frame.rs impl="impl<'sto> CreatedFrame<'sto>" name=PDU_OVERHEAD_BYTES subst="PduHeader::PACKED_LEN + 2=>12" @*/

    /// representation invariant: the consumed length fits the area, each datagram takes >= 12 bytes, and the recorded
    /// position of the last header is the start of a datagram that lies inside the consumed part
    pub open spec fn wf(&self) -> bool {
        &&& self.inner.payload_len <= self.inner.area@.len() <= 0x7ff
        &&& self.pdu_count as int * 12 <= self.inner.payload_len
        &&& (self.pdu_count == 0) == (self.last_header_location is None)
        &&& (self.pdu_count == 0) == (self.inner.payload_len == 0)
        &&& self.last_header_location is Some ==> self.last_header_location->Some_0 + 12 <= self.inner.payload_len
    }

/*@fn file=src/pdu_loop/frame_element/created_frame.rs impl="impl<'sto> CreatedFrame<'sto>" name=is_empty props=C04,C07
    ensures r == (self.pdu_count == 0)
@*/

/*@fn file=src/pdu_loop/frame_element/created_frame.rs impl="impl<'sto> CreatedFrame<'sto>" name=can_push_pdu_payload props=C04,C07
    requires self.wf(), packed_len <= 0xffff
    ensures r == (self.inner.payload_len + packed_len + 12 <= self.inner.area@.len())
@*/

/*@fn file=src/pdu_loop/frame_element/created_frame.rs impl="impl<'sto> CreatedFrame<'sto>" name=push_pdu props=C04,C07
    requires old(self).wf(), data.plen() <= 0xffff
    ensures
        final(self).inner.area@.len() == old(self).inner.area@.len(),
        ({
            let l: nat = if len_override is Some && len_override->Some_0 as nat > data.plen() { len_override->Some_0 as nat } else { data.plen() };
            &&& (r is Ok) == (old(self).inner.payload_len + l + 12 <= old(self).inner.area@.len())
            &&& r is Ok ==> final(self).wf()
                    && final(self).inner.payload_len == old(self).inner.payload_len + l + 12
                    && final(self).pdu_count == old(self).pdu_count + 1
                    && final(self).last_header_location == Some(old(self).inner.payload_len)
                    && (r->Ok_0).alloc_size == l + 12 && (r->Ok_0).index_in_frame == old(self).pdu_count
                    // bytes of the area beyond the new datagram are untouched, earlier datagrams change at most in their flags word
                    && (forall|i: int| final(self).inner.payload_len <= i < old(self).inner.area@.len() ==> final(self).inner.area@[i] == old(self).inner.area@[i])
            &&& r is Err ==> r->Err_0 == PduError::TooLong && final(self).wf()
                    && final(self).inner.payload_len == old(self).inner.payload_len && final(self).pdu_count == old(self).pdu_count
                    && final(self).last_header_location == old(self).last_header_location
                    && final(self).inner.area@ == old(self).inner.area@
        }),
@closure 0 "|l: u16| -> (cr: usize)" of=map_or
    ensures cr == (if l as nat > data.plen() { l as nat } else { data.plen() })
@closure 0 "|| -> (cr: PduError)" of=ok_or_else
    ensures cr == PduError::TooLong
@before "let header = PduHeader"
    proof {
        assert(pdu_buf@.len() == alloc_size);
        // the length field of the datagram header is the length of its data area: max(payload, override) - what the space was
        // reserved for and what the receiving side will index by
        assert(flags.length as nat == (if len_override is Some && len_override->Some_0 as nat > data.plen() { len_override->Some_0 as nat } else { data.plen() }));
        assert(!flags.more_follows && !flags.circulated);
    }
@*/

/*@fn file=src/pdu_loop/frame_element/created_frame.rs impl="impl<'sto> CreatedFrame<'sto>" name=push_pdu_slice_rest props=C04,C07
    requires old(self).wf()
    ensures
        final(self).inner.area@.len() == old(self).inner.area@.len(),
        r is Ok,
        ({
            let cap = old(self).inner.area@.len() as int; let used = old(self).inner.payload_len as int;
            let free: nat = if cap - used > 12 { (cap - used - 12) as nat } else { 0 };
            let n: nat = if bytes@.len() <= free { bytes@.len() } else { free };
            &&& (r->Ok_0 is None) == (n == 0)
            &&& n == 0 ==> final(self).wf() && final(self).inner.payload_len == old(self).inner.payload_len
                    && final(self).pdu_count == old(self).pdu_count
                    && final(self).last_header_location == old(self).last_header_location
                    && final(self).inner.area@ == old(self).inner.area@
            &&& n > 0 ==> final(self).wf() && (r->Ok_0->Some_0).0 == n
                    && final(self).inner.payload_len == used + n + 12
                    && final(self).pdu_count == old(self).pdu_count + 1
                    && final(self).last_header_location == Some(old(self).inner.payload_len)
                    && (r->Ok_0->Some_0).1.alloc_size == n + 12 && (r->Ok_0->Some_0).1.index_in_frame == old(self).pdu_count
                    && (forall|i: int| final(self).inner.payload_len <= i < cap ==> final(self).inner.area@[i] == old(self).inner.area@[i])
        }),
@closure 0 "|| -> (cr: PduError)"
    ensures cr == PduError::TooLong
@before "let header = PduHeader"
    proof {
        assert(pdu_buf@.len() == alloc_size);
        // the header's length field is the number of bytes taken from the caller's slice
        assert(flags.length as nat == sub_slice_len && !flags.more_follows && !flags.circulated);
    }
@*/
}

// ---- CreatedFrame::mark_sendable: the hand-over of a filled frame to the transmit task ----
/// hand-written wire impl of the 2-byte frame header (Kani frame_header_all_lengths: (len | 0x1000) little endian for every length)
pub struct EthercatFrameHeader { pub payload_len: u16 }
impl EthercatFrameHeader {
    #[verifier::external_body]
    pub fn pdu(len: u16) -> (r: Self)
        requires len <= 0x7ff           // the `debug_assert!` of the real constructor (R2: an obligation of the caller)
        ensures r.payload_len == len
    { unimplemented!() }
}
impl EtherCrabWireWrite for EthercatFrameHeader {
    open spec fn plen(&self) -> nat { 2 }
    #[verifier::external_body]
    fn packed_len(&self) -> (r: usize) { 2 }
    #[verifier::external_body]
    fn pack_to_slice_unchecked<'buf>(&self, buf: &'buf mut [u8]) -> (r: &'buf [u8])
        ensures le16v(final(buf)@) == self.payload_len + 0x1000
    { unimplemented!() }
}
#[derive(Clone, Copy)]
pub struct LabeledTimeout { pub _p: u8 }
pub struct Timer { pub armed_with: LabeledTimeout }
/// timer_factory::timer: a timer armed with this timeout
#[verifier::external_body]
pub fn timer(timeout: LabeledTimeout) -> (r: Timer) ensures r.armed_with == timeout { unimplemented!() }
/// `&'sto PduLoop<'sto>` (only handed on)
#[derive(Clone, Copy)]
pub struct PduLoopRef { pub _p: u8 }
/*@type file=src/pdu_loop/frame_element/receiving_frame.rs name=ReceiveFrameFut subst="<'sto>=>@@FrameBox<'sto>=>FrameBox@@&'sto PduLoop<'sto>=>PduLoopRef@@crate::timer_factory::Timer=>Timer@@crate::timer_factory::LabeledTimeout=>LabeledTimeout" @*/

impl CreatedFrame {
/*@fn file=src/pdu_loop/frame_element/created_frame.rs impl="impl<'sto> CreatedFrame<'sto>" name=mark_sendable subst="&'sto PduLoop<'sto>=>PduLoopRef@@ReceiveFrameFut<'sto>=>ReceiveFrameFut@@crate::timer_factory::LabeledTimeout=>LabeledTimeout@@crate::timer_factory::timer(=>timer(" props=C04,C02,C06
    requires self.wf()
    ensures
        // the frame goes to the transmit task with a header that says how many datagram bytes follow (protocol type 1), its
        // datagram area untouched, state Sendable; the future holds THIS frame, the caller's retry count and a timer armed with
        // the caller's timeout
        r.frame is Some && (r.frame->Some_0).state == FrameState::Sendable
            && le16v((r.frame->Some_0).ecat_hdr@) == self.inner.payload_len + 0x1000
            && (r.frame->Some_0).area@ == self.inner.area@ && (r.frame->Some_0).payload_len == self.inner.payload_len
            && r.retries_left == retries && r.timeout == timeout && r.timeout_timer.armed_with == timeout,
@*/
}

} // verus!
fn main() {}

//@unit init_addr  props=C09  min_verified=3
// C09: the two per-position loops of MainDevice::init (R6 fragments, verbatim): station address assignment and SubDevice
// creation.  Register writes are observed through the predicate `wrote_u16(command, value)`.
use vstd::prelude::*;
verus! {

//@include prelude/errors.rs
//@include prelude/opaque_payloads.rs
//@include prelude/std_specs.rs
//@include prelude/wire_traits.rs
//@include prelude/command.rs

/*@const file=src/lib.rs name=BASE_SUBDEVICE_ADDRESS @*/

impl Command {
/*@fn file=src/command/mod.rs impl="impl Command" name=apwr props=C09
    ensures r.command == (Writes::Apwr { address: (if address == 0 { 0u16 } else { (0x10000 - address) as u16 }), register }),
        r.wkc == Some(1u16), r.len_override is None
@*/
}

/// "a datagram with this write command carrying the 16-bit value `v` was sent"
pub uninterp spec fn wrote_u16(c: Writes, v: u16) -> bool;

pub struct MainDevice { pub _p: u8 }

impl WrappedWrite {
    /// fire-and-forget write (documented to ignore the response)
    #[verifier::external_body]
    pub async fn send(self, maindevice: &MainDevice, data: u16) -> (r: Result<(), Error>)
        ensures r is Ok ==> wrote_u16(self.command, data)
    { unimplemented!() }
}

/// "every ring position i < n has been sent its station address 0x1000 + i" - what must hold BEFORE any device is read out
/// through its station address (a powered-up device may still hold an address that init hands to an earlier position, and
/// would then answer the same FPRD as that one)
pub open spec fn all_addressed(n: int) -> bool {
    forall|i: int| 0 <= i < n ==> wrote_u16(Writes::Apwr { address: #[trigger] auto_inc(i), register: 0x0010 }, ((0x1000 + i) % 0x10000) as u16)
}

/// auto-increment address of ring position i: 0 - i (mod 2^16)
pub open spec fn auto_inc(i: int) -> u16 { if i == 0 { 0u16 } else { (0x10000 - i) as u16 } }

/// stand-in for crate::SubDevice: what `SubDevice::new(maindevice, index, configured_address)` was called with
pub struct SubDevice { pub index: u16, pub configured_address: u16 }
impl SubDevice {
    /// real body reads identity / name / flags / alias / DL status of THAT configured address (not under contract here)
    #[verifier::external_body]
    pub async fn new(maindevice: &MainDevice, index: u16, configured_address: u16) -> (r: Result<SubDevice, Error>)
        ensures r is Ok ==> (r->Ok_0).index == index && (r->Ok_0).configured_address == configured_address
    { unimplemented!() }
}

/// stand-in for heapless::Deque<SubDevice, N>
pub struct Deque<const N: usize> { pub v: Vec<SubDevice> }
impl<const N: usize> Deque<N> {
    #[verifier::external_body]
    pub fn push_back(&mut self, item: SubDevice) -> (r: Result<(), SubDevice>)
        ensures
            (r is Ok) == (old(self).v@.len() < N),
            r is Ok ==> final(self).v@ == old(self).v@.push(item),
            r is Err ==> final(self).v@ == old(self).v@,
    { unimplemented!() }
}

impl MainDevice {
/*@fragment file=src/maindevice.rs impl="impl<'sto> MainDevice<'sto>" fn=init from="for subdevice_idx in 0..num_subdevices" to=".await?; }" name=init_assign_addresses alt=split qual="pub async" sig="&self, num_subdevices: u16 -> (r: Result<(), Error>)" tail="Ok(())" props=C09
    ensures
        // Ok => the device at EVERY ring position i < n was sent APWR(auto-increment 0-i, register 0x0010) <- 0x1000 + i
        r is Ok ==> forall|i: int| 0 <= i < num_subdevices ==>
            wrote_u16(Writes::Apwr { address: #[trigger] auto_inc(i), register: 0x0010 }, ((0x1000 + i) % 0x10000) as u16),
@loop 0
    invariant
        forall|i: int| 0 <= i < subdevice_idx ==>
            wrote_u16(Writes::Apwr { address: #[trigger] auto_inc(i), register: 0x0010 }, ((0x1000 + i) % 0x10000) as u16),
@*/

/*@fragment file=src/maindevice.rs impl="impl<'sto> MainDevice<'sto>" fn=init from="for subdevice_idx in 0..num_subdevices" from_nth=2 to=".map_err(|_| Error::Capacity(Item::SubDevice))?; }" name=init_create_subdevices alt=split generics="<const MAX_SUBDEVICES: usize>" qual="pub async" sig="&self, num_subdevices: u16, subdevices: &mut Deque<MAX_SUBDEVICES> -> (r: Result<(), Error>)" tail="Ok(())" subst="subdevices .push_back=>subdevices.push_back" props=C09
    requires
        old(subdevices).v@.len() == 0,
        all_addressed(num_subdevices as int),           // established by the loop in front (init_assign_addresses, Ok)
    ensures
        // Ok => exactly n SubDevices, the i-th created for ring position i with station address 0x1000 + i, in order
        r is Ok ==> final(subdevices).v@.len() == num_subdevices && num_subdevices <= MAX_SUBDEVICES
            && forall|i: int| 0 <= i < num_subdevices ==> (#[trigger] final(subdevices).v@[i]).index == i
                && final(subdevices).v@[i].configured_address == ((0x1000 + i) % 0x10000) as u16,
        // more devices than the caller's capacity is an error (never a panic or a silent truncation)
        num_subdevices > MAX_SUBDEVICES ==> r is Err,
@loop 0
    invariant
        all_addressed(num_subdevices as int),
        subdevices.v@.len() == subdevice_idx,
        subdevice_idx <= MAX_SUBDEVICES,
        forall|i: int| 0 <= i < subdevice_idx ==> (#[trigger] subdevices.v@[i]).index == i
            && subdevices.v@[i].configured_address == ((0x1000 + i) % 0x10000) as u16,
@loop_start 0
    proof {
        // ORDER: no device is read out through its station address before every position has been given its own
        assert(all_addressed(num_subdevices as int));
    }
@closure 0 "|_e: SubDevice| -> (cr: Error)"
    ensures cr == Error::Capacity(Item::SubDevice)
@*/

// the same contract for the OTHER structure these statements could have - one loop that addresses a position and at once
// creates its SubDevice: there the ordering obligation cannot hold (position idx + 1 has not been addressed when device idx is
// read out), which is exactly what the property forbids
/*@fragment file=src/maindevice.rs impl="impl<'sto> MainDevice<'sto>" fn=init from="let mut subdevices = heapless::Deque" to=".map_err(|_| Error::Capacity(Item::SubDevice))?; }" name=init_address_and_create alt=merged loops=1 generics="<const MAX_SUBDEVICES: usize>" qual="pub async" sig="&self, num_subdevices: u16, subdevices: &mut Deque<MAX_SUBDEVICES> -> (r: Result<(), Error>)" tail="Ok(())" subst="subdevices .push_back=>subdevices.push_back@@let mut subdevices = heapless::Deque::<SubDevice, MAX_SUBDEVICES>::new();=>" props=C09
    requires old(subdevices).v@.len() == 0
@loop 0
    invariant
        subdevices.v@.len() <= subdevice_idx,
        forall|i: int| 0 <= i < subdevice_idx ==>
            wrote_u16(Writes::Apwr { address: #[trigger] auto_inc(i), register: 0x0010 }, ((0x1000 + i) % 0x10000) as u16),
@before "let subdevice = SubDevice::new"
    proof {
        // ORDER: no device is read out through its station address before every position has been given its own
        assert(all_addressed(num_subdevices as int));
    }
@closure 0 "|_e: SubDevice| -> (cr: Error)"
    ensures cr == Error::Capacity(Item::SubDevice)
@*/
}

// ---- SubDevice::new from the register reads to the construction of the record (R6 fragment; the part in front - wait for INIT, EEPROM
//      ownership, identity and name from the EEPROM: units subdevice_eeprom / eeprom_items - is cut off; `write!` into a heapless
//      string is outside Verus' reach) ----
/*@type file=src/register.rs name=SupportFlags derive="Clone, Copy, PartialEq, Eq, Debug" @*/
/*@type file=src/register.rs name=DcSupport derive="Clone, Copy, PartialEq, Eq, Debug" @*/
impl SupportFlags {
/*@fn file=src/register.rs impl="impl SupportFlags" name=dc_support props=C09,C17
    ensures r == (if !self.dc_supported { DcSupport::None } else if !self.enhanced_dc_sync { DcSupport::RefOnly } else if self.has_64bit_dc { DcSupport::Bits64 } else { DcSupport::Bits32 })
@*/
}
/// DL status as far as it is used (link bits; layout: C19 wire_dl_status)
pub struct DlStatus { pub link_port0: bool, pub link_port1: bool, pub link_port2: bool, pub link_port3: bool }
/// Ports::new(active0, active3, active1, active2): EtherCAT port order 0 -> 3 -> 1 -> 2 (src/subdevice/ports.rs; Kani group ports)
pub struct Ports { pub a0: bool, pub a3: bool, pub a1: bool, pub a2: bool }
impl Ports {
    #[verifier::external_body]
    pub fn new(active0: bool, active3: bool, active1: bool, active2: bool) -> (r: Self)
        ensures r == (Ports { a0: active0, a3: active3, a1: active1, a2: active2 })
    { unimplemented!() }
}
pub struct Opaque { pub _p: u8 }
pub struct SubDeviceConfig { pub _p: u8 }
impl SubDeviceConfig {
    #[verifier::external_body]
    pub fn default() -> (r: Self) { unimplemented!() }
}
pub enum DcSync { Disabled, Other }
/// AtomicU8 as far as its initial value goes
pub struct AtomicU8 { pub init: u8 }
impl AtomicU8 {
    #[verifier::external_body]
    pub fn new(v: u8) -> (r: Self) ensures r.init == v { unimplemented!() }
}
pub struct Slice0 { pub _p: u8 }
/// the record SubDevice::new builds (field names of src/subdevice/mod.rs)
pub struct SubDeviceRec {
    pub configured_address: u16, pub alias_address: u16, pub config: SubDeviceConfig, pub index: u16, pub parent_index: Option<u16>,
    pub propagation_delay: u32, pub dc_receive_time: u64, pub identity: Opaque, pub name: Opaque, pub dc_support: DcSupport, pub ports: Ports,
    pub dc_sync: DcSync, pub mailbox_counter: AtomicU8, pub oversampling_config: Slice0,
}

/// "a checked read of register `reg` of station `addr` returned the value v"
pub uninterp spec fn flags_read(addr: u16, reg: u16, v: SupportFlags) -> bool;
pub uninterp spec fn u16_read(addr: u16, reg: u16, v: u16) -> bool;
pub uninterp spec fn dl_read(addr: u16, reg: u16, v: DlStatus) -> bool;

pub struct RdCmd { pub addr: u16, pub reg: u16 }
impl RdCmd {
    /// real body: WrappedRead::receive (unit wrapped): checked read of the register of exactly this station
    #[verifier::external_body]
    pub async fn receive_flags(self, maindevice: &MainDevice) -> (r: Result<SupportFlags, Error>)
        ensures r is Ok ==> flags_read(self.addr, self.reg, r->Ok_0)
    { unimplemented!() }
    #[verifier::external_body]
    pub async fn receive_u16(self, maindevice: &MainDevice) -> (r: Result<u16, Error>)
        ensures r is Ok ==> u16_read(self.addr, self.reg, r->Ok_0)
    { unimplemented!() }
    #[verifier::external_body]
    pub async fn receive_dl(self, maindevice: &MainDevice) -> (r: Result<DlStatus, Error>)
        ensures r is Ok ==> dl_read(self.addr, self.reg, r->Ok_0)
    { unimplemented!() }
}
pub struct SdRef { pub configured_address: u16 }
impl SdRef {
    /// SubDeviceRef::read (unit pdi_config): FPRD to this device's own station address
    #[verifier::external_body]
    pub fn read(&self, register: RegisterAddress) -> (r: RdCmd)
        ensures r.addr == self.configured_address, r.reg == register as u16
    { unimplemented!() }
}

/*@fragment file=src/subdevice/mod.rs impl="impl SubDevice" fn=new from="let flags = subdevice_ref" to="oversampling_config: &[], })" name=subdevice_new_tail qual="pub async" sig="maindevice: &MainDevice, subdevice_ref: &SdRef, index: u16, configured_address: u16, identity: Opaque, name: Opaque -> (r: Result<SubDeviceRec, Error>)" tail="" subst=".receive::<SupportFlags>(=>.receive_flags(@@.receive::<u16>(=>.receive_u16(@@.receive::<DlStatus>(=>.receive_dl(@@Ok(Self {=>Ok(SubDeviceRec {@@oversampling_config: &[]=>oversampling_config: Slice0 { _p: 0 }" props=C09,C15
    requires subdevice_ref.configured_address == configured_address
    ensures
        // the record describes THE device at the configured address: ring position and address as given, alias = register 0x0012,
        // DC capability from the feature flags at 0x0008, ports from the DL status at 0x0110 in EtherCAT order 0, 3, 1, 2 - all
        // read from that station address and no other; no parent, no delay yet; the mailbox counter starts at 1 (0 is reserved)
        r is Ok ==> ({
            let d = r->Ok_0;
            &&& d.configured_address == configured_address && d.index == index
            &&& u16_read(configured_address, 0x0012, d.alias_address)
            &&& exists|f: SupportFlags| #[trigger] flags_read(configured_address, 0x0008, f) && d.dc_support == (if !f.dc_supported { DcSupport::None } else if !f.enhanced_dc_sync { DcSupport::RefOnly } else if f.has_64bit_dc { DcSupport::Bits64 } else { DcSupport::Bits32 })
            &&& exists|s: DlStatus| #[trigger] dl_read(configured_address, 0x0110, s) && d.ports == (Ports { a0: s.link_port0, a3: s.link_port3, a1: s.link_port1, a2: s.link_port2 })
            &&& d.parent_index is None && d.propagation_delay == 0 && d.dc_receive_time == 0
            &&& d.mailbox_counter.init == 1
        }),
@closure 0 "|dl_status: DlStatus| -> (cr: Ports)"
    ensures cr == (Ports { a0: dl_status.link_port0, a3: dl_status.link_port3, a1: dl_status.link_port1, a2: dl_status.link_port2 })
@*/

/// the station addresses handed out are pairwise distinct (u16 ring positions)
pub proof fn addresses_distinct(i: int, j: int)
    requires 0 <= i < 0x10000, 0 <= j < 0x10000, i != j
    ensures (0x1000 + i) % 0x10000 != (0x1000 + j) % 0x10000
{
}

} // verus!
fn main() {}

//@unit rx_route  props=C01,C05  min_verified=4
// PduRx::receive_frame extracted WHOLE (src/pdu_loop/pdu_rx.rs) together with the EthernetFrame accessors it uses
// (src/ethernet.rs, instantiated for a byte slice): the ROUTING decision for ANY number of slots, ANY slot size and ANY input
// length - the unbounded counterpart of the bounded Kani harnesses rx_receive_frame / rx_receive_genuine.
// The slot storage (raw pointers, atomics) is seen through the contracts proved on the real pointer code by the Kani groups
// `storage` and `slots`: lookup by first-datagram index = lowest slot whose marker matches; claim_receiving succeeds iff the slot
// is Sent; mark_received publishes the bytes copied into the slot's datagram area.
// Decided: the outcome is EXACTLY `route(..)` - a function of the input bytes, the markers and the slot states taken from the
// property statement - in both directions: what is Ignored, what is an error (and which), and that a genuine response is stored
// byte-exact into the one slot that awaits it.
use vstd::prelude::*;
verus! {

//@include prelude/errors.rs
//@include prelude/opaque_payloads.rs
//@include prelude/opaque_command.rs
//@include prelude/std_specs.rs

// ---- Ethernet II frame view over a byte slice (src/ethernet.rs, `T = &[u8]`) ----
#[derive(Clone, Copy, PartialEq, Eq, Debug)]
pub struct EthernetAddress(pub [u8; 6]);
pub assume_specification[ <EthernetAddress as PartialEq>::eq ](a: &EthernetAddress, b: &EthernetAddress) -> (r: bool)
    ensures r == (a.0@ == b.0@);

impl EthernetAddress { pub const BROADCAST: EthernetAddress = EthernetAddress([0xff, 0xff, 0xff, 0xff, 0xff, 0xff]); }
pub struct EthernetFrame<'a> { pub buffer: &'a [u8] }
pub const ETHERNET_HEADER_LEN: usize = 14;
pub open spec fn be16(b: Seq<u8>, i: int) -> u16 { (b[i] as u16 * 256 + b[i + 1] as u16) as u16 }

impl<'a> EthernetFrame<'a> {
/*@fn file=src/ethernet.rs impl="impl<T: AsRef<[u8]>> EthernetFrame<T>" name=new_unchecked subst="EthernetFrame<T>=>EthernetFrame<'a>@@T=>&'a [u8]" props=C05 canary=0
    ensures r.buffer@ == buffer@
@*/
/*@fn file=src/ethernet.rs impl="impl<T: AsRef<[u8]>> EthernetFrame<T>" name=check_len subst="self.buffer.as_ref()=>self.buffer" props=C05
    ensures (r is Ok) == (self.buffer@.len() >= 14), r is Err ==> r->Err_0 == Error::Pdu(PduError::Ethernet)
@*/
/*@fn file=src/ethernet.rs impl="impl<T: AsRef<[u8]>> EthernetFrame<T>" name=new_checked subst="EthernetFrame<T>=>EthernetFrame<'a>@@T=>&'a [u8]" props=C05
    ensures
        (r is Ok) == (buffer@.len() >= 14),
        r is Ok ==> (r->Ok_0).buffer@ == buffer@,
        r is Err ==> r->Err_0 == Error::Pdu(PduError::Ethernet),
@*/
    /// accessors (slice indexing with constant ranges, `from_be_bytes`, `copy_from_slice`): values taken from the named bytes -
    /// checked on the real code by the Kani harness rx::eth_accessors
    #[verifier::external_body]
    pub fn src_addr(&self) -> (r: EthernetAddress)
        requires self.buffer@.len() >= 14
        ensures r.0@ == self.buffer@.subrange(6, 12)
    { unimplemented!() }
    #[verifier::external_body]
    pub fn dst_addr(&self) -> (r: EthernetAddress)
        requires self.buffer@.len() >= 14
        ensures r.0@ == self.buffer@.subrange(0, 6)
    { unimplemented!() }
    #[verifier::external_body]
    pub fn ethertype(&self) -> (r: u16)
        ensures self.buffer@.len() >= 14 ==> r == be16(self.buffer@, 12)
    { unimplemented!() }
    #[verifier::external_body]
    pub fn payload(&self) -> (r: &'a [u8])
        requires self.buffer@.len() >= 14
        ensures r@ == self.buffer@.subrange(14, self.buffer@.len() as int)
    { unimplemented!() }
}

// ---- EtherCAT frame header (hand-written impl; Kani group frame_header: every 16-bit value) ----
pub struct EthercatFrameHeader { pub payload_len: u16 }
pub open spec fn le16(b: Seq<u8>, i: int) -> u16 { (b[i] as u16 + 256 * (b[i + 1] as u16)) as u16 }
impl EthercatFrameHeader {
    pub const PACKED_LEN: usize = 2;
    #[verifier::external_body]
    pub fn unpack_from_slice(buf: &[u8]) -> (r: Result<Self, WireError>)
        ensures
            (r is Ok) == (buf@.len() >= 2 && le16(buf@, 0) / 0x1000 == 1),
            r is Ok ==> (r->Ok_0).payload_len == le16(buf@, 0) % 0x800,
    { unimplemented!() }
}
impl From<WireError> for Error {
    fn from(value: WireError) -> (r: Self) ensures r == Error::Wire(value) { Error::Wire(value) }
}
impl vstd::std_specs::convert::FromSpecImpl<WireError> for Error {
    open spec fn obeys_from_spec() -> bool { true }
    open spec fn from_spec(v: WireError) -> Error { Error::Wire(v) }
}
pub assume_specification<T, E, F: FnOnce(&E)>[ Result::<T, E>::inspect_err ](r: Result<T, E>, f: F) -> (o: Result<T, E>)
    requires r is Err ==> f.requires((&r->Err_0,)),
    ensures o == r;

pub const ETHERCAT_ETHERTYPE: u16 = 0x88a4;

// ---- the slot storage seen from the receive side ----
/// one slot: is it awaiting a response (state Sent)? which first-datagram index does its marker hold (None = empty sentinel)?
pub struct Slot { pub sent: bool, pub marker: Option<u8> }
/// "slot `k` is now RxDone and its datagram area starts with exactly these bytes (the rest of the area is what it was)"
pub uninterp spec fn slot_filled(k: int, bytes: Seq<u8>) -> bool;

pub open spec fn lowest_match(slots: Seq<Slot>, idx: u8, k: int) -> bool {
    0 <= k < slots.len() && slots[k].marker == Some(idx) && forall|j: int| 0 <= j < k ==> (#[trigger] slots[j]).marker != Some(idx)
}

pub struct ReceivingFrame { pub index: u8, pub area: Vec<u8> }
impl ReceivingFrame {
    /// the slot's datagram area (FrameBox::pdu_buf_mut)
    #[verifier::external_body]
    pub fn buf_mut(&mut self) -> (r: &mut [u8])
        ensures r@ == old(self).area@, final(self).area@ == final(r)@, final(self).index == old(self).index
    { unimplemented!() }
    /// RxBusy -> RxDone and wake (Kani slots::slot_mark_received): the claim just made guarantees the state
    #[verifier::external_body]
    pub fn mark_received(&self) -> (r: Result<(), PduError>)
        ensures r is Ok, slot_filled(self.index as int, self.area@)
    { unimplemented!() }
}

/// (`frame_data_len`: the size of a whole slot buffer - Ethernet header + EtherCAT header + datagram area)
pub struct PduStorageRef { pub slots: Ghost<Seq<Slot>>, pub area_len: Ghost<int>, pub exit: bool, pub frame_data_len: usize }
impl PduStorageRef {
    /// Kani storage::sto_find_n2/n4
    #[verifier::external_body]
    pub fn frame_index_by_first_pdu_index(&self, search_pdu_idx: u8) -> (r: Option<u8>)
        ensures
            r is Some ==> lowest_match(self.slots@, search_pdu_idx, r->Some_0 as int),
            r is None ==> forall|j: int| 0 <= j < self.slots@.len() ==> (#[trigger] self.slots@[j]).marker != Some(search_pdu_idx),
    { unimplemented!() }
    /// Kani storage::sto_claim_receiving_n2, slots::slot_claim_receiving: Some iff the slot exists and is Sent
    #[verifier::external_body]
    pub fn claim_receiving(&self, frame_idx: u8) -> (r: Option<ReceivingFrame>)
        ensures
            (r is Some) == (frame_idx < self.slots@.len() && self.slots@[frame_idx as int].sent),
            r is Some ==> (r->Some_0).index == frame_idx && (r->Some_0).area@.len() == self.area_len@,
    { unimplemented!() }
}

/*@type file=src/pdu_loop/pdu_rx.rs name=ReceiveAction derive="Clone, Copy, PartialEq, Eq, Debug" @*/
pub struct PduRx { pub storage: PduStorageRef, pub source_mac: EthernetAddress }

/// the outcome the property statement asks for
pub enum Route { Ignored, Rejected, Deliver(int, Seq<u8>) }
pub open spec fn route(rx: &PduRx, f: Seq<u8>) -> Route {
    let n = f.len() as int;
    if rx.storage.exit { Route::Ignored }
    else if n < 14 { Route::Rejected }
    else if be16(f, 12) != 0x88a4 || f.subrange(6, 12) == rx.source_mac.0@ { Route::Ignored }         // strangers and our own echo
    else if n < 16 || le16(f, 14) / 0x1000 != 1 { Route::Rejected }                                   // no / foreign EtherCAT frame header
    else {
        let plen = (le16(f, 14) % 0x800) as int;
        if plen == 0 { Route::Ignored }
        else if 16 + plen > n { Route::Rejected }                                                     // truncated
        else if plen < 2 { Route::Rejected }                                                          // no index byte
        else {
            let idx = f[17];
            if forall|j: int| 0 <= j < rx.storage.slots@.len() ==> (#[trigger] rx.storage.slots@[j]).marker != Some(idx) { Route::Rejected }
            else {
                let k = choose|k: int| lowest_match(rx.storage.slots@, idx, k);
                if !rx.storage.slots@[k].sent { Route::Rejected }                                     // nobody awaits this response
                else if plen > rx.storage.area_len@ { Route::Rejected }                               // does not fit the slot
                else { Route::Deliver(k, f.subrange(16, 16 + plen)) }
            }
        }
    }
}

impl PduRx {
    #[verifier::external_body]
    pub fn should_exit(&self) -> (r: bool) ensures r == self.storage.exit { unimplemented!() }

/*@fn file=src/pdu_loop/pdu_rx.rs impl="impl<'sto> PduRx<'sto>" name=receive_frame props=C01,C05
    requires old(self).storage.slots@.len() <= 256, old(self).storage.area_len@ >= 0
    ensures
        final(self).storage.slots@ == old(self).storage.slots@, final(self).source_mac == old(self).source_mac,
        match route(old(self), ethernet_frame@) {
            Route::Ignored => r == Ok::<ReceiveAction, Error>(ReceiveAction::Ignored),
            Route::Rejected => r is Err,
            Route::Deliver(k, bytes) => r == Ok::<ReceiveAction, Error>(ReceiveAction::Processed)
                && exists|area: Seq<u8>| #[trigger] slot_filled(k, area) && area.len() == old(self).storage.area_len@
                    && area.subrange(0, bytes.len() as int) == bytes,
        },
@after "let i = raw_packet.payload();"
    let ghost pay0 = i@;
    proof {
        let f = ethernet_frame@;
        assert(pay0 == f.subrange(14, f.len() as int));
        if f.len() >= 16 { assert(pay0[0] == f[14] && pay0[1] == f[15]); assert(le16(pay0, 0) == le16(f, 14)); }
    }
@after "frame.mark_received()?;"
    proof {
        let f = ethernet_frame@;
        assert(i@ =~= pay0.subrange(2, 2 + i@.len() as int));
        assert(i@[1] == f[17]);
        assert(pdu_idx == f[17]);
        assert((le16(f, 14) % 0x800) as int == i@.len());
        let slots = self.storage.slots@;
        let k = frame_index as int;
        let kk = choose|kk: int| lowest_match(slots, pdu_idx, kk);
        assert(lowest_match(slots, pdu_idx, k));
        assert(kk == k) by {
            if kk < k { assert(slots[kk].marker != Some(pdu_idx)); }
            if k < kk { assert(slots[k].marker != Some(pdu_idx)); }
        }
        assert(i@ =~= f.subrange(16, 16 + i@.len() as int));
        assert(frame.area@.subrange(0, i@.len() as int) =~= i@);
        assert(slot_filled(k, frame.area@));
        let plen = (le16(f, 14) % 0x800) as int;
        let bytes = f.subrange(16, 16 + plen);
        assert(le16(f, 14) / 0x1000 == 1);
        assert(!(forall|j: int| 0 <= j < slots.len() ==> (#[trigger] slots[j]).marker != Some(f[17])));
        let rt = route(old(self), f);
        assert(rt == Route::Deliver(k, bytes));
        assert(rt->Deliver_0 == k && rt->Deliver_1 == bytes);
        assert(frame.area@.subrange(0, bytes.len() as int) == bytes);
    }
@closure 0 "|_e: &WireError|" of=inspect_err
@closure 0 "|| -> (cr: Error)" of=ok_or_else
    ensures cr == Error::ReceiveFrame
@*/
}

} // verus!
fn main() {}

//@unit dc_params  props=C17  min_verified=2
// C17: write_dc_parameters (src/dc.rs) extracted whole: what is programmed into a DC SubDevice.
// Decided for EVERY 64-bit receive time and master time: no overflow / panic; the system-time offset sent to register 0x0920 of
// that device's own station address is (master time - latched receive time) in 64-bit two's complement, and the propagation
// delay computed for it is sent to 0x0928.
use vstd::prelude::*;
verus! {

//@include prelude/errors.rs
//@include prelude/opaque_payloads.rs
//@include prelude/std_specs.rs
//@include prelude/wire_traits.rs
//@include prelude/opaque_maindevice.rs
//@include prelude/received_pdu.rs
//@include prelude/command.rs

/// "the value `v` was sent with this write command"
pub uninterp spec fn reg_sent(cmd: Writes, v: int) -> bool;
pub trait WireVal { spec fn val(&self) -> int; }
impl WireVal for i64 { open spec fn val(&self) -> int { *self as int } }
impl WireVal for u32 { open spec fn val(&self) -> int { *self as int } }

impl WrappedWrite {
    /// real bodies: src/command/writes.rs (unit `wrapped`)
    #[verifier::external_body]
    pub fn ignore_wkc(self) -> (r: Self) ensures r.command == self.command { unimplemented!() }
    #[verifier::external_body]
    pub async fn send<D: WireVal>(self, maindevice: &MainDevice, data: D) -> (r: Result<(), Error>)
        ensures r is Ok ==> reg_sent(self.command, data.val())
    { unimplemented!() }
}

/*@type file=src/register.rs name=DcSupport derive="Clone, Copy, PartialEq, Eq, Debug" @*/
impl DcSupport {
/*@fn file=src/register.rs impl="impl DcSupport" name=any props=C17
    ensures r == !(*self is None)
@*/
/*@fn file=src/register.rs impl="impl DcSupport" name=enhanced props=C17
    ensures r == (*self is Bits64 || *self is Bits32)
@*/
}

/// the fields of SubDevice read here
pub struct SubDevice { pub configured_address: u16, pub dc_receive_time: u64, pub propagation_delay: u32, pub dc_support: DcSupport }
impl SubDevice {
    pub fn configured_address(&self) -> (r: u16) ensures r == self.configured_address { self.configured_address }
    pub fn dc_support(&self) -> (r: DcSupport) ensures r == self.dc_support { self.dc_support }
}
pub open spec fn has_dc(d: SubDevice) -> bool { !(d.dc_support is None) }

/// `subdevices.iter()` (R8) with the two adapters used on it here
pub struct SdIter<'a> { pub rest: &'a [SubDevice] }
pub struct DcOnly<'a> { pub all: &'a [SubDevice], pub next_from: Ghost<int> }
#[verifier::external_body]
pub fn sd_iter<'a>(s: &'a [SubDevice]) -> (r: SdIter<'a>) ensures r.rest@ == s@ { unimplemented!() }
impl<'a> SdIter<'a> {
    /// Iterator::find: the FIRST element the predicate accepts
    #[verifier::external_body]
    pub fn find<F: Fn(&&SubDevice) -> bool>(self, f: F) -> (r: Option<&'a SubDevice>)
        requires
            forall|d: &&SubDevice| #[trigger] f.requires((d,)),
            forall|d: &&SubDevice, b: bool| #[trigger] f.ensures((d,), b) ==> b == has_dc(**d),
        ensures
            r is None ==> forall|i: int| 0 <= i < self.rest@.len() ==> !has_dc(#[trigger] self.rest@[i]),
            r is Some ==> exists|k: int| 0 <= k < self.rest@.len() && *(r->Some_0) == #[trigger] self.rest@[k] && has_dc(self.rest@[k])
                && forall|i: int| 0 <= i < k ==> !has_dc(#[trigger] self.rest@[i]),
    { unimplemented!() }
    /// Iterator::filter for the same predicate: yields, in order, exactly the elements with DC support
    #[verifier::external_body]
    pub fn filter<F: Fn(&&SubDevice) -> bool>(self, f: F) -> (r: DcOnly<'a>)
        requires
            forall|d: &&SubDevice| #[trigger] f.requires((d,)),
            forall|d: &&SubDevice, b: bool| #[trigger] f.ensures((d,), b) ==> b == has_dc(**d),
        ensures r.all@ == self.rest@, r.next_from@ == 0,
    { unimplemented!() }
}
impl<'a> DcOnly<'a> {
    /// the next element with DC support at or after position next_from
    #[verifier::external_body]
    pub fn next(&mut self) -> (r: Option<&'a SubDevice>)
        requires 0 <= old(self).next_from@ <= old(self).all@.len()
        ensures
            final(self).all@ == old(self).all@,
            old(self).next_from@ <= final(self).next_from@ <= old(self).all@.len(),
            r is None ==> final(self).next_from@ == old(self).all@.len()
                && forall|i: int| old(self).next_from@ <= i < old(self).all@.len() ==> !has_dc(#[trigger] old(self).all@[i]),
            r is Some ==> final(self).next_from@ > old(self).next_from@ && *(r->Some_0) == old(self).all@[final(self).next_from@ - 1] && has_dc(*(r->Some_0))
                && forall|i: int| old(self).next_from@ <= i < final(self).next_from@ - 1 ==> !has_dc(#[trigger] old(self).all@[i]),
    { unimplemented!() }
}

/// what the two passes in front of the parameter writes may change: times, ports and delays - not which device is where, nor
/// its DC capability (latch_dc_times: iterator adapters; assign_parent_relationships: Kani group `dc`)
pub open spec fn same_devices(a: Seq<SubDevice>, b: Seq<SubDevice>) -> bool {
    a.len() == b.len() && forall|i: int| 0 <= i < a.len() ==> (#[trigger] a[i]).configured_address == b[i].configured_address && a[i].dc_support == b[i].dc_support
}
#[verifier::external_body]
pub async fn latch_dc_times(maindevice: &MainDevice, subdevices: &mut [SubDevice]) -> (r: Result<(), Error>)
    ensures same_devices(final(subdevices)@, old(subdevices)@)
{ unimplemented!() }
#[verifier::external_body]
pub fn assign_parent_relationships(subdevices: &mut [SubDevice]) -> (r: Result<(), Error>)
    ensures same_devices(final(subdevices)@, old(subdevices)@)
{ unimplemented!() }

/// (a - b) as a 64-bit two's complement number
pub open spec fn diff64(a: u64, b: u64) -> int {
    let d: int = if a >= b { a - b } else { a - b + 0x1_0000_0000_0000_0000 };      // (a - b) mod 2^64
    if d >= 0x8000_0000_0000_0000 { d - 0x1_0000_0000_0000_0000 } else { d }
}

pub proof fn lemma_trunc(w: u64)
    ensures (#[verifier::truncate] (w as i64)) as int == (if w >= 0x8000_0000_0000_0000u64 { w as int - 0x1_0000_0000_0000_0000 } else { w as int })
{
    let r = #[verifier::truncate] (w as i64);
    assert(r as int == (if w >= 0x8000_0000_0000_0000u64 { w as int - 0x1_0000_0000_0000_0000 } else { w as int })) by (bit_vector)
        requires r == #[verifier::truncate] (w as i64);
}

// (rule R19: integer `as` casts are marked truncating - Verus leaves an out-of-range cast unspecified otherwise)
/*@fn file=src/dc.rs name=write_dc_parameters subst="MainDevice<'_>=>MainDevice" truncate_casts=1 props=C17
    ensures
        r is Ok ==> reg_sent(Writes::Fpwr { address: subdevice.configured_address, register: 0x0920 }, diff64(now_nanos, subdevice.dc_receive_time))
            && reg_sent(Writes::Fpwr { address: subdevice.configured_address, register: 0x0928 }, subdevice.propagation_delay as int),
@entry
    proof {
        let w: int = if now_nanos >= subdevice.dc_receive_time { now_nanos - subdevice.dc_receive_time } else { now_nanos - subdevice.dc_receive_time + 0x1_0000_0000_0000_0000 };
        lemma_trunc(w as u64);
    }
@*/

/// every DC-capable device was programmed against the master time t
pub open spec fn all_programmed(devs: Seq<SubDevice>, upto: int, t: u64) -> bool {
    forall|i: int| 0 <= i < upto && has_dc(#[trigger] devs[i]) ==>
        reg_sent(Writes::Fpwr { address: devs[i].configured_address, register: 0x0920 }, diff64(t, devs[i].dc_receive_time))
        && reg_sent(Writes::Fpwr { address: devs[i].configured_address, register: 0x0928 }, devs[i].propagation_delay as int)
}

/*@fn file=src/dc.rs name=configure_dc subst="<'subdevices>=><'subdevices, NowFn: Fn() -> u64>@@MainDevice<'_>=>MainDevice@@impl Fn() -> u64=>NowFn@@subdevices .iter()=>sd_iter(subdevices)" props=C17 attr="#[verifier::loop_isolation(false)] #[verifier::allow_complex_invariants]"
    requires now.requires(())
    ensures
        final(subdevices)@.len() == old(subdevices)@.len(),
        // the reference clock is the FIRST DC-capable device in frame-processing order (None iff there is none)
        r is Ok && r->Ok_0 is None ==> forall|i: int| 0 <= i < final(subdevices)@.len() ==> !has_dc(#[trigger] final(subdevices)@[i]),
        r is Ok && r->Ok_0 is Some ==> exists|k: int| 0 <= k < final(subdevices)@.len() && *(r->Ok_0->Some_0) == #[trigger] final(subdevices)@[k]
            && has_dc(final(subdevices)@[k]) && forall|i: int| 0 <= i < k ==> !has_dc(#[trigger] final(subdevices)@[i]),
        // every DC-capable device - and one master time for all of them - was programmed with (master time - its receive time)
        // and its own propagation delay
        r is Ok && r->Ok_0 is Some ==> exists|t: u64| #[trigger] all_programmed(final(subdevices)@, final(subdevices)@.len() as int, t),
@closure 0 "|subdevice: &&SubDevice| -> (cb: bool)"
    ensures cb == has_dc(**subdevice)
@closure 1 "|sl: &&SubDevice| -> (cb: bool)"
    ensures cb == has_dc(**sl)
@loop 0
    invariant
        __it0.all@ == subdevices@, 0 <= __it0.next_from@ <= subdevices@.len(),
        all_programmed(subdevices@, __it0.next_from@, now_nanos),
    ensures
        __it0.next_from@ == subdevices@.len(),
    decreases subdevices@.len() - __it0.next_from@
@after_loop 0
    proof { assert(all_programmed(subdevices@, subdevices@.len() as int, now_nanos)); }
@*/

} // verus!
fn main() {}

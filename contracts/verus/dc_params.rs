//@unit dc_params  props=C17  min_verified=2
// C17: write_dc_parameters (src/dc.rs) extracted whole: what is programmed into a DC SubDevice.
// Decided for EVERY 64-bit receive time and master time: no overflow / panic; the system-time offset sent to register 0x0920 of
// that device's own station address is (master time - latched receive time) in 64-bit two's complement, and the propagation
// delay computed for it is sent to 0x0928.
use vstd::prelude::*;
verus! {

//@include prelude/errors.rs
//@include prelude/opaque_payloads.rs
//@include prelude/std_specs.rs
//@include prelude/wire_traits.rs
//@include prelude/opaque_maindevice.rs
//@include prelude/received_pdu.rs
//@include prelude/command.rs

/// "the value `v` was sent with this write command"
pub uninterp spec fn reg_sent(cmd: Writes, v: int) -> bool;
pub trait WireVal { spec fn val(&self) -> int; }
impl WireVal for i64 { open spec fn val(&self) -> int { *self as int } }
impl WireVal for u32 { open spec fn val(&self) -> int { *self as int } }

impl WrappedWrite {
    /// real bodies: src/command/writes.rs (unit `wrapped`)
    #[verifier::external_body]
    pub fn ignore_wkc(self) -> (r: Self) ensures r.command == self.command { unimplemented!() }
    #[verifier::external_body]
    pub async fn send<D: WireVal>(self, maindevice: &MainDevice, data: D) -> (r: Result<(), Error>)
        ensures r is Ok ==> reg_sent(self.command, data.val())
    { unimplemented!() }
}

/// the fields of SubDevice read here
pub struct SubDevice { pub configured_address: u16, pub dc_receive_time: u64, pub propagation_delay: u32 }
impl SubDevice {
    pub fn configured_address(&self) -> (r: u16) ensures r == self.configured_address { self.configured_address }
}

/// (a - b) as a 64-bit two's complement number
pub open spec fn diff64(a: u64, b: u64) -> int {
    let d: int = if a >= b { a - b } else { a - b + 0x1_0000_0000_0000_0000 };      // (a - b) mod 2^64
    if d >= 0x8000_0000_0000_0000 { d - 0x1_0000_0000_0000_0000 } else { d }
}

pub proof fn lemma_trunc(w: u64)
    ensures (#[verifier::truncate] (w as i64)) as int == (if w >= 0x8000_0000_0000_0000u64 { w as int - 0x1_0000_0000_0000_0000 } else { w as int })
{
    let r = #[verifier::truncate] (w as i64);
    assert(r as int == (if w >= 0x8000_0000_0000_0000u64 { w as int - 0x1_0000_0000_0000_0000 } else { w as int })) by (bit_vector)
        requires r == #[verifier::truncate] (w as i64);
}

// (`as i64` of a u64: Verus leaves an out-of-range cast unspecified unless it is marked as truncating - the marker adds the
//  two's complement meaning Rust defines for the cast, it does not change the code)
/*@fn file=src/dc.rs name=write_dc_parameters subst="MainDevice<'_>=>MainDevice@@now_nanos.wrapping_sub(subdevice.dc_receive_time) as i64=>(#[verifier::truncate] (now_nanos.wrapping_sub(subdevice.dc_receive_time) as i64))" props=C17
    ensures
        r is Ok ==> reg_sent(Writes::Fpwr { address: subdevice.configured_address, register: 0x0920 }, diff64(now_nanos, subdevice.dc_receive_time))
            && reg_sent(Writes::Fpwr { address: subdevice.configured_address, register: 0x0928 }, subdevice.propagation_delay as int),
@entry
    proof {
        let w: int = if now_nanos >= subdevice.dc_receive_time { now_nanos - subdevice.dc_receive_time } else { now_nanos - subdevice.dc_receive_time + 0x1_0000_0000_0000_0000 };
        lemma_trunc(w as u64);
    }
@*/

} // verus!
fn main() {}

//@unit group_typestate  props=C10  min_verified=8
// C10: the typestate wrappers of SubDeviceGroup (src/subdevice_group/mod.rs) extracted WHOLE: into_op / into_safe_op / into_init /
// into_pre_op / request_into_op in the impl blocks for PreOp, PreOpPdi, SafeOp and Op.  Each returns a group whose TYPE names a
// state; the contract ties that type to what was checked on the wire: a returned `SubDeviceGroup<.., S, ..>` is `claim_ok()`, i.e.
// the last successful transition_to it went through asked for - and saw every member in - exactly the state the marker type S
// stands for.  transition_to itself (request to every member, then one sweep in which every member reports the state, under the
// transition timeout) is the fragment `transition_request_and_wait` + wait_for_state / is_state of unit group_cycle; here it is the
// assumed callee.  request_into_op is documented as NOT waiting: its result claims only that OP was requested of every member.
use vstd::prelude::*;
verus! {

//@include prelude/errors.rs
//@include prelude/opaque_payloads.rs
//@include prelude/opaque_command.rs
//@include prelude/std_specs.rs
//@include prelude/opaque_maindevice.rs
use core::marker::PhantomData;

#[allow(non_upper_case_globals)]
impl SubDeviceState {
    // discriminants of the real enum (src/subdevice_state.rs; the derived wire impl is checked in C19)
    pub const None: SubDeviceState = SubDeviceState(0x00);
    pub const Bootstrap: SubDeviceState = SubDeviceState(0x03);
    pub const Init: SubDeviceState = SubDeviceState(0x01);
    pub const PreOp: SubDeviceState = SubDeviceState(0x02);
    pub const SafeOp: SubDeviceState = SubDeviceState(0x04);
    pub const Op: SubDeviceState = SubDeviceState(0x08);
}

pub trait RawRwLock {}
/// the typestate markers (src/subdevice_group/group_id.rs / mod.rs) and the AL state each one stands for
pub struct Init; pub struct PreOp; pub struct PreOpPdi; pub struct SafeOp; pub struct Op;
pub trait Marker { spec fn state() -> SubDeviceState; }
impl Marker for Init { open spec fn state() -> SubDeviceState { SubDeviceState(0x01) } }
impl Marker for PreOp { open spec fn state() -> SubDeviceState { SubDeviceState(0x02) } }
impl Marker for PreOpPdi { open spec fn state() -> SubDeviceState { SubDeviceState(0x02) } }
impl Marker for SafeOp { open spec fn state() -> SubDeviceState { SubDeviceState(0x04) } }
impl Marker for Op { open spec fn state() -> SubDeviceState { SubDeviceState(0x08) } }

/// what the wire has shown about the group behind this value
pub enum Seen {
    /// nothing checked since the value was made (a fresh PreOp group: MainDevice::init put every device into PRE-OP)
    Initial,
    /// every member reported this state in one sweep after it had been requested of every member (transition_to)
    AllIn(SubDeviceState),
    /// this state was requested of every member, nobody waited (request_into_op)
    Requested(SubDeviceState),
}
pub struct SubDeviceGroup<const MAX_SUBDEVICES: usize, const MAX_PDI: usize, R, S, DC> {
    pub seen: Ghost<Seen>, pub _r: PhantomData<R>, pub _s: PhantomData<S>, pub _d: PhantomData<DC>,
}
impl<const MAX_SUBDEVICES: usize, const MAX_PDI: usize, R: RawRwLock, S: Marker, DC> SubDeviceGroup<MAX_SUBDEVICES, MAX_PDI, R, S, DC> {
    /// the type does not claim more than was seen
    pub open spec fn claim_ok(&self) -> bool { self.seen@ == Seen::AllIn(S::state()) }

    /// unit group_cycle: fragment transition_request_and_wait (+ wait_for_state, is_state): Ok only if the request went to every
    /// member and every member then reported `desired_state`
    #[verifier::external_body]
    pub async fn transition_to<TO>(self, maindevice: &MainDevice, desired_state: SubDeviceState)
        -> (r: Result<SubDeviceGroup<MAX_SUBDEVICES, MAX_PDI, R, TO, DC>, Error>)
        ensures r is Ok ==> (r->Ok_0).seen@ == Seen::AllIn(desired_state)
    { unimplemented!() }
}

// ---- impl block 1: PreOp ----
impl<const MAX_SUBDEVICES: usize, const MAX_PDI: usize, R: RawRwLock, DC> SubDeviceGroup<MAX_SUBDEVICES, MAX_PDI, R, PreOp, DC> {
    /// configure_fmmus + re-wrap (unit group_config): no state change is claimed - PreOpPdi stands for PRE-OP, which is where init left
    /// the devices
    #[verifier::external_body]
    pub async fn into_pre_op_pdi(self, maindevice: &MainDevice) -> (r: Result<SubDeviceGroup<MAX_SUBDEVICES, MAX_PDI, R, PreOpPdi, DC>, Error>)
        ensures r is Ok ==> (r->Ok_0).seen@ == self.seen@
    { unimplemented!() }

/*@fn file=src/subdevice_group/mod.rs impl="impl<const MAX_SUBDEVICES: usize, const MAX_PDI: usize, R: RawRwLock, DC> SubDeviceGroup<MAX_SUBDEVICES, MAX_PDI, R, PreOp, DC>" name=into_op subst="MainDevice<'_>=>MainDevice" props=C10
    ensures r is Ok ==> (r->Ok_0).claim_ok()
@*/
/*@fn file=src/subdevice_group/mod.rs impl="impl<const MAX_SUBDEVICES: usize, const MAX_PDI: usize, R: RawRwLock, DC> SubDeviceGroup<MAX_SUBDEVICES, MAX_PDI, R, PreOp, DC>" name=into_safe_op subst="MainDevice<'_>=>MainDevice" props=C10
    ensures r is Ok ==> (r->Ok_0).claim_ok()
@*/
/*@fn file=src/subdevice_group/mod.rs impl="impl<const MAX_SUBDEVICES: usize, const MAX_PDI: usize, R: RawRwLock, DC> SubDeviceGroup<MAX_SUBDEVICES, MAX_PDI, R, PreOp, DC>" name=into_init subst="MainDevice<'_>=>MainDevice" props=C10
    ensures r is Ok ==> (r->Ok_0).claim_ok()
@*/
}

// ---- impl block 2: PreOpPdi ----
impl<const MAX_SUBDEVICES: usize, const MAX_PDI: usize, R: RawRwLock, DC> SubDeviceGroup<MAX_SUBDEVICES, MAX_PDI, R, PreOpPdi, DC> {
/*@fn file=src/subdevice_group/mod.rs impl="impl<const MAX_SUBDEVICES: usize, const MAX_PDI: usize, R: RawRwLock, DC> SubDeviceGroup<MAX_SUBDEVICES, MAX_PDI, R, PreOpPdi, DC>" name=into_safe_op subst="MainDevice<'_>=>MainDevice" props=C10
    ensures r is Ok ==> (r->Ok_0).claim_ok()
@*/
/*@fn file=src/subdevice_group/mod.rs impl="impl<const MAX_SUBDEVICES: usize, const MAX_PDI: usize, R: RawRwLock, DC> SubDeviceGroup<MAX_SUBDEVICES, MAX_PDI, R, PreOpPdi, DC>" name=into_op subst="MainDevice<'_>=>MainDevice" props=C10
    ensures r is Ok ==> (r->Ok_0).claim_ok()
@*/
/*@fn file=src/subdevice_group/mod.rs impl="impl<const MAX_SUBDEVICES: usize, const MAX_PDI: usize, R: RawRwLock, DC> SubDeviceGroup<MAX_SUBDEVICES, MAX_PDI, R, PreOpPdi, DC>" name=request_into_op subst="MainDevice<'_>=>MainDevice" props=C10
    ensures
        // not waited for, by design: OP was requested of every member - after the group had been SEEN in SAFE-OP
        r is Ok ==> (r->Ok_0).seen@ == Seen::Requested(SubDeviceState(0x08)),
@*/
/*@fn file=src/subdevice_group/mod.rs impl="impl<const MAX_SUBDEVICES: usize, const MAX_PDI: usize, R: RawRwLock, DC> SubDeviceGroup<MAX_SUBDEVICES, MAX_PDI, R, PreOpPdi, DC>" name=into_init subst="MainDevice<'_>=>MainDevice" props=C10
    ensures r is Ok ==> (r->Ok_0).claim_ok()
@*/
}

// ---- impl block 3: SafeOp ----
impl<const MAX_SUBDEVICES: usize, const MAX_PDI: usize, R: RawRwLock, DC> SubDeviceGroup<MAX_SUBDEVICES, MAX_PDI, R, SafeOp, DC> {
/*@fn file=src/subdevice_group/mod.rs impl="impl<const MAX_SUBDEVICES: usize, const MAX_PDI: usize, R: RawRwLock, DC> SubDeviceGroup<MAX_SUBDEVICES, MAX_PDI, R, SafeOp, DC>" name=into_op subst="MainDevice<'_>=>MainDevice" props=C10
    ensures r is Ok ==> (r->Ok_0).claim_ok()
@*/
/*@fn file=src/subdevice_group/mod.rs impl="impl<const MAX_SUBDEVICES: usize, const MAX_PDI: usize, R: RawRwLock, DC> SubDeviceGroup<MAX_SUBDEVICES, MAX_PDI, R, SafeOp, DC>" name=into_pre_op subst="MainDevice<'_>=>MainDevice" props=C10
    ensures r is Ok ==> (r->Ok_0).claim_ok()
@*/
    /// the loop that writes the request to every member is the same statement sequence as the head of transition_to (unit
    /// group_cycle, fragment transition_request_and_wait covers that form); here: the callee of PreOpPdi::request_into_op
    #[verifier::external_body]
    pub async fn request_into_op(self, maindevice: &MainDevice) -> (r: Result<SubDeviceGroup<MAX_SUBDEVICES, MAX_PDI, R, Op, DC>, Error>)
        requires self.claim_ok()
        ensures r is Ok ==> (r->Ok_0).seen@ == Seen::Requested(SubDeviceState(0x08))
    { unimplemented!() }
}

// ---- impl block 4: Op ----
impl<const MAX_SUBDEVICES: usize, const MAX_PDI: usize, R: RawRwLock, DC> SubDeviceGroup<MAX_SUBDEVICES, MAX_PDI, R, Op, DC> {
/*@fn file=src/subdevice_group/mod.rs impl="impl<const MAX_SUBDEVICES: usize, const MAX_PDI: usize, R: RawRwLock, DC> SubDeviceGroup<MAX_SUBDEVICES, MAX_PDI, R, Op, DC>" name=into_safe_op subst="MainDevice<'_>=>MainDevice" props=C10
    ensures r is Ok ==> (r->Ok_0).claim_ok()
@*/
}

} // verus!
fn main() {}

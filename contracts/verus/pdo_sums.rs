//@unit pdo_sums  props=C13,C16,C08  min_verified=2
// The body of the sync-manager loop of SubDeviceRef::configure_pdos_coe (src/subdevice/configuration.rs) as ONE fragment: from the
// bit-length accumulator to the end of the loop body.  Every number in it comes from the SubDevice (SDO replies: how many PDOs are
// assigned to the sync manager, which, how many mappings each has, how many bits each mapping is): decided for ANY replies - no
// overflow, no panic, terminating loops; the sync manager is written with ceil(bits / 8) bytes and the FMMU mapped with the same
// bit sum, the FMMU index is the position of the first FMMU of the wanted usage.
// Assumed callees: sdo_read_expedited (unit sdo), write_sm_config (unit sm_config), write_fmmu_config (unit pdi_config).
use vstd::prelude::*;
verus! {

//@include prelude/errors.rs
//@include prelude/opaque_payloads.rs
//@include prelude/opaque_command.rs
//@include prelude/std_specs.rs

/*@type file=src/eeprom/types.rs name=SyncManagerType derive="Clone, Copy, PartialEq, Eq, Debug" @*/
/*@type file=src/eeprom/types.rs name=FmmuUsage derive="Clone, Copy, PartialEq, Eq, Debug" @*/
pub assume_specification[ <FmmuUsage as PartialEq>::eq ](a: &FmmuUsage, b: &FmmuUsage) -> (r: bool)
    ensures r == (*a == *b);
/*@type file=src/mailbox/coe/headers.rs name=SubIndex derive="Clone, Copy, PartialEq, Eq, Debug" @*/
/*@type file=src/subdevice/configuration.rs name=Mapping deep=1 derive="Clone, Copy" @*/

pub struct SyncManager { pub _p: u8 }
pub struct SyncManagerChannel { pub length_bytes: u16 }
pub struct PdiOffset { pub start_address: u32 }

/// `lo..=hi` over u8 (R8): yields lo, lo+1, .., hi
pub struct RangeInclU8 { pub next: int, pub hi: u8 }
#[verifier::external_body]
pub fn range_incl_u8(lo: u8, hi: u8) -> (r: RangeInclU8) ensures r.next == lo, r.hi == hi { unimplemented!() }
impl RangeInclU8 {
    #[verifier::external_body]
    pub fn next(&mut self) -> (r: Option<u8>)
        ensures
            final(self).hi == old(self).hi,
            old(self).next > old(self).hi ==> r is None && final(self).next == old(self).next,
            old(self).next <= old(self).hi ==> r == Some(old(self).next as u8) && final(self).next == old(self).next + 1,
    { unimplemented!() }
}
/// `self.oversampling_config.iter()` with find_map (user configuration: (PDO index, multiplier) pairs)
pub struct OvIter { pub _p: u8 }
impl OvIter {
    #[verifier::external_body]
    pub fn find_map<F: FnMut(&(u16, u16)) -> Option<u16>>(&mut self, f: F) -> (r: Option<u16>)
        requires forall|p: &(u16, u16)| #[trigger] f.requires((p,))
    { unimplemented!() }
}
/// `fmmu_usage.iter()` with position
pub struct FuIter<'a> { pub s: &'a [FmmuUsage] }
#[verifier::external_body]
pub fn fu_iter<'a>(s: &'a [FmmuUsage]) -> (r: FuIter<'a>) ensures r.s@ == s@ { unimplemented!() }
impl<'a> FuIter<'a> {
    /// Iterator::position: the index of the FIRST element the predicate accepts
    #[verifier::external_body]
    pub fn position<F: FnMut(&FmmuUsage) -> bool>(&mut self, f: F) -> (r: Option<usize>)
        requires forall|u: &FmmuUsage| #[trigger] f.requires((u,))
        ensures r is Some ==> r->Some_0 < old(self).s@.len()
    { unimplemented!() }
}

pub struct Dev { pub _p: u8 }
impl Dev {
    /// Coe::sdo_read_expedited (unit sdo): ANY value the device answers with, or an error
    #[verifier::external_body]
    pub async fn sdo_read_u8(&self, index: u16, sub_index: SubIndex) -> (r: Result<u8, Error>) { unimplemented!() }
    #[verifier::external_body]
    pub async fn sdo_read_u16(&self, index: u16, sub_index: SubIndex) -> (r: Result<u16, Error>) { unimplemented!() }
    #[verifier::external_body]
    pub async fn sdo_read_mapping(&self, index: u16, sub_index: SubIndex) -> (r: Result<Mapping, Error>) { unimplemented!() }
    #[verifier::external_body]
    pub fn ov_iter(&self) -> (r: OvIter) { unimplemented!() }
    /// unit sm_config (write_sm_config extracted whole): requires an existing sync manager register
    #[verifier::external_body]
    pub async fn write_sm_config(&self, sync_manager_index: u8, sync_manager: &SyncManager, length_bytes: u16) -> (r: Result<SyncManagerChannel, Error>)
        requires sync_manager_index < 16
        ensures r is Ok ==> (r->Ok_0).length_bytes == length_bytes
    { unimplemented!() }
    /// unit pdi_config (write_fmmu_config extracted whole): requires an existing FMMU register
    #[verifier::external_body]
    pub async fn write_fmmu_config(&self, sm_bit_len: u16, fmmu_index: usize, global_offset: &mut PdiOffset, desired_sm_type: SyncManagerType, sm_config: &SyncManagerChannel) -> (r: Result<(), Error>)
        requires fmmu_index < 16
    { unimplemented!() }
}

/*@fragment file=src/subdevice/configuration.rs impl="impl<S> SubDeviceRef<'_, S>" fn=configure_pdos_coe from="let num_sm_assignments =" to="@loop_body_end 0" name=coe_sm_bits qual="pub async" sig="self_: &Dev, sm_address: u16, sync_manager_index: u8, sync_manager: &SyncManager, fmmu_usage: &[FmmuUsage], desired_fmmu_type: FmmuUsage, desired_sm_type: SyncManagerType, global_offset: &mut PdiOffset -> (r: Result<(), Error>)" tail="Ok(())" subst="self .sdo_read_expedited::<u8>(=>self_.sdo_read_u8(@@self .sdo_read_expedited::<u16>(=>self_.sdo_read_u16(@@self .sdo_read_expedited::<Mapping>(=>self_.sdo_read_mapping(@@self .oversampling_config .iter()=>self_.ov_iter()@@self .write_sm_config(=>self_.write_sm_config(@@self.write_fmmu_config(=>self_.write_fmmu_config(@@fmmu_usage .iter()=>fu_iter(fmmu_usage)@@1..=num_sm_assignments=>range_incl_u8(1, num_sm_assignments)@@1..=num_mappings=>range_incl_u8(1, num_mappings)" incl_ranges=1 props=C13,C16,C08 attr="#[verifier::loop_isolation(false)]"
    requires
        sync_manager_index < 16,           // position in the EEPROM's sync manager list (at most 8 entries: unit eeprom_items)
        fmmu_usage@.len() <= 16,           // FMMU usage list of the EEPROM (at most 16 entries)
    ensures
        true,      // (what is decided are the obligations INSIDE: overflow, callee preconditions, loop termination)
@hoist Mapping
@loop 0
    invariant
        __it0.hi == num_sm_assignments, 1 <= __it0.next <= num_sm_assignments as int + 1,
    decreases num_sm_assignments as int + 1 - __it0.next
@loop 1
    invariant
        __it1.hi == num_mappings, 1 <= __it1.next <= num_mappings as int + 1,
        // at most 255 mappings of at most 255 bits: the per-PDO sum cannot overflow
        pdo_bit_len as int <= 255 * (__it1.next - 1),
    decreases num_mappings as int + 1 - __it1.next
@closure 0 "|__p: &(u16, u16)| -> (cr: Option<u16>)" of=find_map bind="(pdo_id, mul)"
@closure 0 "|usage: &FmmuUsage| -> (cr: bool)" of=position
@*/

// ---- the EEPROM path: body of the sync-manager loop of configure_pdos_eeprom ----
/*@type file=src/eeprom/types.rs name=Pdo derive="Clone, Copy" @*/
/*@type file=src/eeprom/types.rs name=FmmuEx derive="Clone, Copy" @*/
/// `pdos.iter()` (heapless::Vec<Pdo, _>) with the adapter chain used on it: filter(pred).map(f).try_fold(init, g).
/// The adapters are typed pass-throughs: each closure body is verified on its own for EVERY argument (that is where the
/// arithmetic is), the chain only requires that the closures accept every element
pub struct PdoIter { pub _p: u8 }
pub struct PdoFilt { pub _p: u8 }
pub struct PdoMapped { pub _p: u8 }
pub struct PdoList { pub _p: u8 }
impl PdoList {
    #[verifier::external_body]
    pub fn iter(&self) -> (r: PdoIter) { unimplemented!() }
}
impl PdoIter {
    #[verifier::external_body]
    pub fn filter<F: FnMut(&&Pdo) -> bool>(self, f: F) -> (r: PdoFilt)
        requires forall|p: &&Pdo| #[trigger] f.requires((p,))
    { unimplemented!() }
}
impl PdoFilt {
    #[verifier::external_body]
    pub fn map<G: FnMut(&Pdo) -> Option<u16>>(self, g: G) -> (r: PdoMapped)
        requires forall|p: &Pdo| #[trigger] g.requires((p,))
    { unimplemented!() }
}
impl PdoMapped {
    #[verifier::external_body]
    pub fn try_fold<H: FnMut(u16, Option<u16>) -> Option<u16>>(&mut self, init: u16, h: H) -> (r: Option<u16>)
        requires forall|a: u16, l: Option<u16>| #[trigger] h.requires((a, l))
    { unimplemented!() }
}
/// `fmmu_sm_mappings.iter()` with find
pub struct FxList { pub _p: u8 }
pub struct FxIter { pub _p: u8 }
impl FxList {
    #[verifier::external_body]
    pub fn iter(&self) -> (r: FxIter) { unimplemented!() }
}
impl FxIter {
    /// Iterator::find: an element the predicate accepts
    #[verifier::external_body]
    pub fn find<F: FnMut(&&FmmuEx) -> bool>(&mut self, f: F) -> (r: Option<&FmmuEx>)
        requires forall|x: &&FmmuEx| #[trigger] f.requires((x,))
        ensures r is Some ==> f.ensures((&r->Some_0,), true)
    { unimplemented!() }
}
pub struct PdiOffset2 { pub start_address: u32 }
impl Dev {
    #[verifier::external_body]
    pub async fn write_fmmu_config2(&self, sm_bit_len: u16, fmmu_index: usize, global_offset: &mut PdiOffset, desired_sm_type: SyncManagerType, sm_config: &SyncManagerChannel) -> (r: Result<(), Error>)
        requires fmmu_index < 16
    { unimplemented!() }
}

/*@fragment file=src/subdevice/configuration.rs impl="impl<S> SubDeviceRef<'_, S>" fn=configure_pdos_eeprom from="let sync_manager_index = sync_manager_index as u8;" to="@loop_body_end 0" name=eeprom_sm_bits qual="pub async" sig="self_: &Dev, sync_manager_index: usize, sync_manager: &SyncManager, pdos: &PdoList, fmmu_sm_mappings: &FxList, sm_type: SyncManagerType, offset: &mut PdiOffset -> (r: Result<(), Error>)" tail="Ok(())" subst="self .oversampling_config .iter()=>self_.ov_iter()@@self .write_sm_config(=>self_.write_sm_config(@@self.write_fmmu_config(=>self_.write_fmmu_config(" truncate_casts=1 props=C13,C08 attr="#[verifier::loop_isolation(false)]"
    requires
        sync_manager_index < 16,           // position in the EEPROM's sync manager list (at most 8 entries: unit eeprom_items)
    ensures
        true,      // (what is decided are the obligations INSIDE: overflow in the closures, callee preconditions)
@closure 0 "|pdo: &&Pdo| -> (cr: bool)" of=filter
@closure 0 "|pdo: &Pdo| -> (cr: Option<u16>)" of=map
@closure 0 "|__p: &(u16, u16)| -> (cr: Option<u16>)" of=find_map bind="(pdo_id, mul)"
@closure 0 "|acc: u16, len: Option<u16>| -> (cr: Option<u16>)" of=try_fold
@closure 0 "|fmmu: &&FmmuEx| -> (cr: bool)" of=find
    ensures cr == ((**fmmu).sync_manager == sync_manager_index)
@closure 1 "|fmmu: &FmmuEx| -> (cr: u8)" of=map
    ensures cr == fmmu.sync_manager
@closure 0 "|| -> (cr: u8)" of=unwrap_or_else
    ensures cr == sync_manager_index
@*/

} // verus!
fn main() {}

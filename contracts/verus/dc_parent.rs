//@unit dc_parent  props=C17  min_verified=3
// C17: find_subdevice_parent (src/dc.rs) extracted WHOLE for ANY number of devices in front of the one looked at - the unbounded
// counterpart of the Kani harnesses dc::find_parent_* (N <= 4).  Decided, two-sided: the first device has no parent; behind a
// device that is not a line end the parent is that device; behind a line end the parent is the NEAREST junction (fork / cross)
// further up - the greatest position, not the first - and if there is none the topology is refused with Error::Topology.
// Ports::topology (from the number of open ports; Kani group ports) is the assumed callee; Topology::is_junction is extracted.
use vstd::prelude::*;
verus! {

//@include prelude/errors.rs
//@include prelude/opaque_payloads.rs
//@include prelude/opaque_command.rs
//@include prelude/std_specs.rs

/*@type file=src/subdevice/ports.rs name=Topology derive="Clone, Copy, PartialEq, Eq, Debug" @*/
pub assume_specification[ <Topology as PartialEq>::eq ](a: &Topology, b: &Topology) -> (r: bool)
    ensures r == (*a == *b);
impl Topology {
/*@fn file=src/subdevice/ports.rs impl="impl Topology" name=is_junction props=C17
    ensures r == (*self is Fork || *self is Cross)
@*/
}
/// the ports of a device as far as the parent search looks at them: how many are open
pub struct Ports { pub open: u8 }
pub open spec fn topo_of(open: u8) -> Topology {
    if open == 1 { Topology::LineEnd } else if open == 2 { Topology::Passthrough } else if open == 3 { Topology::Fork } else { Topology::Cross }
}
impl Ports {
    /// real body: src/subdevice/ports.rs (Kani ports::ports_topology over all 16 link patterns); `unreachable!` for 0 open ports
    #[verifier::external_body]
    pub fn topology(&self) -> (r: Topology)
        requires 1 <= self.open <= 4
        ensures r == topo_of(self.open)
    { unimplemented!() }
}
pub struct SubDevice { pub index: u16, pub configured_address: u16, pub ports: Ports }
impl SubDevice {
    pub fn configured_address(&self) -> (r: u16) ensures r == self.configured_address { self.configured_address }
}
pub open spec fn junction(d: SubDevice) -> bool { d.ports.open == 3 || d.ports.open == 4 }

/// `parents.iter().rev()` (R8): yields the elements from the back; `left` = how many have not been yielded yet
pub struct RevIter<'a> { pub s: &'a [SubDevice], pub left: usize }
pub fn rev_iter<'a>(s: &'a [SubDevice]) -> (r: RevIter<'a>) ensures r.s@ == s@, r.left == s@.len() { RevIter { s, left: s.len() } }
impl<'a> RevIter<'a> {
    #[verifier::external_body]
    pub fn next(&mut self) -> (r: Option<&'a SubDevice>)
        requires old(self).left <= old(self).s@.len()
        ensures
            final(self).s@ == old(self).s@,
            old(self).left == 0 ==> r is None && final(self).left == 0,
            old(self).left > 0 ==> r is Some && *(r->Some_0) == old(self).s@[old(self).left - 1] && final(self).left == old(self).left - 1,
    { unimplemented!() }
    /// Iterator::find on the reversed iterator: the first element FROM THE BACK (below `left`) the predicate accepts
    #[verifier::external_body]
    pub fn find<F: FnMut(&&SubDevice) -> bool>(&mut self, f: F) -> (r: Option<&'a SubDevice>)
        requires
            old(self).left <= old(self).s@.len(),
            forall|d: &&SubDevice| #[trigger] f.requires((d,)) <== 1 <= (**d).ports.open <= 4,
            forall|i: int| 0 <= i < old(self).left ==> 1 <= (#[trigger] old(self).s@[i]).ports.open <= 4,
            // the closure decides exactly `junction` (proved from the closure's own, verified, postcondition)
            forall|d: &&SubDevice, b: bool| #[trigger] f.ensures((d,), b) ==> b == junction(**d),
        ensures
            final(self).s@ == old(self).s@,
            r is None ==> forall|i: int| 0 <= i < old(self).left ==> !junction(#[trigger] old(self).s@[i]),
            r is Some ==> exists|k: int| 0 <= k < old(self).left && *(r->Some_0) == #[trigger] old(self).s@[k] && junction(old(self).s@[k])
                && forall|i: int| k < i < old(self).left ==> !junction(#[trigger] old(self).s@[i]),
    { unimplemented!() }
    /// DoubleEndedIterator::rfind on the reversed iterator: searches from the other end - the element with the LOWEST position
    /// (below `left`) the predicate accepts
    #[verifier::external_body]
    pub fn rfind<F: FnMut(&&SubDevice) -> bool>(&mut self, f: F) -> (r: Option<&'a SubDevice>)
        requires
            old(self).left <= old(self).s@.len(),
            forall|d: &&SubDevice| #[trigger] f.requires((d,)) <== 1 <= (**d).ports.open <= 4,
            forall|i: int| 0 <= i < old(self).left ==> 1 <= (#[trigger] old(self).s@[i]).ports.open <= 4,
            forall|d: &&SubDevice, b: bool| #[trigger] f.ensures((d,), b) ==> b == junction(**d),
        ensures
            final(self).s@ == old(self).s@,
            r is None ==> forall|i: int| 0 <= i < old(self).left ==> !junction(#[trigger] old(self).s@[i]),
            r is Some ==> exists|k: int| 0 <= k < old(self).left && *(r->Some_0) == #[trigger] old(self).s@[k] && junction(old(self).s@[k])
                && forall|i: int| 0 <= i < k ==> !junction(#[trigger] old(self).s@[i]),
    { unimplemented!() }
}

/*@fn file=src/dc.rs name=find_subdevice_parent subst="parents.iter().rev()=>rev_iter(parents)" props=C17
    requires
        // every device in front has already passed the "at least one open port" test of assign_parent_relationships
        forall|i: int| 0 <= i < parents@.len() ==> 1 <= (#[trigger] parents@[i]).ports.open <= 4,
    ensures
        parents@.len() == 0 ==> r == Ok::<Option<u16>, Error>(None),
        parents@.len() > 0 && parents@[parents@.len() - 1].ports.open != 1 ==> r == Ok::<Option<u16>, Error>(Some(parents@[parents@.len() - 1].index)),
        // behind a line end: the NEAREST junction further up
        parents@.len() > 0 && parents@[parents@.len() - 1].ports.open == 1 ==> ({
            let n = parents@.len() as int;
            &&& (r is Ok) == (exists|k: int| 0 <= k < n - 1 && junction(#[trigger] parents@[k]))
            &&& r is Ok ==> exists|k: int| 0 <= k < n - 1 && junction(#[trigger] parents@[k]) && r->Ok_0 == Some(parents@[k].index)
                    && forall|i: int| k < i < n - 1 ==> !junction(#[trigger] parents@[i])
            &&& r is Err ==> r->Err_0 == Error::Topology
        }),
@closure 0 "|subdevice: &&SubDevice| -> (cb: bool)" of=find
    requires 1 <= (**subdevice).ports.open <= 4
    ensures cb == junction(**subdevice)
@closure 0 "|subdevice: &&SubDevice| -> (cb: bool)" of=rfind
    requires 1 <= (**subdevice).ports.open <= 4
    ensures cb == junction(**subdevice)
@closure 0 "|| -> (ce: Error)" of=ok_or_else
    ensures ce == Error::Topology
@*/

} // verus!
fn main() {}

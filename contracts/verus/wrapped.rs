//@unit wrapped  props=C11  min_verified=10
// WrappedRead::{new, ignore_wkc, with_wkc, receive, receive_slice, receive_wkc}, WrappedWrite::{new, with_len, ignore_wkc,
// with_wkc, send, send_receive, send_receive_slice} — extracted from src/command/{reads,writes}.rs.  The network
// (`common` = MainDevice::single_pdu) returns an ARBITRARY datagram.
use vstd::prelude::*;
verus! {

//@include prelude/errors.rs
//@include prelude/opaque_payloads.rs
//@include prelude/opaque_command.rs
//@include prelude/std_specs.rs
//@include prelude/wire_traits.rs
//@include prelude/opaque_maindevice.rs
//@include prelude/received_pdu.rs

/*@type file=src/command/reads.rs name=Reads derive="Clone, Copy, PartialEq, Eq, Debug" @*/
/*@type file=src/command/reads.rs name=WrappedRead derive="Clone, Copy, Debug" @*/
/*@type file=src/command/writes.rs name=Writes derive="Clone, Copy, PartialEq, Eq, Debug" @*/
/*@type file=src/command/writes.rs name=WrappedWrite derive="Clone, Copy, Debug" @*/

/// "p is a response datagram the network returned for read command c with length len"
pub uninterp spec fn net_read(c: Reads, len: u16, p: ReceivedPdu) -> bool;
pub uninterp spec fn net_write(c: Writes, data: Seq<u8>, len_override: Option<u16>, p: ReceivedPdu) -> bool;
/// "this error was reported by the exchange itself (no frame slot, PDU timeout, malformed response frame)"
pub uninterp spec fn net_failed(e: Error) -> bool;
/// the working-counter error the property asks for: it carries the expected and the received count of a datagram that really came back
pub open spec fn wkc_error_for(expected: Option<u16>, p: ReceivedPdu, e: Error) -> bool {
    expected is Some && expected->Some_0 != p.wkc_v() && e == (Error::WorkingCounter { expected: expected->Some_0, received: p.wkc_v() })
}

impl WrappedRead {
    #[verifier::external_body]
    pub async fn common(&self, maindevice: &MainDevice, len: u16) -> (r: Result<ReceivedPdu, Error>)
        ensures r is Ok ==> net_read(self.command, len, r->Ok_0), r is Err ==> net_failed(r->Err_0)
    { unimplemented!() }

/*@fn file=src/command/reads.rs impl="impl WrappedRead" name=new props=C11
    ensures r.command == command, r.wkc == Some(1u16)
@*/
/*@fn file=src/command/reads.rs impl="impl WrappedRead" name=ignore_wkc props=C11
    ensures r.command == self.command, r.wkc is None
@*/
/*@fn file=src/command/reads.rs impl="impl WrappedRead" name=with_wkc props=C11
    ensures r.command == self.command, r.wkc == Some(wkc)
@*/
/*@fn file=src/command/reads.rs impl="impl WrappedRead" name=receive_slice subst="<'maindevice>=>@@'maindevice=>'_" props=C11
    ensures
        r is Ok ==> net_read(self.command, len, r->Ok_0) && wkc_accepts(self.wkc, (r->Ok_0).wkc_v()),
        // an error is the exchange's own, or THE working-counter error (expected and received counts) for a datagram that came
        // back with a different count - in particular a datagram with the expected count is never turned into an error
        r is Err ==> net_failed(r->Err_0) || exists|p: ReceivedPdu| #[trigger] net_read(self.command, len, p) && wkc_error_for(self.wkc, p, r->Err_0),
@*/
/*@fn file=src/command/reads.rs impl="impl WrappedRead" name=receive subst="<'maindevice, T>=><T>@@<'maindevice>=>@@'maindevice=>'_" props=C11
    ensures
        r is Ok ==> exists|p: ReceivedPdu| #[trigger] net_read(self.command, T::PACKED_LEN as u16, p)
            && wkc_accepts(self.wkc, p.wkc_v()) && T::unpack_spec(p.data()) == Ok::<T, WireError>(r->Ok_0),
        // an error is the exchange's own, THE working-counter error for a datagram with another count, or a decode failure of a
        // datagram with the right count: a well-formed answer with the expected count is never turned into an error
        r is Err ==> net_failed(r->Err_0) || exists|p: ReceivedPdu| #[trigger] net_read(self.command, T::PACKED_LEN as u16, p)
            && (wkc_error_for(self.wkc, p, r->Err_0) || (wkc_accepts(self.wkc, p.wkc_v()) && T::unpack_spec(p.data()) is Err)),
@closure 0 "|data: ReceivedPdu| -> (cr: Result<T, Error>)"
    ensures cr is Ok ==> T::unpack_spec(data.data()) == Ok::<T, WireError>(cr->Ok_0), cr is Err ==> T::unpack_spec(data.data()) is Err
@*/
/*@fn file=src/command/reads.rs impl="impl WrappedRead" name=receive_wkc subst="<'maindevice, T>=><T>@@<'maindevice>=>@@'maindevice=>'_" props=C11
    ensures
        r is Ok ==> exists|p: ReceivedPdu| #[trigger] net_read(self.command, T::PACKED_LEN as u16, p) && r->Ok_0 == p.wkc_v(),
@closure 0 "|res: ReceivedPdu| -> (cr: u16)"
    ensures cr == res.wkc_v()
@*/
}

impl WrappedWrite {
    #[verifier::external_body]
    pub async fn common<V: EtherCrabWireWrite>(&self, maindevice: &MainDevice, value: V, len_override: Option<u16>) -> (r: Result<ReceivedPdu, Error>)
        ensures r is Ok ==> net_write(self.command, value.packed(), len_override, r->Ok_0), r is Err ==> net_failed(r->Err_0)
    { unimplemented!() }

/*@fn file=src/command/writes.rs impl="impl WrappedWrite" name=new props=C11
    ensures r.command == command, r.wkc == Some(1u16), r.len_override is None
@*/
/*@fn file=src/command/writes.rs impl="impl WrappedWrite" name=ignore_wkc props=C11
    ensures r.command == self.command, r.wkc is None, r.len_override == self.len_override
@*/
/*@fn file=src/command/writes.rs impl="impl WrappedWrite" name=with_wkc props=C11
    ensures r.command == self.command, r.wkc == Some(wkc), r.len_override == self.len_override
@*/
/*@fn file=src/command/writes.rs impl="impl WrappedWrite" name=send subst="<'maindevice>=>@@'maindevice=>'_" props=C11
    // documented exemption: fire-and-forget, the response (and its working counter) is ignored
    ensures true
@*/
/*@fn file=src/command/writes.rs impl="impl WrappedWrite" name=send_receive_slice subst="<'maindevice>=>@@'maindevice=>'_" props=C11
    ensures
        r is Ok ==> net_write(self.command, value.packed(), None, r->Ok_0) && wkc_accepts(self.wkc, (r->Ok_0).wkc_v()),
        r is Err ==> net_failed(r->Err_0) || exists|p: ReceivedPdu| #[trigger] net_write(self.command, value.packed(), None, p) && wkc_error_for(self.wkc, p, r->Err_0),
@*/
/*@fn file=src/command/writes.rs impl="impl WrappedWrite" name=send_receive subst="<'maindevice, T>=><T>@@<'maindevice>=>@@'maindevice=>'_" props=C11
    ensures
        r is Ok ==> exists|p: ReceivedPdu| #[trigger] net_write(self.command, value.packed(), None, p)
            && wkc_accepts(self.wkc, p.wkc_v()) && T::unpack_spec(p.data()) == Ok::<T, WireError>(r->Ok_0),
        r is Err ==> net_failed(r->Err_0) || exists|p: ReceivedPdu| #[trigger] net_write(self.command, value.packed(), None, p)
            && (wkc_error_for(self.wkc, p, r->Err_0) || (wkc_accepts(self.wkc, p.wkc_v()) && T::unpack_spec(p.data()) is Err)),
@closure 0 "|data: ReceivedPdu| -> (cr: Result<T, Error>)"
    ensures cr is Ok ==> T::unpack_spec(data.data()) == Ok::<T, WireError>(cr->Ok_0), cr is Err ==> T::unpack_spec(data.data()) is Err
@*/
}

} // verus!
fn main() {}

//@unit wrapped  props=C11  min_verified=10
// WrappedRead::{new, ignore_wkc, with_wkc, receive, receive_slice, receive_wkc}, WrappedWrite::{new, with_len, ignore_wkc,
// with_wkc, send, send_receive, send_receive_slice} — extracted from src/command/{reads,writes}.rs.  The network
// (`common` = MainDevice::single_pdu) returns an ARBITRARY datagram.
use vstd::prelude::*;
verus! {

//@include prelude/errors.rs
//@include prelude/opaque_payloads.rs
//@include prelude/std_specs.rs
//@include prelude/wire_traits.rs
//@include prelude/opaque_maindevice.rs
//@include prelude/received_pdu.rs

pub assume_specification<T>[ Option::<T>::or ](a: Option<T>, b: Option<T>) -> (r: Option<T>)
    ensures r == (if a is Some { a } else { b });
/*@type file=src/command/reads.rs name=Reads derive="Clone, Copy, PartialEq, Eq, Debug" @*/
/*@type file=src/command/reads.rs name=WrappedRead derive="Clone, Copy, Debug" @*/
/*@type file=src/command/writes.rs name=Writes derive="Clone, Copy, PartialEq, Eq, Debug" @*/
/*@type file=src/command/writes.rs name=WrappedWrite derive="Clone, Copy, Debug" @*/

/// "p is a response datagram the network returned for read command c with length len"
pub uninterp spec fn net_read(c: Reads, len: u16, p: ReceivedPdu) -> bool;
pub uninterp spec fn net_write(c: Writes, data: Seq<u8>, len_override: Option<u16>, p: ReceivedPdu) -> bool;
/// "this error was reported by the exchange itself (no frame slot, PDU timeout, malformed response frame)"
pub uninterp spec fn net_failed(e: Error) -> bool;
/// the working-counter error the property asks for: it carries the expected and the received count of a datagram that really came back
pub open spec fn wkc_error_for(expected: Option<u16>, p: ReceivedPdu, e: Error) -> bool {
    expected is Some && expected->Some_0 != p.wkc_v() && e == (Error::WorkingCounter { expected: expected->Some_0, received: p.wkc_v() })
}

/*@type file=src/command/mod.rs name=Command derive="Clone, Copy, PartialEq, Eq, Debug" @*/
impl From<Reads> for Command {
/*@fn file=src/command/mod.rs impl="impl From<Reads> for Command" name=from ret=none canary=0
@*/
}
impl vstd::std_specs::convert::FromSpecImpl<Reads> for Command {
    open spec fn obeys_from_spec() -> bool { true }
    open spec fn from_spec(v: Reads) -> Command { Command::Read(v) }
}
impl From<Writes> for Command {
/*@fn file=src/command/mod.rs impl="impl From<Writes> for Command" name=from ret=none canary=0
@*/
}
impl vstd::std_specs::convert::FromSpecImpl<Writes> for Command {
    open spec fn obeys_from_spec() -> bool { true }
    open spec fn from_spec(v: Writes) -> Command { Command::Write(v) }
}
impl EtherCrabWireWrite for () {
    open spec fn packed(&self) -> Seq<u8> { Seq::empty() }
    #[verifier::external_body]
    fn packed_len(&self) -> (r: usize) { 0 }
}
impl MainDevice {
    /// the exchange itself (MainDevice::single_pdu, extracted whole in unit group_cycle): ONE datagram with this command, this
    /// payload and this length override goes out; what comes back for it - or the exchange's own error - is returned
    #[verifier::external_body]
    pub async fn single_pdu<V: EtherCrabWireWrite>(&self, command: Command, data: V, len_override: Option<u16>) -> (r: Result<ReceivedPdu, Error>)
        ensures
            r is Ok ==> (match command {
                Command::Read(c) => len_override is Some && data.packed().len() == 0 && net_read(c, len_override->Some_0, r->Ok_0),
                Command::Write(c) => net_write(c, data.packed(), len_override, r->Ok_0),
                _ => true,
            }),
            r is Err ==> net_failed(r->Err_0),
    { unimplemented!() }
}

impl WrappedRead {
/*@fn file=src/command/reads.rs impl="impl WrappedRead" name=common make_async=1 subst="<'maindevice>=>@@&'maindevice MainDevice<'maindevice>=>&MainDevice@@impl core::future::Future<Output = Result<ReceivedPdu<'maindevice>, Error>>=>Result<ReceivedPdu, Error>" props=C11
    ensures r is Ok ==> net_read(self.command, len, r->Ok_0), r is Err ==> net_failed(r->Err_0)
@*/

/*@fn file=src/command/reads.rs impl="impl WrappedRead" name=new props=C11
    ensures r.command == command, r.wkc == Some(1u16)
@*/
/*@fn file=src/command/reads.rs impl="impl WrappedRead" name=ignore_wkc props=C11
    ensures r.command == self.command, r.wkc is None
@*/
/*@fn file=src/command/reads.rs impl="impl WrappedRead" name=with_wkc props=C11
    ensures r.command == self.command, r.wkc == Some(wkc)
@*/
/*@fn file=src/command/reads.rs impl="impl WrappedRead" name=receive_slice subst="<'maindevice>=>@@'maindevice=>'_" props=C11
    ensures
        r is Ok ==> net_read(self.command, len, r->Ok_0) && wkc_accepts(self.wkc, (r->Ok_0).wkc_v()),
        // an error is the exchange's own, or THE working-counter error (expected and received counts) for a datagram that came
        // back with a different count - in particular a datagram with the expected count is never turned into an error
        r is Err ==> net_failed(r->Err_0) || exists|p: ReceivedPdu| #[trigger] net_read(self.command, len, p) && wkc_error_for(self.wkc, p, r->Err_0),
@*/
/*@fn file=src/command/reads.rs impl="impl WrappedRead" name=receive subst="<'maindevice, T>=><T>@@<'maindevice>=>@@'maindevice=>'_" props=C11
    ensures
        r is Ok ==> exists|p: ReceivedPdu| #[trigger] net_read(self.command, T::PACKED_LEN as u16, p)
            && wkc_accepts(self.wkc, p.wkc_v()) && T::unpack_spec(p.data()) == Ok::<T, WireError>(r->Ok_0),
        // an error is the exchange's own, THE working-counter error for a datagram with another count, or a decode failure of a
        // datagram with the right count: a well-formed answer with the expected count is never turned into an error
        r is Err ==> net_failed(r->Err_0) || exists|p: ReceivedPdu| #[trigger] net_read(self.command, T::PACKED_LEN as u16, p)
            && (wkc_error_for(self.wkc, p, r->Err_0) || (wkc_accepts(self.wkc, p.wkc_v()) && T::unpack_spec(p.data()) is Err)),
@closure 0 "|data: ReceivedPdu| -> (cr: Result<T, Error>)"
    ensures cr is Ok ==> T::unpack_spec(data.data()) == Ok::<T, WireError>(cr->Ok_0), cr is Err ==> T::unpack_spec(data.data()) is Err
@*/
/*@fn file=src/command/reads.rs impl="impl WrappedRead" name=receive_wkc subst="<'maindevice, T>=><T>@@<'maindevice>=>@@'maindevice=>'_" props=C11
    ensures
        r is Ok ==> exists|p: ReceivedPdu| #[trigger] net_read(self.command, T::PACKED_LEN as u16, p) && r->Ok_0 == p.wkc_v(),
@closure 0 "|res: ReceivedPdu| -> (cr: u16)"
    ensures cr == res.wkc_v()
@*/
}

impl WrappedWrite {
/*@fn file=src/command/writes.rs impl="impl WrappedWrite" name=common make_async=1 subst="<'maindevice>=><V: EtherCrabWireWrite>@@&'maindevice MainDevice<'maindevice>=>&MainDevice@@impl EtherCrabWireWrite=>V@@impl core::future::Future<Output = Result<ReceivedPdu<'maindevice>, Error>>=>Result<ReceivedPdu, Error>" props=C11
    ensures r is Ok ==> net_write(self.command, value.packed(), len_override, r->Ok_0), r is Err ==> net_failed(r->Err_0)
@*/
/*@fn file=src/command/writes.rs impl="impl WrappedWrite" name=with_len subst="impl Into<u16>=>u16@@new_len.into()=>new_len" props=C11,C04
    ensures r.command == self.command, r.wkc == self.wkc, r.len_override == Some(new_len)
@*/

/*@fn file=src/command/writes.rs impl="impl WrappedWrite" name=new props=C11
    ensures r.command == command, r.wkc == Some(1u16), r.len_override is None
@*/
/*@fn file=src/command/writes.rs impl="impl WrappedWrite" name=ignore_wkc props=C11
    ensures r.command == self.command, r.wkc is None, r.len_override == self.len_override
@*/
/*@fn file=src/command/writes.rs impl="impl WrappedWrite" name=with_wkc props=C11
    ensures r.command == self.command, r.wkc == Some(wkc), r.len_override == self.len_override
@*/
/*@fn file=src/command/writes.rs impl="impl WrappedWrite" name=send subst="<'maindevice>=>@@'maindevice=>'_" props=C11
    // documented exemption: fire-and-forget, the response (and its working counter) is ignored - but the datagram that goes out
    // carries this command, this payload and the length set by with_len, and an exchange error is reported
    ensures
        r is Ok ==> exists|p: ReceivedPdu| #[trigger] net_write(self.command, data.packed(), self.len_override, p),
        r is Err ==> net_failed(r->Err_0),
@*/
/*@fn file=src/command/writes.rs impl="impl WrappedWrite" name=send_receive_slice subst="<'maindevice>=>@@'maindevice=>'_" props=C11
    ensures
        r is Ok ==> net_write(self.command, value.packed(), None, r->Ok_0) && wkc_accepts(self.wkc, (r->Ok_0).wkc_v()),
        r is Err ==> net_failed(r->Err_0) || exists|p: ReceivedPdu| #[trigger] net_write(self.command, value.packed(), None, p) && wkc_error_for(self.wkc, p, r->Err_0),
@*/
/*@fn file=src/command/writes.rs impl="impl WrappedWrite" name=send_receive subst="<'maindevice, T>=><T>@@<'maindevice>=>@@'maindevice=>'_" props=C11
    ensures
        r is Ok ==> exists|p: ReceivedPdu| #[trigger] net_write(self.command, value.packed(), None, p)
            && wkc_accepts(self.wkc, p.wkc_v()) && T::unpack_spec(p.data()) == Ok::<T, WireError>(r->Ok_0),
        r is Err ==> net_failed(r->Err_0) || exists|p: ReceivedPdu| #[trigger] net_write(self.command, value.packed(), None, p)
            && (wkc_error_for(self.wkc, p, r->Err_0) || (wkc_accepts(self.wkc, p.wkc_v()) && T::unpack_spec(p.data()) is Err)),
@closure 0 "|data: ReceivedPdu| -> (cr: Result<T, Error>)"
    ensures cr is Ok ==> T::unpack_spec(data.data()) == Ok::<T, WireError>(cr->Ok_0), cr is Err ==> T::unpack_spec(data.data()) is Err
@*/
}

// ---- the public register accessors of SubDeviceRef (src/subdevice/mod.rs): thin wrappers over the functions above ----
impl Command {
/*@fn file=src/command/mod.rs impl="impl Command" name=fprd props=C11
    ensures r.command == (Reads::Fprd { address, register }), r.wkc == Some(1u16)
@*/
/*@fn file=src/command/mod.rs impl="impl Command" name=fpwr props=C11
    ensures r.command == (Writes::Fpwr { address, register }), r.wkc == Some(1u16), r.len_override is None
@*/
}
pub trait EtherCrabWireReadSized: EtherCrabWireRead + EtherCrabWireSized {}
pub trait EtherCrabWireReadWrite: EtherCrabWireRead + EtherCrabWireWrite {}
pub struct SubDeviceRef<'a> { pub maindevice: &'a MainDevice, pub configured_address: u16 }
impl<'a> SubDeviceRef<'a> {
/*@fn file=src/subdevice/mod.rs impl="impl<'maindevice, S> SubDeviceRef<'maindevice, S>" name=read subst="impl Into<u16>=>u16@@register.into()=>register" props=C11
    ensures r.command == (Reads::Fprd { address: self.configured_address, register }), r.wkc == Some(1u16)
@*/
/*@fn file=src/subdevice/mod.rs impl="impl<'maindevice, S> SubDeviceRef<'maindevice, S>" name=write subst="impl Into<u16>=>u16@@register.into()=>register" props=C11
    ensures r.command == (Writes::Fpwr { address: self.configured_address, register }), r.wkc == Some(1u16), r.len_override is None
@*/
/*@fn file=src/subdevice/mod.rs impl="impl<'maindevice, S> SubDeviceRef<'maindevice, S>" name=register_read subst="impl Into<u16>=>u16@@register.into()=>register" props=C11
    ensures
        // a register read of THIS device is a CHECKED read: a value is returned only if exactly one device answered
        r is Ok ==> exists|p: ReceivedPdu| #[trigger] net_read(Reads::Fprd { address: self.configured_address, register }, T::PACKED_LEN as u16, p)
            && p.wkc_v() == 1 && T::unpack_spec(p.data()) == Ok::<T, WireError>(r->Ok_0),
@*/
/*@fn file=src/subdevice/mod.rs impl="impl<'maindevice, S> SubDeviceRef<'maindevice, S>" name=register_write subst="impl Into<u16>=>u16@@register.into()=>register" props=C11
    ensures
        // a register write of THIS device is CHECKED too, and what is returned is what came back for it
        r is Ok ==> exists|p: ReceivedPdu| #[trigger] net_write(Writes::Fpwr { address: self.configured_address, register }, value.packed(), None, p)
            && p.wkc_v() == 1 && T::unpack_spec(p.data()) == Ok::<T, WireError>(r->Ok_0),
@*/
}

} // verus!
fn main() {}

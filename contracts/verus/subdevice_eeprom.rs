//@unit subdevice_eeprom  props=C12,C13,C14  min_verified=10
// SubDeviceEeprom<P>: start_at, category, size (+ EepromRange::new and the dependency's read_exact on top of the
// EepromRange::read contract proved in unit eeprom_range).
use vstd::prelude::*;
verus! {

//@include prelude/errors.rs
//@include prelude/opaque_payloads.rs
//@include prelude/opaque_command.rs
//@include prelude/std_specs.rs
//@include prelude/provider.rs
//@include prelude/readexact.rs

/*@type file=src/subdevice/eeprom.rs name=SubDeviceEeprom subst="<P>=>@@P=>Prov" @*/
/*@const file=src/eeprom/device_provider.rs name=SII_FIRST_CATEGORY_START @*/

// CategoryType: declared discriminants copied from src/eeprom/types.rs; `from(u16)` is derive output (C19 checks it).
/*@type file=src/eeprom/types.rs name=CategoryType derive="Clone, Copy, PartialEq, Eq, Debug" @*/

impl CategoryType {
    pub uninterp spec fn of(v: u16) -> CategoryType;

    #[verifier::external_body]
    pub fn from(v: u16) -> (r: CategoryType)
        ensures r == CategoryType::of(v)
    { unimplemented!() }
}

pub assume_specification[ <CategoryType as PartialEq>::eq ](a: &CategoryType, b: &CategoryType) -> (r: bool)
    ensures r == (*a == *b);

#[verifier::external_body]
pub fn u16_from_le_bytes(b: [u8; 2]) -> (r: u16)
    ensures r as int == b[0] as int + 256 * (b[1] as int)
{ u16::from_le_bytes(b) }

//@include prelude/eeprom_range_impl.rs

impl EepromRange {
/*@fn file=~/.cargo/registry/src/*/embedded-io-async-0.6.1/src/lib.rs impl="pub trait Read: ErrorType" name=read_exact subst="Self::Error=>Error" props=C12,C13,C14 attr="#[verifier::loop_isolation(false)] #[verifier::allow_complex_invariants]"
    requires old(self).wf()
    ensures
        final(self).wf(),
        final(self).reader.mem_eq(&old(self).reader),
        final(self).end == old(self).end,
        final(buf)@.len() == old(buf)@.len(),
        r is Ok ==> final(self).byte_pos as int == old(self).byte_pos + old(buf)@.len()
            && (old(buf)@.len() > 0 ==> old(self).byte_pos + old(buf)@.len() <= old(self).end)
            && forall|i: int| 0 <= i < old(buf)@.len() ==> final(buf)@[i] == old(self).reader.byte(old(self).byte_pos + i),
        r == Err::<(), ReadExactError<Error>>(ReadExactError::UnexpectedEof) ==> old(self).byte_pos + old(buf)@.len() > old(self).end,
@entry
    let ghost b0 = buf@;
    let ghost fin = final(buf)@;
    let ghost pos0: int = self.byte_pos as int;
    let ghost rd0 = self.reader;
@loop 0
    invariant
        self.wf(), self.reader.mem_eq(&rd0), self.end == old(self).end,
        pos0 <= self.byte_pos,
        (self.byte_pos - pos0) + buf@.len() == b0.len(),
        self.byte_pos > pos0 ==> self.byte_pos <= self.end,
        fin.len() == (self.byte_pos - pos0) + final(buf)@.len(),
        forall|i: int| 0 <= i < self.byte_pos - pos0 ==> fin[i] == rd0.byte(pos0 + i),
        forall|i: int| 0 <= i < final(buf)@.len() ==> fin[(self.byte_pos - pos0) + i] == #[trigger] final(buf)@[i],
    decreases buf@.len()
@before "match self.read(buf)"
    let ghost fb = final(buf)@;
    let ghost done0: int = self.byte_pos - pos0;
@after "return Err(ReadExactError::Other(e)), }"
    proof {
        let n = self.byte_pos - pos0 - done0;
        assert(final(buf)@ == fb.subrange(n, fb.len() as int));
        assert forall|i: int| 0 <= i < final(buf)@.len() implies fin[(self.byte_pos - pos0) + i] == #[trigger] final(buf)@[i] by {
            assert(fin[done0 + (i + n)] == fb[i + n]);
        }
        assert forall|i: int| 0 <= i < self.byte_pos - pos0 implies fin[i] == rd0.byte(pos0 + i) by {
            if i >= done0 { assert(fin[done0 + (i - done0)] == fb[i - done0]); }
        }
    }
@*/
}

impl EepromRange {
/*@fn file=~/.cargo/registry/src/*/embedded-io-async-0.6.1/src/lib.rs impl="pub trait Write: ErrorType" name=write_all subst="Self::Error=>Error" props=C14 attr="#[verifier::loop_isolation(false)]"
    requires
        old(self).wf(),
        // the window has room for the whole buffer (otherwise write() returns Ok(0) and write_all panics)
        buf@.len() > 0 ==> old(self).byte_pos + 2 * ((buf@.len() + 1) / 2) <= old(self).end,
    ensures
        final(self).wf(), final(self).end == old(self).end,
        r is Ok ==> forall|i: int| 0 <= i < (buf@.len() + 1) / 2 ==>
            #[trigger] word_written(old(self).reader.dev(), (old(self).byte_pos / 2 + i) as u16, buf@[2 * i], word_hi(buf@, i)),
        // (the first word, stated without a quantifier for callers that write a single word)
        r is Ok && buf@.len() > 0 ==> word_written(old(self).reader.dev(), (old(self).byte_pos / 2) as u16, buf@[0], word_hi(buf@, 0)),
@entry
    let ghost buf0 = buf@;
    let ghost pos0: int = self.byte_pos as int;
@loop 0
    invariant
        self.wf(), self.end == old(self).end, self.reader.dev() == old(self).reader.dev(),
        buf@.len() <= buf0.len(),
        buf@.len() == 0 || self.byte_pos as int == pos0,
        buf@.len() > 0 ==> buf@ == buf0,
        buf@.len() == 0 && buf0.len() > 0 ==> forall|i: int| 0 <= i < (buf0.len() + 1) / 2 ==>
            #[trigger] word_written(old(self).reader.dev(), (pos0 / 2 + i) as u16, buf0[2 * i], word_hi(buf0, i)),
        buf@.len() == 0 && buf0.len() > 0 ==> word_written(old(self).reader.dev(), (pos0 / 2) as u16, buf0[0], word_hi(buf0, 0)),
    decreases buf@.len()
@loop_end 0
    proof {
        if buf0.len() > 0 && buf@.len() == 0 {
            assert(word_written(old(self).reader.dev(), (pos0 / 2 + 0) as u16, buf0[2 * 0int], word_hi(buf0, 0)));
        }
    }
@*/
}

/// stand-in for heapless::Vec<u8, N>
pub struct HVecN<const N: usize> { pub v: Vec<u8> }
impl<const N: usize> HVecN<N> {
    #[verifier::external_body]
    pub fn new() -> (r: Self) ensures r.v@.len() == 0 { unimplemented!() }
    /// `unsafe fn set_len`: SAFETY condition new_len <= capacity (the bytes exposed are arbitrary until written)
    #[verifier::external_body]
    pub fn set_len(&mut self, new_len: usize)
        requires new_len <= N
        ensures final(self).v@.len() == new_len
    { unimplemented!() }
    /// `&mut buf` (DerefMut to the slice)
    #[verifier::external_body]
    pub fn as_mut_slice(&mut self) -> (r: &mut [u8])
        ensures r@ == old(self).v@, final(self).v@ == final(r)@
    { unimplemented!() }
}

/// byte offset of the k-th string of a Strings category whose first string starts at `base`: each string is a length
/// byte followed by that many bytes (ETG2010 table 6)
pub open spec fn str_off(p: Prov, base: int, k: nat) -> int
    decreases k
{
    if k == 0 { base } else { let o = str_off(p, base, (k - 1) as nat); o + 1 + p.byte(o) as int }
}

/*@fragment file=src/subdevice/eeprom.rs impl="impl<P> SubDeviceEeprom<P>" fn=find_string from="let num_strings = reader.read_byte().await?;" to="reader.read_exact(&mut buf).await?;" name=find_string_raw generics="<const N: usize>" qual="pub async" sig="reader: EepromRange, search_index: u8 -> (r: Result<Option<HVecN<N>>, Error>)" tail="Ok(Some(buf))" subst="heapless::Vec::<u8, N>::new()=>HVecN::<N>::new()@@reader.read_exact(&mut buf)=>reader.read_exact(buf.as_mut_slice())" props=C12,C13
    requires reader.wf()
    ensures
        // (search_index is the 0-based index; reader stands at the string count byte)
        r is Ok && r->Ok_0 is None ==> search_index >= reader.reader.byte(reader.byte_pos as int),
        // Some => exactly the bytes stored for that string: the length byte found after skipping the preceding strings,
        // then that many bytes - never more than the caller's capacity, and a string of exactly the capacity is delivered
        r is Ok && r->Ok_0 is Some ==> search_index < reader.reader.byte(reader.byte_pos as int) && ({
            let o = str_off(reader.reader, reader.byte_pos + 1, search_index as nat);
            let len = reader.reader.byte(o) as int;
            &&& len <= N
            &&& (r->Ok_0->Some_0).v@.len() == len
            &&& forall|i: int| 0 <= i < len ==> (r->Ok_0->Some_0).v@[i] == reader.reader.byte(o + 1 + i)
        }),
@entry
    let ghost rd0 = reader.reader;
    let ghost base: int = reader.byte_pos + 1;
    let mut reader = reader;
@loop 0
    invariant
        reader.wf(), reader.reader.mem_eq(&rd0),
        reader.byte_pos as int == str_off(rd0, base, i as nat),
@before "return Err(Error::StringTooLong"
    proof {
        // refused only when the stored string really is longer than the destination
        assert(string_len > N);
    }
@*/

/// the crc crate's table-driven CRC-8 instance STATION_ALIAS_CRC (src/eeprom/mod.rs: poly 0x07, init 0xff): `crc8_etg` is
/// the bit-by-bit CRC-8 of the property statement; table == bitwise on every 14-byte input is Kani eeprom_alias::alias_crc_table
pub uninterp spec fn crc8_etg(b: Seq<u8>) -> u8;
pub struct Crc8 { pub _p: u8 }
impl Crc8 {
    #[verifier::external_body]
    pub fn checksum(&self, bytes: &[u8]) -> (r: u8)
        ensures r == crc8_etg(bytes@)
    { unimplemented!() }
}
pub const STATION_ALIAS_CRC: Crc8 = Crc8 { _p: 0 };
/*@const file=src/eeprom/mod.rs name=STATION_ALIAS_POSITION @*/
/*@const file=src/eeprom/mod.rs name=CHECKSUM_POSITION @*/

#[verifier::external_body]
pub fn u16_to_le_bytes(v: u16) -> (r: [u8; 2])
    ensures r[0] as int == v as int % 256, r[1] as int == v as int / 256
{ v.to_le_bytes() }

/// the first fourteen bytes as they read after the alias has been changed
pub open spec fn header_after(p: Prov, alias: u16) -> Seq<u8> {
    Seq::new(14, |i: int| if i == 8 { (alias % 256) as u8 } else if i == 9 { (alias / 256) as u8 } else { p.byte(i) })
}

pub open spec fn le16_at(p: Prov, byte: int) -> int { p.byte(byte) as int + 256 * (p.byte(byte + 1) as int) }
/// `r` is the data window of a category header at word address h whose type word decodes to `ty`: it starts right after the
/// 2-word header and is as long as the header's length word says (clamped to the 64 Ki address space like every window)
pub open spec fn cat_hdr_type(p: Prov, h: int) -> CategoryType { CategoryType::of(le16_at(p, 2 * h) as u16) }
pub open spec fn cat_range_of(p: Prov, ty: CategoryType, h: int, r: EepromRange) -> bool {
    &&& 0x40 <= h <= 0xfffd
    &&& cat_hdr_type(p, h) == ty
    &&& r.byte_pos as int == (if 2 * (h + 2) > 0xffff { 0xffff } else { 2 * (h + 2) })
    &&& r.end as int == (if r.byte_pos + 2 * le16_at(p, 2 * h + 2) > 0xffff { 0xffff } else { r.byte_pos + 2 * le16_at(p, 2 * h + 2) })
}

/// The category walk as the property describes it (optional categories in any order, unknown ones skipped by their length
/// word, End marker 0xffff) plus the documented heuristic of the code (give up after 32 empty categories; give up when the chain
/// leaves the 64 Ki word address space): header address of the FIRST category of type `ty` reachable from word address w,
/// having seen `e` empty categories so far.
pub open spec fn cat_walk(p: Prov, w: int, ty: CategoryType, e: int) -> Option<int>
    decreases 0x10000 - w when w >= 0
{
    if w + 2 > 0xffff { None }
    else {
        let len = le16_at(p, 2 * w + 2);
        let e2 = if len == 0 { e + 1 } else { e };
        if e2 >= 32 { None }
        else if cat_hdr_type(p, w) == ty { Some(w) }
        else if cat_hdr_type(p, w) == CategoryType::End { None }
        else if w + 2 + len > 0xffff { None }
        else { cat_walk(p, w + 2 + len, ty, e2) }
    }
}

/// fixed-position EEPROM records (field layouts: derive output, C19); only their packed length matters here
pub struct SubDeviceIdentity { pub _p: u8 }
impl SubDeviceIdentity {
    pub const PACKED_LEN: usize = 16;
    pub uninterp spec fn unpack_spec(b: Seq<u8>) -> Result<SubDeviceIdentity, WireError>;
    #[verifier::external_body]
    pub fn unpack_from_slice(buf: &[u8]) -> (r: Result<Self, WireError>) ensures r == Self::unpack_spec(buf@) { unimplemented!() }
}
pub struct DefaultMailbox { pub _p: u8 }
impl DefaultMailbox {
    pub const PACKED_LEN: usize = 10;
    pub uninterp spec fn unpack_spec(b: Seq<u8>) -> Result<DefaultMailbox, WireError>;
    #[verifier::external_body]
    pub fn unpack_from_slice(buf: &[u8]) -> (r: Result<Self, WireError>) ensures r == Self::unpack_spec(buf@) { unimplemented!() }
}
pub struct SiiGeneral { pub _p: u8 }
impl SiiGeneral {
    pub const PACKED_LEN: usize = 18;
    pub uninterp spec fn unpack_spec(b: Seq<u8>) -> Result<SiiGeneral, WireError>;
    #[verifier::external_body]
    pub fn unpack_from_slice(buf: &[u8]) -> (r: Result<Self, WireError>) ensures r == Self::unpack_spec(buf@) { unimplemented!() }
}
impl From<WireError> for Error {
    fn from(value: WireError) -> (r: Self) ensures r == Error::Wire(value) { Error::Wire(value) }
}
impl vstd::std_specs::convert::FromSpecImpl<WireError> for Error {
    open spec fn obeys_from_spec() -> bool { true }
    open spec fn from_spec(v: WireError) -> Error { Error::Wire(v) }
}

impl SubDeviceEeprom {
    pub open spec fn wf(&self) -> bool { self.provider.wf() }

/*@fn file=src/subdevice/eeprom.rs impl="impl<P> SubDeviceEeprom<P>" name=set_station_alias subst="new_alias.to_le_bytes()=>u16_to_le_bytes(new_alias)@@new_checksum.to_le_bytes()=>u16_to_le_bytes(new_checksum)" props=C14
    requires self.wf()
    ensures
        // Ok => the alias word (word 4) was written with the new alias, and the checksum word (word 7) with the CRC-8 of
        // the first fourteen bytes as they read after the change (high byte zero)
        r is Ok ==> word_written(self.provider.dev(), 4, (new_alias % 256) as u8, (new_alias / 256) as u8)
            && word_written(self.provider.dev(), 7, crc8_etg(header_after(self.provider, new_alias)), 0),
@before "u16::from(STATION_ALIAS_CRC.checksum(&chunk))"
    proof { assert(chunk@ =~= header_after(self.provider, new_alias)); }
@*/

/*@fn file=src/subdevice/eeprom.rs impl="impl<P> SubDeviceEeprom<P>" name=station_alias subst="u16::from_le_bytes=>u16_from_le_bytes" truncate_casts=1 props=C14,C12
    requires self.wf()
    ensures
        // reading the alias back: the little-endian word at bytes 8..10 of the EEPROM (word 4 - the one set_station_alias writes)
        r is Ok ==> r->Ok_0 as int == self.provider.byte(8) as int + 256 * (self.provider.byte(9) as int),
@*/

/*@fn file=src/subdevice/eeprom.rs impl="impl<P> SubDeviceEeprom<P>" name=start_at subst="<P>=>" props=C12,C13
    requires self.wf()
    ensures r.wf(), r.reader == self.provider,
        r.byte_pos as int == (if 2 * word_addr > 0xffff { 0xffff } else { 2 * word_addr }),
        // the window covers the requested byte length, rounded up to a whole word (clamped to the address space)
        r.end as int == (if r.byte_pos + 2 * ((len_bytes + 1) / 2) > 0xffff { 0xffff } else { r.byte_pos + 2 * ((len_bytes + 1) / 2) }),
@*/

/*@fn file=src/subdevice/eeprom.rs impl="impl<P> SubDeviceEeprom<P>" name=category subst="<P>=>@@u16::from_le_bytes=>u16_from_le_bytes" props=C12,C13 __brk0="Result<Option<EepromRange>, Error>"
    requires self.wf()
    ensures
        r is Ok && r->Ok_0 is Some ==> r->Ok_0->Some_0.wf() && r->Ok_0->Some_0.reader == self.provider,
        // Some(range) => the range is the data window of a category header of the requested type found in the chain
        r is Ok && r->Ok_0 is Some ==> exists|h: int| cat_range_of(self.provider, category, h, r->Ok_0->Some_0) && #[trigger] cat_hdr_type(self.provider, h) == category,
        // BOTH directions: the category is found iff the walk over the stored chain finds it, and it is the FIRST such header
        r is Ok ==> (match cat_walk(self.provider, 0x40, category, 0) {
            Some(h) => r->Ok_0 is Some && cat_range_of(self.provider, category, h, r->Ok_0->Some_0),
            None => r->Ok_0 is None,
        }),
@before "match category_type {"
    proof { assert(cat_hdr_type(self.provider, h0) == category_type); }
@loop_start 0
    let ghost h0: int = word_addr as int;
    let ghost e0: int = num_empty_categories as int;
    let ghost walk0 = cat_walk(self.provider, 0x40, category, 0);
    proof { assert(walk0 == cat_walk(self.provider, h0, category, e0)); }
@loop 0
    invariant_except_break
        num_empty_categories < 32,
        cat_walk(self.provider, 0x40, category, 0) == cat_walk(self.provider, word_addr as int, category, num_empty_categories as int),
    invariant
        self.wf(), reader.wf(), reader.mem_eq(&self.provider),
        word_addr >= 0x40,
    ensures
        __brk0 is Ok ==> (match cat_walk(self.provider, 0x40, category, 0) {
            Some(h) => __brk0->Ok_0 is Some && cat_range_of(self.provider, category, h, __brk0->Ok_0->Some_0),
            None => __brk0->Ok_0 is None,
        }),
        __brk0 is Ok && __brk0->Ok_0 is Some ==> __brk0->Ok_0->Some_0.wf() && __brk0->Ok_0->Some_0.reader == self.provider,
        __brk0 is Ok && __brk0->Ok_0 is Some ==> exists|h: int| cat_range_of(self.provider, category, h, __brk0->Ok_0->Some_0) && #[trigger] cat_hdr_type(self.provider, h) == category,
    decreases 0x10000 - word_addr
@*/

/*@fn file=src/subdevice/eeprom.rs impl="impl<P> SubDeviceEeprom<P>" name=identity subst="SubDeviceIdentity::buffer()=>[0u8; 16]" props=C12,C13 try_all=1
    requires self.wf()
    ensures
        // the identity is decoded from exactly the 16 bytes at word 0x0008 (vendor, product, revision, serial)
        r is Ok ==> SubDeviceIdentity::unpack_spec(Seq::new(16, |i: int| self.provider.byte(0x10 + i))) == Ok::<SubDeviceIdentity, WireError>(r->Ok_0),
@before "Ok(SubDeviceIdentity::unpack_from_slice(&buf)?)"
    proof { assert(buf@ =~= Seq::new(16, |i: int| self.provider.byte(0x10 + i))); }
@*/

/*@fn file=src/subdevice/eeprom.rs impl="impl<P> SubDeviceEeprom<P>" name=mailbox_config subst="DefaultMailbox::buffer()=>[0u8; 10]" props=C12,C13 try_all=1
    requires self.wf()
    ensures
        // the standard mailbox configuration is decoded from exactly the 10 bytes at word 0x0018
        r is Ok ==> DefaultMailbox::unpack_spec(Seq::new(10, |i: int| self.provider.byte(0x30 + i))) == Ok::<DefaultMailbox, WireError>(r->Ok_0),
@before "Ok(DefaultMailbox::unpack_from_slice(&buf)?)"
    proof { assert(buf@ =~= Seq::new(10, |i: int| self.provider.byte(0x30 + i))); }
@*/

/*@fn file=src/subdevice/eeprom.rs impl="impl<P> SubDeviceEeprom<P>" name=general subst="SiiGeneral::buffer()=>[0u8; 18]" props=C12,C13 try_all=1
    requires self.wf()
    ensures
        // the General record is decoded from exactly the first 18 data bytes of a category whose header says "General"
        r is Ok ==> exists|h: int| #[trigger] cat_hdr_type(self.provider, h) == CategoryType::General && 0x40 <= h <= 0xfffd
            && SiiGeneral::unpack_spec(Seq::new(18, |i: int| self.provider.byte(2 * (h + 2) + i))) == Ok::<SiiGeneral, WireError>(r->Ok_0),
@before "Ok(SiiGeneral::unpack_from_slice(&buf)?)"
    proof {
        let hh = choose|h: int| cat_range_of(self.provider, CategoryType::General, h, reader0) && #[trigger] cat_hdr_type(self.provider, h) == CategoryType::General;
        assert(buf@ =~= Seq::new(18, |i: int| self.provider.byte(2 * (hh + 2) + i)));
    }
@after ".ok_or(Error::Eeprom(EepromError::NoCategory))?;"
    let ghost reader0 = reader;
@*/

/*@fn file=src/subdevice/eeprom.rs impl="impl<P> SubDeviceEeprom<P>" name=size subst="u16::from_le_bytes=>u16_from_le_bytes@@u16::buffer()=>[0u8; 2]" props=C12,C13
    requires self.wf()
    ensures r is Ok ==> r->Ok_0 as int == (self.provider.byte(0x7c) as int + 256 * (self.provider.byte(0x7d) as int) + 1) * 128,
@*/
}

// ---- the public EEPROM entry points of SubDevice (src/subdevice/mod.rs): thin wrappers, extracted WHOLE on top of the contracts above ----
pub struct MainDevice { pub _p: u8 }
/// the EEPROM behind station address `addr` (the hardware provider DeviceEeprom: unit eeprom_device)
pub uninterp spec fn eeprom_of(addr: u16) -> Prov;
pub struct SubDeviceRef { pub configured_address: u16 }
impl SubDeviceRef {
    pub fn new(maindevice: &MainDevice, configured_address: u16, state: ()) -> (r: Self)
        ensures r.configured_address == configured_address
    { SubDeviceRef { configured_address } }
    /// `SubDeviceEeprom::new(DeviceEeprom::new(maindevice, configured_address))`
    #[verifier::external_body]
    pub fn eeprom(&self) -> (r: SubDeviceEeprom)
        ensures r.provider == eeprom_of(self.configured_address), r.wf()
    { unimplemented!() }
}
/// stand-in for `T::Buffer` (`[u8; N]`): `T::buffer()` must hold PACKED_LEN bytes - the trait's documented contract; for arrays of
/// multi-byte items the real impl does not (known finding C19-A1)
pub struct WireBuf { pub v: Vec<u8> }
impl WireBuf {
    #[verifier::external_body]
    pub fn as_mut(&mut self) -> (r: &mut [u8])
        ensures r@ == old(self).v@, final(self).v@ == final(r)@
    { unimplemented!() }
    #[verifier::external_body]
    pub fn as_ref(&self) -> (r: &[u8]) ensures r@ == self.v@ { unimplemented!() }
}
pub trait EtherCrabWireReadSized: Sized {
    spec fn packed_len() -> usize;
    spec fn unpack_spec(b: Seq<u8>) -> Result<Self, WireError>;
    fn packed_len_exec() -> (r: usize) ensures r == Self::packed_len();
    fn buffer() -> (r: WireBuf) ensures r.v@.len() == Self::packed_len();
    fn unpack_from_slice(buf: &[u8]) -> (r: Result<Self, WireError>) ensures r == Self::unpack_spec(buf@);
}
pub trait EtherCrabWireWriteSized: Sized {
    spec fn packed_len() -> usize;
    spec fn packed(&self) -> Seq<u8>;
    fn packed_len_exec() -> (r: usize) ensures r == Self::packed_len();
    fn pack(&self) -> (r: WireBuf) ensures r.v@ == self.packed(), r.v@.len() == Self::packed_len();
}
pub struct SubDevice { pub configured_address: u16, pub alias_address: u16 }
pub open spec fn stored(addr: u16, start_word: u16, n: int) -> Seq<u8> { Seq::new(n as nat, |i: int| eeprom_of(addr).byte(2 * start_word + i)) }

impl SubDevice {
/*@fn file=src/subdevice/mod.rs impl="impl SubDevice" name=eeprom_read_raw subst="MainDevice<'_>=>MainDevice" truncate_casts=1 props=C12
    ensures
        final(buf)@.len() == old(buf)@.len(),
        // a request that lies inside the 64 KiB the byte cursor can address is answered completely, byte for byte, from THIS
        // device's EEPROM starting at byte 2 * start_word; the rest of the buffer is untouched
        r is Ok && old(buf)@.len() <= 0xffff && 2 * start_word + 2 * ((old(buf)@.len() + 1) / 2) <= 0xffff ==> r->Ok_0 == old(buf)@.len()
            && final(buf)@ =~= stored(self.configured_address, start_word, old(buf)@.len() as int),
        // in every case: what is reported as read IS the stored bytes
        r is Ok ==> r->Ok_0 <= old(buf)@.len() && forall|i: int| 0 <= i < r->Ok_0 ==> final(buf)@[i] == eeprom_of(self.configured_address).byte(2 * start_word + i),
@*/
/*@fn file=src/subdevice/mod.rs impl="impl SubDevice" name=eeprom_read subst="MainDevice<'_>=>MainDevice@@T::PACKED_LEN=>T::packed_len_exec()" truncate_casts=1 props=C12 try_all=1
    ensures
        // the value is decoded from exactly the PACKED_LEN bytes stored at byte 2 * start_word of THIS device's EEPROM
        r is Ok ==> T::packed_len() <= 0xffff ==> Ok::<T, WireError>(r->Ok_0) == T::unpack_spec(stored(self.configured_address, start_word, T::packed_len() as int)),
@after "reader.read_exact(buf.as_mut()).await?;"
    proof {
        if T::packed_len() <= 0xffff {
            if T::packed_len() > 0 { assert(2 * start_word <= 0xffff); }
            assert(buf.v@ =~= stored(self.configured_address, start_word, T::packed_len() as int));
        }
    }
@*/
/*@fn file=src/subdevice/mod.rs impl="impl SubDevice" name=eeprom_write_dangerously subst="MainDevice<'_>=>MainDevice@@T::PACKED_LEN=>T::packed_len_exec()" truncate_casts=1 props=C14
    requires
        // (outside this range the byte cursor saturates at 0xffff, EepromRange::write reports 0 bytes written and the dependency's
        // write_all panics - an API-argument panic, not one of the listed properties; see DESIGN 0.3 "observations")
        T::packed_len() <= 0xffff, 2 * start_word + 2 * ((T::packed_len() + 1) / 2) <= 0xffff,
    ensures
        // every word of the packed value goes to consecutive word addresses from start_word of THIS device (odd tail zero-padded)
        r is Ok ==> forall|i: int| 0 <= i < (T::packed_len() + 1) / 2 ==>
            #[trigger] word_written(eeprom_of(self.configured_address).dev(), (start_word + i) as u16, value.packed()[2 * i], word_hi(value.packed(), i)),
@*/
/*@fn file=src/subdevice/mod.rs impl="impl SubDevice" name=set_alias_address subst="MainDevice<'_>=>MainDevice" props=C14
    ensures
        final(self).configured_address == old(self).configured_address,
        // the cached alias changes only together with the EEPROM (alias word 4 + checksum word 7 of THIS device)
        r is Ok ==> final(self).alias_address == new_alias
            && word_written(eeprom_of(old(self).configured_address).dev(), 4, (new_alias % 256) as u8, (new_alias / 256) as u8)
            && word_written(eeprom_of(old(self).configured_address).dev(), 7, crc8_etg(header_after(eeprom_of(old(self).configured_address), new_alias)), 0),
        r is Err ==> final(self).alias_address == old(self).alias_address,
@*/
}

} // verus!
fn main() {}

//@unit mailbox  props=C15,C16  min_verified=5
// Coe::mailbox_write_read extracted WHOLE from src/mailbox/coe/mod.rs (with the two response shapes it declares locally,
// HeadersRaw and EmergencyData, lifted to module level - rule R15), plus the three CoeServiceRequest::validate_response impls.
// The device side is `wait_for_mailbox_response`, which may return ANY bytes.  Decided here, for every reply:
//  * C16: the triage never panics, never slices outside the reply (every `?`, trim and unpack is in bounds for ANY length);
//  * C15: the outcome is exactly the function `triage(request, reply)` taken from the property statement -
//      emergency (service 1)  -> Emergency error carrying the code/register decoded at offset 8 (ETG1000.6 table 50),
//      abort command          -> Aborted with the abort code decoded at offset 12 and the index/sub-index of the reply,
//      other mailbox type or an index/sub-index the request does not accept -> SdoResponseInvalid,
//      otherwise              -> the headers decoded from the whole reply and the bytes after the 12 header bytes;
//    and the request bytes written to the device are exactly `request.pack()` with the write mailbox's address and length.
// The FIELD decoders of HeadersRaw / EmergencyData / CoeAbortCode are the derive output (bit layouts: C19 harnesses for the
// module-level types; the two local structs cannot be named by a harness and stay ASSUMED to decode what their #[wire] says).
use vstd::prelude::*;
verus! {

//@include prelude/errors.rs
//@include prelude/opaque_payloads.rs
//@include prelude/opaque_command.rs
//@include prelude/std_specs.rs
/// the reflexive conversion of core (`impl<T> From<T> for T`): the identity
pub assume_specification<T>[ <T as From<T>>::from ](t: T) -> (r: T)
    ensures r == t;
//@include prelude/received_pdu.rs
//@include prelude/wire_traits_buf.rs

pub trait EtherCrabWireWriteSized: EtherCrabWireWrite + EtherCrabWireSized {
    fn pack(&self) -> (r: Self::Buffer)
        ensures r.bytes() == self.packed();
}
impl EtherCrabWireWrite for &&[u8] {
    open spec fn packed(&self) -> Seq<u8> { (**self)@ }
    #[verifier::external_body]
    fn packed_len(&self) -> (r: usize) { unimplemented!() }
    #[verifier::external_body]
    fn pack_to_slice<'buf>(&self, buf: &'buf mut [u8]) -> (r: Result<&'buf [u8], WireError>) { unimplemented!() }
}

pub assume_specification<T, E, F: FnOnce(&E)>[ Result::<T, E>::inspect_err ](r: Result<T, E>, f: F) -> (o: Result<T, E>)
    requires r is Err ==> f.requires((&r->Err_0,)),
    ensures o == r;

// ---- CoE / mailbox header types, extracted ----
/*@type file=src/mailbox/mod.rs name=Priority derive="Clone, Copy, PartialEq, Eq, Debug" @*/
/*@type file=src/mailbox/mod.rs name=MailboxType derive="Clone, Copy, PartialEq, Eq, Debug" @*/
/*@type file=src/mailbox/mod.rs name=MailboxHeader derive="Clone, Copy, PartialEq, Eq, Debug" @*/
/*@type file=src/mailbox/coe/headers.rs name=CoeService derive="Clone, Copy, PartialEq, Eq, Debug" @*/
/*@type file=src/mailbox/coe/headers.rs name=CoeHeader derive="Clone, Copy, PartialEq, Eq, Debug" @*/
/*@type file=src/mailbox/coe/headers.rs name=CoeCommand derive="Clone, Copy, PartialEq, Eq, Debug" @*/
/*@type file=src/mailbox/coe/headers.rs name=SdoHeader derive="Clone, Copy, PartialEq, Eq, Debug" @*/
/*@type file=src/mailbox/coe/headers.rs name=SdoHeaderSegmented derive="Clone, Copy, PartialEq, Eq, Debug" @*/
/*@type file=src/mailbox/coe/services.rs name=SdoExpedited derive="Clone, Copy, PartialEq, Debug" @*/
/*@type file=src/mailbox/coe/services.rs name=SdoNormal derive="Clone, Copy, PartialEq, Debug" @*/
/*@type file=src/mailbox/coe/services.rs name=SdoSegmented derive="Clone, Copy, Debug" @*/
/*@type file=src/subdevice/types.rs name=Mailbox derive="Clone, Copy, PartialEq, Debug" @*/
// the two reply shapes declared inside mailbox_write_read (R15)
/*@type file=src/mailbox/coe/mod.rs name=HeadersRaw deep=1 derive="Clone, Copy, PartialEq, Eq, Debug" @*/
/*@type file=src/mailbox/coe/mod.rs name=EmergencyData deep=1 derive="Clone, Copy, Debug" @*/

pub assume_specification[ <CoeService as PartialEq>::eq ](a: &CoeService, b: &CoeService) -> (r: bool)
    ensures r == (*a == *b);
pub assume_specification[ <CoeCommand as PartialEq>::eq ](a: &CoeCommand, b: &CoeCommand) -> (r: bool)
    ensures r == (*a == *b);
pub assume_specification[ <MailboxType as PartialEq>::eq ](a: &MailboxType, b: &MailboxType) -> (r: bool)
    ensures r == (*a == *b);

// ---- the derive output for the three reply shapes: what is decoded is an (uninterpreted) function of the bytes; too few
//      bytes is an error (#[wire(bytes = 12)], (bytes = 8), u32) ----
pub uninterp spec fn hdr_spec(b: Seq<u8>) -> Result<HeadersRaw, WireError>;
pub uninterp spec fn emcy_spec(b: Seq<u8>) -> Result<EmergencyData, WireError>;
pub uninterp spec fn abort_spec(b: Seq<u8>) -> Result<CoeAbortCode, WireError>;
impl HeadersRaw {
    pub const PACKED_LEN: usize = 12;
    #[verifier::external_body]
    pub fn unpack_from_slice(buf: &[u8]) -> (r: Result<Self, WireError>)
        ensures r == hdr_spec(buf@), buf@.len() < 12 ==> r is Err
    { unimplemented!() }
}
impl EmergencyData {
    #[verifier::external_body]
    pub fn unpack_from_slice(buf: &[u8]) -> (r: Result<Self, WireError>)
        ensures r == emcy_spec(buf@), buf@.len() < 8 ==> r is Err
    { unimplemented!() }
}
impl CoeAbortCode {
    #[verifier::external_body]
    pub fn unpack_from_slice(buf: &[u8]) -> (r: Result<Self, WireError>)
        ensures r == abort_spec(buf@), buf@.len() < 4 ==> r is Err
    { unimplemented!() }
}
impl MailboxHeader { pub const PACKED_LEN: usize = 6; }
impl CoeHeader { pub const PACKED_LEN: usize = 2; }

pub trait CoeServiceRequest: EtherCrabWireRead + EtherCrabWireWriteSized {
    spec fn validate_spec(&self, received_index: u16, received_subindex: u8) -> bool;
    fn validate_response(&self, received_index: u16, received_subindex: u8) -> (r: bool)
        ensures r == self.validate_spec(received_index, received_subindex);
}

// ---- the three request kinds: a reply is accepted only for the object that was asked for (segments carry no index) ----
// (wire impls of the three request types: derive output, C19)
pub struct Buf16 { pub b: [u8; 16] }
impl BufLike for Buf16 {
    open spec fn bytes(&self) -> Seq<u8> { self.b@ }
    #[verifier::external_body]
    fn as_mut(&mut self) -> (r: &mut [u8]) { &mut self.b }
    #[verifier::external_body]
    fn as_ref(&self) -> (r: &[u8]) { &self.b }
}
impl EtherCrabWireSized for SdoExpedited {
    const PACKED_LEN: usize = 16;
    type Buffer = Buf16;
    #[verifier::external_body]
    fn buffer() -> (r: Buf16) { unimplemented!() }
}
impl EtherCrabWireRead for SdoExpedited {
    uninterp spec fn unpack_spec(b: Seq<u8>) -> Result<SdoExpedited, WireError>;
    #[verifier::external_body]
    fn unpack_from_slice(buf: &[u8]) -> (r: Result<SdoExpedited, WireError>) { unimplemented!() }
}
impl EtherCrabWireWrite for SdoExpedited {
    uninterp spec fn packed(&self) -> Seq<u8>;
    #[verifier::external_body]
    fn packed_len(&self) -> (r: usize) { unimplemented!() }
    #[verifier::external_body]
    fn pack_to_slice<'buf>(&self, buf: &'buf mut [u8]) -> (r: Result<&'buf [u8], WireError>) { unimplemented!() }
}
impl EtherCrabWireWriteSized for SdoExpedited {
    #[verifier::external_body]
    fn pack(&self) -> (r: Buf16) { unimplemented!() }
}
pub struct Buf12 { pub b: [u8; 12] }
impl BufLike for Buf12 {
    open spec fn bytes(&self) -> Seq<u8> { self.b@ }
    #[verifier::external_body]
    fn as_mut(&mut self) -> (r: &mut [u8]) { &mut self.b }
    #[verifier::external_body]
    fn as_ref(&self) -> (r: &[u8]) { &self.b }
}
impl EtherCrabWireSized for SdoNormal {
    const PACKED_LEN: usize = 12;
    type Buffer = Buf12;
    #[verifier::external_body]
    fn buffer() -> (r: Buf12) { unimplemented!() }
}
impl EtherCrabWireRead for SdoNormal {
    uninterp spec fn unpack_spec(b: Seq<u8>) -> Result<SdoNormal, WireError>;
    #[verifier::external_body]
    fn unpack_from_slice(buf: &[u8]) -> (r: Result<SdoNormal, WireError>) { unimplemented!() }
}
impl EtherCrabWireWrite for SdoNormal {
    uninterp spec fn packed(&self) -> Seq<u8>;
    #[verifier::external_body]
    fn packed_len(&self) -> (r: usize) { unimplemented!() }
    #[verifier::external_body]
    fn pack_to_slice<'buf>(&self, buf: &'buf mut [u8]) -> (r: Result<&'buf [u8], WireError>) { unimplemented!() }
}
impl EtherCrabWireWriteSized for SdoNormal {
    #[verifier::external_body]
    fn pack(&self) -> (r: Buf12) { unimplemented!() }
}
pub struct Buf9 { pub b: [u8; 9] }
impl BufLike for Buf9 {
    open spec fn bytes(&self) -> Seq<u8> { self.b@ }
    #[verifier::external_body]
    fn as_mut(&mut self) -> (r: &mut [u8]) { &mut self.b }
    #[verifier::external_body]
    fn as_ref(&self) -> (r: &[u8]) { &self.b }
}
impl EtherCrabWireSized for SdoSegmented {
    const PACKED_LEN: usize = 9;
    type Buffer = Buf9;
    #[verifier::external_body]
    fn buffer() -> (r: Buf9) { unimplemented!() }
}
impl EtherCrabWireRead for SdoSegmented {
    uninterp spec fn unpack_spec(b: Seq<u8>) -> Result<SdoSegmented, WireError>;
    #[verifier::external_body]
    fn unpack_from_slice(buf: &[u8]) -> (r: Result<SdoSegmented, WireError>) { unimplemented!() }
}
impl EtherCrabWireWrite for SdoSegmented {
    uninterp spec fn packed(&self) -> Seq<u8>;
    #[verifier::external_body]
    fn packed_len(&self) -> (r: usize) { unimplemented!() }
    #[verifier::external_body]
    fn pack_to_slice<'buf>(&self, buf: &'buf mut [u8]) -> (r: Result<&'buf [u8], WireError>) { unimplemented!() }
}
impl EtherCrabWireWriteSized for SdoSegmented {
    #[verifier::external_body]
    fn pack(&self) -> (r: Buf9) { unimplemented!() }
}

impl CoeServiceRequest for SdoExpedited {
    open spec fn validate_spec(&self, received_index: u16, received_subindex: u8) -> bool {
        received_index == self.sdo_header.index && received_subindex == self.sdo_header.sub_index
    }
/*@fn file=src/mailbox/coe/services.rs impl="impl CoeServiceRequest for SdoExpedited" name=validate_response props=C15 canary=0
@*/
}
impl CoeServiceRequest for SdoNormal {
    open spec fn validate_spec(&self, received_index: u16, received_subindex: u8) -> bool {
        received_index == self.sdo_header.index && received_subindex == self.sdo_header.sub_index
    }
/*@fn file=src/mailbox/coe/services.rs impl="impl CoeServiceRequest for SdoNormal" name=validate_response props=C15 canary=0
@*/
}
impl CoeServiceRequest for SdoSegmented {
    open spec fn validate_spec(&self, received_index: u16, received_subindex: u8) -> bool { true }
/*@fn file=src/mailbox/coe/services.rs impl="impl CoeServiceRequest for SdoSegmented" name=validate_response props=C15 canary=0
@*/
}

// ---- the SubDevice seen from Coe ----
pub struct LabeledTimeout { pub _p: u8 }
pub struct Timeouts { pub _p: u8 }
impl Timeouts {
    pub uninterp spec fn mailbox_echo_v(&self) -> LabeledTimeout;
    pub uninterp spec fn mailbox_response_v(&self) -> LabeledTimeout;
    #[verifier::external_body]
    pub fn mailbox_echo(&self) -> (r: LabeledTimeout) ensures r == self.mailbox_echo_v() { unimplemented!() }
    #[verifier::external_body]
    pub fn mailbox_response(&self) -> (r: LabeledTimeout) ensures r == self.mailbox_response_v() { unimplemented!() }
    /// the pause between two polls (src/timer_factory.rs)
    #[verifier::external_body]
    pub async fn loop_tick(&self) { unimplemented!() }
}
//@include prelude/timeouts.rs
pub struct MainDevice { pub timeouts: Timeouts }
pub struct MailboxConfig { pub read: Option<Mailbox>, pub write: Option<Mailbox>, pub complete_access: bool }
pub struct SubDeviceConfig { pub mailbox: MailboxConfig }
pub struct SubDeviceRef<'a> { pub maindevice: &'a MainDevice, pub config: SubDeviceConfig }

/// "`data` was sent (FPWR through WrappedWrite::send, which does not look at the working counter) to `len` bytes at `address` of this SubDevice"
pub uninterp spec fn mbx_written(address: u16, len: u16, data: Seq<u8>) -> bool;
/// "`data` is what a checked FPRD of `len` bytes at `address` of this SubDevice returned"
pub uninterp spec fn slice_read(address: u16, len: u16, data: Seq<u8>) -> bool;
/// "`reply` is what was read from the SubDevice's response mailbox `m`"
pub open spec fn mbx_reply(m: Mailbox, reply: Seq<u8>) -> bool { slice_read(m.address, m.len, reply) }
/// "this error came out of a datagram exchange (PDU timeout, working counter, decode)"
pub uninterp spec fn net_err(e: Error) -> bool;
/// "this error was reported by the exchange itself (network, timeout scope, no mailbox) and not by the triage of a reply"
pub open spec fn exchange_err(e: Error) -> bool {
    net_err(e) || (exists|t: LabeledTimeout| e == #[trigger] timeout_error(t))
        || e == Error::Mailbox(MailboxError::NoReadMailbox) || e == Error::Mailbox(MailboxError::NoWriteMailbox)
}

/// "a checked read of the status register at `address` returned `st`"
pub uninterp spec fn status_read(address: u16, st: Status) -> bool;
/// status register of sync manager `sm` (src/register.rs: SM0 at 0x0800, 8 bytes per sync manager, status = byte 5)
pub open spec fn sm_status_reg(sm: u8) -> u16 { (0x0800 + 8 * sm + 5) as u16 }
/// the sync manager status byte as far as it is looked at here (src/sync_manager_channel.rs; layout: C19)
pub struct Status { pub mailbox_full: bool }
/// (`checked`: the read still expects exactly one device to answer - `ignore_wkc` gives that up)
pub struct WrappedRead { pub address: u16, pub checked: bool }
impl WrappedRead {
    /// real bodies: src/command/reads.rs (unit `wrapped`)
    #[verifier::external_body]
    pub fn ignore_wkc(self) -> (r: Self) ensures r.address == self.address, !r.checked { unimplemented!() }
    /// `receive::<Status>`: the device may report ANY status.  C11: a mailbox status poll must be a CHECKED read - a device that
    /// does not answer (zero data = "mailbox free / no reply yet") has to surface as an error, not as a status
    #[verifier::external_body]
    pub async fn receive_status(self, maindevice: &MainDevice) -> (r: Result<Status, Error>)
        requires self.checked
        ensures
            r is Ok ==> status_read(self.address, r->Ok_0),
            r is Err ==> net_err(r->Err_0),
    { unimplemented!() }
    /// ANY bytes; only a checked read counts as "what the device's mailbox held"
    #[verifier::external_body]
    pub async fn receive_slice(self, maindevice: &MainDevice, len: u16) -> (r: Result<ReceivedPdu, Error>)
        ensures
            r is Ok && self.checked ==> slice_read(self.address, len, (r->Ok_0).data()),
            r is Err ==> net_err(r->Err_0),
    { unimplemented!() }
}
pub struct RegisterAddress { pub _p: u8 }
impl RegisterAddress {
    /// real body: src/register.rs - `unreachable!()` for an index >= 16 (mailbox sync managers come from a list of at most 8)
    #[verifier::external_body]
    pub fn sync_manager_status(index: u8) -> (r: u16)
        requires index < 16
        ensures r == sm_status_reg(index)
    { unimplemented!() }
}

pub struct WrappedWrite { pub address: u16, pub len: Option<u16> }
impl WrappedWrite {
    /// real body: src/command/writes.rs (unit `wrapped`)
    #[verifier::external_body]
    pub fn with_len(self, new_len: u16) -> (r: Self)
        ensures r.address == self.address, r.len == Some(new_len)
    { unimplemented!() }
    #[verifier::external_body]
    pub async fn send<D: EtherCrabWireWrite>(self, maindevice: &MainDevice, data: D) -> (r: Result<(), Error>)
        ensures
            r is Ok ==> self.len is Some && mbx_written(self.address, self.len->Some_0, data.packed()),
            r is Err ==> net_err(r->Err_0),
    { unimplemented!() }
}
impl<'a> SubDeviceRef<'a> {
    #[verifier::external_body]
    pub fn write(&self, register: u16) -> (r: WrappedWrite)
        ensures r.address == register, r.len is None
    { unimplemented!() }
    #[verifier::external_body]
    pub fn read(&self, register: u16) -> (r: WrappedRead)
        ensures r.address == register, r.checked
    { unimplemented!() }
    #[verifier::external_body]
    pub fn configured_address(&self) -> (r: u16) { unimplemented!() }
    #[verifier::external_body]
    pub fn name(&self) -> (r: &str) { unimplemented!() }
}

/// the outcome the property statement asks for, as a function of the request and of the reply bytes
pub open spec fn triage<R: CoeServiceRequest>(req: R, reply: Seq<u8>) -> Result<(R, Seq<u8>), Error> {
    match hdr_spec(reply) {
        Err(e) => Err(Error::Wire(e)),
        Ok(h) =>
            if h.coe_header.service == CoeService::Emergency {
                match emcy_spec(reply.subrange(8, reply.len() as int)) {
                    Err(e) => Err(Error::Wire(e)),
                    Ok(d) => Err(Error::Mailbox(MailboxError::Emergency { error_code: d.error_code, error_register: d.error_register })),
                }
            } else if h.command == CoeCommand::Abort {
                match abort_spec(reply.subrange(12, reply.len() as int)) {
                    Err(e) => Err(Error::Wire(e)),
                    Ok(code) => Err(Error::Mailbox(MailboxError::Aborted { code, address: h.address, sub_index: h.sub_index })),
                }
            } else if h.header.mailbox_type != MailboxType::Coe || !req.validate_spec(h.address, h.sub_index) {
                Err(Error::Mailbox(MailboxError::SdoResponseInvalid { address: h.address, sub_index: h.sub_index }))
            } else {
                match R::unpack_spec(reply) {
                    Err(e) => Err(Error::Wire(e)),
                    Ok(hh) => Ok((hh, reply.subrange(12, reply.len() as int))),
                }
            },
    }
}

pub open spec fn view_of<R>(r: Result<(R, ReceivedPdu), Error>) -> Result<(R, Seq<u8>), Error> {
    match r { Ok((h, p)) => Ok((h, p.data())), Err(e) => Err(e) }
}

pub struct Coe<'a> { pub subdevice: &'a SubDeviceRef<'a> }
impl<'a> Coe<'a> {
    /// the mailboxes are well-formed: their sync manager index names one of the 16 sync manager register blocks
    /// (configure_mailboxes takes it from the position in a list of at most 8)
    pub open spec fn wf(&self) -> bool {
        &&& (self.subdevice.config.mailbox.read is Some ==> self.subdevice.config.mailbox.read->Some_0.sync_manager < 16)
        &&& (self.subdevice.config.mailbox.write is Some ==> self.subdevice.config.mailbox.write->Some_0.sync_manager < 16)
    }

/*@fn file=src/mailbox/coe/mod.rs impl="impl<'maindevice, S> Coe<'maindevice, S>" name=wait_for_mailboxes subst=".receive::<crate::sync_manager_channel::Status>(=>.receive_status(" timeouts=1 props=C15,C16 attr="#[verifier::loop_isolation(false)] #[verifier::allow_complex_invariants]" __brk0="Result<(), Error>"
    requires self.wf()
    ensures
        // Ok => the pair is (read mailbox, write mailbox) as configured - the order mailbox_write_read relies on
        r is Ok ==> self.subdevice.config.mailbox.read == Some((r->Ok_0).0) && self.subdevice.config.mailbox.write == Some((r->Ok_0).1),
        r is Err ==> exchange_err(r->Err_0),
        // Ok => the status of the READ mailbox's own sync manager was polled (that is what the stale-mailbox drain looks at),
        // and the WRITE mailbox's own sync manager reported "not full" before the request may be written
        r is Ok ==> (exists|st: Status| #[trigger] status_read(sm_status_reg(self.subdevice.config.mailbox.read->Some_0.sync_manager), st))
            && (exists|st: Status| #[trigger] status_read(sm_status_reg(self.subdevice.config.mailbox.write->Some_0.sync_manager), st) && !st.mailbox_full),
    // the stale-mailbox drain runs at most 10 times; the wait for the write mailbox runs under the mailbox_echo timeout
@loop 0
    invariant
        !__dl.active,
        i > 0 ==> exists|st: Status| #[trigger] status_read(sm_status_reg(read_mailbox.sync_manager), st),
@loop 1
    invariant
        __dl.active, __dl.t@ == self.subdevice.maindevice.timeouts.mailbox_echo_v(),
    ensures
        __brk0 is Ok ==> exists|st: Status| #[trigger] status_read(sm_status_reg(write_mailbox.sync_manager), st) && !st.mailbox_full,
    decreases __dl.left@
@closure 0 "|_e: &Error|"
@*/

/*@fn file=src/mailbox/coe/mod.rs impl="impl<'maindevice, S> Coe<'maindevice, S>" name=wait_for_mailbox_response subst=".receive::<crate::sync_manager_channel::Status>(=>.receive_status(" timeouts=1 props=C15,C16 attr="#[verifier::loop_isolation(false)] #[verifier::allow_complex_invariants]" __brk0="Result<(), Error>"
    requires read_mailbox.sync_manager < 16
    ensures
        // the reply handed to the triage is what a checked read of exactly this mailbox (address, length) returned, after
        // the mailbox reported full; waiting for that runs under the mailbox_response timeout
        r is Ok ==> mbx_reply(*read_mailbox, (r->Ok_0).data()),
        r is Ok ==> exists|st: Status| #[trigger] status_read(sm_status_reg(read_mailbox.sync_manager), st) && st.mailbox_full,
        r is Err ==> exchange_err(r->Err_0),
@loop 0
    invariant
        __dl.active, __dl.t@ == self.subdevice.maindevice.timeouts.mailbox_response_v(),
    ensures
        __brk0 is Ok ==> exists|st: Status| #[trigger] status_read(sm_status_reg(read_mailbox.sync_manager), st) && st.mailbox_full,
    decreases __dl.left@
@closure 0 "|_e: &Error|"
@*/

/*@fn file=src/mailbox/coe/mod.rs impl="impl<'maindevice, S> Coe<'maindevice, S>" name=mailbox_write_read subst="&'maindevice self=>&self@@ReceivedPdu<'maindevice>=>ReceivedPdu@@R: CoeServiceRequest + Debug=>R: CoeServiceRequest" props=C15,C16 try_all=1
    requires self.wf()
    ensures
        (r is Err && exchange_err(r->Err_0)) || exists|reply: Seq<u8>|
            self.subdevice.config.mailbox.read is Some && self.subdevice.config.mailbox.write is Some
            && mbx_written(self.subdevice.config.mailbox.write->Some_0.address, self.subdevice.config.mailbox.write->Some_0.len, request.packed())
            && #[trigger] mbx_reply(self.subdevice.config.mailbox.read->Some_0, reply)
            && view_of(r) == triage(request, reply),
@hoist HeadersRaw
@hoist EmergencyData
@closure 0 "|err: &Error|"
@after "let mut response = self.wait_for_mailbox_response(&read_mailbox).await?;"
    let ghost reply0 = response.data();
    proof {
        // the witnesses of the postcondition, in the shape of its trigger
        assert(mbx_reply(self.subdevice.config.mailbox.read->Some_0, reply0));
        assert(mbx_written(self.subdevice.config.mailbox.write->Some_0.address, self.subdevice.config.mailbox.write->Some_0.len, request.packed()));
    }
@*/
}

} // verus!
fn main() {}

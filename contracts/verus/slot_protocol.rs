//@unit slot_protocol  props=C02,C03,C06  min_verified=10
// Protocol lemma (L) over the slot machine of /verif/specs/slot_protocol.json.  No code is extracted here: each transition
// below is one row of the table, and each row is proved on the real code from an arbitrary pre-state by the Kani groups
// slots / storage / tx / rx.  This file proves what the rows imply together, for ANY number of slots and tasks.
use vstd::prelude::*;
verus! {

pub enum St { None, Created, Sendable, Sending, Sent, RxBusy, RxDone, RxProcessing }

pub enum Party { App(int), Tx, Rx }

/// one slot: status, the set of parties currently inside its buffer, and the task owning the request handle (ghost)
pub struct Slot { pub st: St, pub inside: Set<Party>, pub owner: Option<int> }

pub open spec fn app_only(s: Slot) -> bool {
    exists|t: int| s.inside == Set::<Party>::empty().insert(Party::App(t)) && s.owner == Some(t)
}

/// C02 invariant: who is inside the buffer is determined by the status, and it is never more than one party
pub open spec fn inv(s: Slot) -> bool {
    match s.st {
        St::None => s.inside == Set::<Party>::empty() && s.owner is None,
        St::Sendable | St::Sent | St::RxDone => s.inside == Set::<Party>::empty() && s.owner is Some,
        St::Created | St::RxProcessing => app_only(s),
        St::Sending => s.inside == Set::<Party>::empty().insert(Party::Tx) && s.owner is Some,
        St::RxBusy => s.inside == Set::<Party>::empty().insert(Party::Rx) && s.owner is Some,
    }
}

pub open spec fn at_most_one_inside(s: Slot) -> bool {
    forall|p: Party, q: Party| s.inside.contains(p) && s.inside.contains(q) ==> p == q
}

// ---- the core transitions (table "core"); `None` result = not enabled from this state -------------------------------
pub open spec fn alloc(s: Slot, t: int) -> Option<Slot> {
    if s.st is None { Some(Slot { st: St::Created, inside: s.inside.insert(Party::App(t)), owner: Some(t) }) } else { None }
}
pub open spec fn mark_sendable(s: Slot, t: int) -> Option<Slot> {
    if s.st is Created && s.inside.contains(Party::App(t)) { Some(Slot { st: St::Sendable, inside: s.inside.remove(Party::App(t)), ..s }) } else { None }
}
pub open spec fn created_drop(s: Slot, t: int) -> Option<Slot> {
    if s.st is Created && s.inside.contains(Party::App(t)) { Some(Slot { st: St::None, inside: s.inside.remove(Party::App(t)), owner: None }) } else { None }
}
pub open spec fn claim_sending(s: Slot) -> Option<Slot> {
    if s.st is Sendable { Some(Slot { st: St::Sending, inside: s.inside.insert(Party::Tx), ..s }) } else { None }
}
pub open spec fn mark_sent(s: Slot) -> Option<Slot> {
    if s.st is Sending && s.inside.contains(Party::Tx) { Some(Slot { st: St::Sent, inside: s.inside.remove(Party::Tx), ..s }) } else { None }
}
pub open spec fn release_sending(s: Slot) -> Option<Slot> {
    if s.st is Sending && s.inside.contains(Party::Tx) { Some(Slot { st: St::Sendable, inside: s.inside.remove(Party::Tx), ..s }) } else { None }
}
pub open spec fn claim_receiving(s: Slot) -> Option<Slot> {
    if s.st is Sent { Some(Slot { st: St::RxBusy, inside: s.inside.insert(Party::Rx), ..s }) } else { None }
}
pub open spec fn mark_received(s: Slot) -> Option<Slot> {
    if s.st is RxBusy && s.inside.contains(Party::Rx) { Some(Slot { st: St::RxDone, inside: s.inside.remove(Party::Rx), ..s }) } else { None }
}
pub open spec fn poll_ready(s: Slot, t: int) -> Option<Slot> {
    if s.st is RxDone && s.owner == Some(t) { Some(Slot { st: St::RxProcessing, inside: s.inside.insert(Party::App(t)), ..s }) } else { None }
}
pub open spec fn received_drop(s: Slot, t: int) -> Option<Slot> {
    if s.st is RxProcessing && s.inside.contains(Party::App(t)) { Some(Slot { st: St::None, inside: s.inside.remove(Party::App(t)), owner: None }) } else { None }
}

pub open spec fn core_step(s: Slot, n: Slot) -> bool {
    ||| exists|t: int| alloc(s, t) == Some(n)
    ||| exists|t: int| mark_sendable(s, t) == Some(n)
    ||| exists|t: int| created_drop(s, t) == Some(n)
    ||| claim_sending(s) == Some(n)
    ||| mark_sent(s) == Some(n)
    ||| release_sending(s) == Some(n)
    ||| claim_receiving(s) == Some(n)
    ||| mark_received(s) == Some(n)
    ||| exists|t: int| poll_ready(s, t) == Some(n)
    ||| exists|t: int| received_drop(s, t) == Some(n)
}

pub proof fn lemma_set1<A>(a: A)
    ensures
        Set::<A>::empty().insert(a).remove(a) == Set::<A>::empty(),
        forall|x: A| Set::<A>::empty().insert(a).contains(x) ==> x == a,
{
    assert(Set::<A>::empty().insert(a).remove(a) =~= Set::<A>::empty());
}

/// C02: the invariant is inductive for every core transition
pub proof fn inv_inductive_core(s: Slot, n: Slot)
    requires inv(s), core_step(s, n)
    ensures inv(n)
{
    lemma_set1(Party::Tx);
    lemma_set1(Party::Rx);
    if exists|t: int| alloc(s, t) == Some(n) {
        let t = choose|t: int| alloc(s, t) == Some(n);
        assert(n.inside == Set::<Party>::empty().insert(Party::App(t)));
    } else if exists|t: int| mark_sendable(s, t) == Some(n) {
        let t = choose|t: int| mark_sendable(s, t) == Some(n);
        let u = choose|u: int| s.inside == Set::<Party>::empty().insert(Party::App(u)) && s.owner == Some(u);
        lemma_set1(Party::App(u));
        assert(n.inside =~= Set::<Party>::empty());
    } else if exists|t: int| created_drop(s, t) == Some(n) {
        let t = choose|t: int| created_drop(s, t) == Some(n);
        let u = choose|u: int| s.inside == Set::<Party>::empty().insert(Party::App(u)) && s.owner == Some(u);
        lemma_set1(Party::App(u));
        assert(n.inside =~= Set::<Party>::empty());
    } else if exists|t: int| poll_ready(s, t) == Some(n) {
        let t = choose|t: int| poll_ready(s, t) == Some(n);
        assert(n.inside == Set::<Party>::empty().insert(Party::App(t)));
    } else if exists|t: int| received_drop(s, t) == Some(n) {
        let t = choose|t: int| received_drop(s, t) == Some(n);
        let u = choose|u: int| s.inside == Set::<Party>::empty().insert(Party::App(u)) && s.owner == Some(u);
        lemma_set1(Party::App(u));
        assert(n.inside =~= Set::<Party>::empty());
    } else {
        assert(n.inside =~= n.inside);
    }
}

/// C02 corollary: never two parties inside one buffer
pub proof fn inv_implies_exclusion(s: Slot)
    requires inv(s)
    ensures at_most_one_inside(s)
{
    lemma_set1(Party::Tx);
    lemma_set1(Party::Rx);
    if s.st is Created || s.st is RxProcessing {
        let u = choose|u: int| s.inside == Set::<Party>::empty().insert(Party::App(u)) && s.owner == Some(u);
        lemma_set1(Party::App(u));
    }
}

/// C02: a claim-by-CAS state is entered only from a state in which nobody is inside ("never given to a new request until
/// the previous owner has let go"), and every change follows the documented order
pub proof fn claims_enter_empty_buffers(s: Slot, n: Slot)
    requires inv(s), core_step(s, n), n.inside.len() > s.inside.len(), s.inside.finite()
    ensures s.inside == Set::<Party>::empty()
{
    lemma_set1(Party::Tx);
    lemma_set1(Party::Rx);
    if s.st is Created || s.st is RxProcessing {
        let u = choose|u: int| s.inside == Set::<Party>::empty().insert(Party::App(u)) && s.owner == Some(u);
        lemma_set1(Party::App(u));
        assert(forall|t: int| (#[trigger] s.inside.remove(Party::App(t))).len() <= s.inside.len()) by {
            assert forall|t: int| (#[trigger] s.inside.remove(Party::App(t))).len() <= s.inside.len() by {
                vstd::set_lib::lemma_len_subset(s.inside.remove(Party::App(t)), s.inside);
            }
        }
    }
    if s.st is Sending {
        vstd::set_lib::lemma_len_subset(s.inside.remove(Party::Tx), s.inside);
    }
    if s.st is RxBusy {
        vstd::set_lib::lemma_len_subset(s.inside.remove(Party::Rx), s.inside);
    }
}

/// C03: a slot that is not free is accounted for: its request handle is alive (owner) - so once every handle has been
/// dropped (no owner anywhere) every slot is None and alloc_frame (Kani: fails only when no slot is None) succeeds N times
pub proof fn nonfree_slot_has_owner(s: Slot)
    requires inv(s), !(s.st is None)
    ensures s.owner is Some
{
}

pub proof fn all_handles_dropped_means_all_free(slots: Seq<Slot>)
    requires forall|i: int| 0 <= i < slots.len() ==> inv(#[trigger] slots[i]) && slots[i].owner is None
    ensures forall|i: int| 0 <= i < slots.len() ==> (#[trigger] slots[i]).st is None
{
}

// ---- C06: deadline / abandon transitions (table "deadline"), split per source state -------------------------------------
pub open spec fn abandon(s: Slot) -> Slot { Slot { st: St::None, inside: s.inside, owner: None } }
pub open spec fn retry(s: Slot) -> Slot { Slot { st: St::Sendable, ..s } }

/// abandon / timeout release is safe from every state in which nobody is inside the buffer
pub proof fn abandon_safe(s: Slot)
    requires inv(s), s.st is Sendable || s.st is Sent || s.st is RxDone
    ensures inv(abandon(s))
{
}

/// retry is safe from Sendable and Sent (the transmission-count clause assumes TX serviced the frame before the deadline)
pub proof fn retry_safe(s: Slot)
    requires inv(s), s.st is Sendable || s.st is Sent
    ensures inv(retry(s))
{
}

/// The remaining (state, transition) pairs do NOT preserve the invariant: these are the known findings C06-U1..U5
/// (the Kani harnesses fut_poll_table / fut_drop show that the real code performs exactly these transitions).
pub proof fn abandon_from_sending_breaks_exclusion(s: Slot, t: int)
    requires inv(s), s.st is Sending
    ensures
        !inv(abandon(s)),
        // and a second request can then get inside together with TX
        alloc(abandon(s), t) is Some && !at_most_one_inside(alloc(abandon(s), t)->Some_0),
{
    lemma_set1(Party::Tx);
    let n = alloc(abandon(s), t)->Some_0;
    assert(n.inside.contains(Party::Tx) && n.inside.contains(Party::App(t)));
}

pub proof fn abandon_from_rxbusy_breaks_exclusion(s: Slot, t: int)
    requires inv(s), s.st is RxBusy
    ensures !inv(abandon(s)), alloc(abandon(s), t) is Some && !at_most_one_inside(alloc(abandon(s), t)->Some_0),
{
    lemma_set1(Party::Rx);
    let n = alloc(abandon(s), t)->Some_0;
    assert(n.inside.contains(Party::Rx) && n.inside.contains(Party::App(t)));
}

pub proof fn retry_from_rxbusy_breaks_exclusion(s: Slot)
    requires inv(s), s.st is RxBusy
    ensures !inv(retry(s)), claim_sending(retry(s)) is Some && !at_most_one_inside(claim_sending(retry(s))->Some_0),
{
    lemma_set1(Party::Rx);
    let n = claim_sending(retry(s))->Some_0;
    assert(n.inside.contains(Party::Rx) && n.inside.contains(Party::Tx));
}

/// C06 counting argument: every expiry either resolves the future or consumes one retry, so at most retries+1 expiries
/// (hence at most retries+1 transmissions when TX services each Sendable once) happen before the future resolves.
pub open spec fn expiries_until_resolved(retries: nat) -> nat { retries + 1 }

pub proof fn expiry_count(retries: nat)
    ensures expiries_until_resolved(retries) == retries + 1
    decreases retries
{
}

} // verus!
fn main() {}

//@unit slot_search  props=C02,C03,C01,C05  min_verified=5
// The four functions that SEARCH the slot array, extracted WHOLE for ANY number of slots (src/pdu_loop/storage.rs, pdu_tx.rs):
// PduStorageRef::{frame_at_index, alloc_frame, claim_receiving, frame_index_by_first_pdu_index} and PduTx::next_sendable_frame.
// The Kani groups `storage`/`slots` prove them on the real pointer code per storage size N in {1,2,4}; this unit removes the bound on N.
// A slot is seen through the single-slot operations whose contracts Kani proves from an ARBITRARY slot state (loop-free, complete):
// claim_created succeeds iff the slot is None, claim_sending iff Sendable, claim_receiving iff Sent, first_pdu_is iff the marker holds
// that index.  The slot array is a snapshot (sequential contract; the concurrent composition is the slot_protocol lemma).
// Non-verbatim, logged: `&self` of alloc_frame becomes `&mut self` so that the atomic cursor's fetch_add is visible to the contract;
// the pointer expression `frames.as_ptr().byte_add(i * stride)` keeps its arithmetic and lands on a stand-in whose `requires` is the
// safety condition of that pointer offset (inside the allocation, on a slot boundary).
use vstd::prelude::*;
verus! {

//@include prelude/errors.rs
//@include prelude/opaque_payloads.rs
//@include prelude/opaque_command.rs
//@include prelude/std_specs.rs

/*@type file=src/pdu_loop/frame_element/mod.rs name=FrameState derive="Clone, Copy, PartialEq, Eq, Debug" @*/
pub enum Ordering { Relaxed, Acquire, Release, AcqRel, SeqCst }

/// what the search functions can observe of one slot
pub struct SlotV { pub state: FrameState, pub marker: Option<u8> }
/// pointer to one slot (`NonNull<FrameElement<0>>`): which slot, and what is in it
pub struct SlotPtr { pub idx: Ghost<int>, pub v: Ghost<SlotV> }
/// `frames: NonNull<FrameElement<0>>` - base of the slot array (n slots, `stride` bytes apart)
pub struct FramesPtr { pub slots: Ghost<Seq<SlotV>>, pub stride: Ghost<int> }
pub struct RawFrames { pub slots: Ghost<Seq<SlotV>>, pub stride: Ghost<int> }
impl FramesPtr {
    #[verifier::external_body]
    pub fn as_ptr(&self) -> (r: RawFrames) ensures r.slots == self.slots, r.stride == self.stride { unimplemented!() }
}
impl RawFrames {
    /// SAFETY condition of `ptr.byte_add(off)` as used here: the offset is a slot boundary inside the allocation
    #[verifier::external_body]
    pub fn byte_add(self, off: usize) -> (r: SlotPtr)
        requires self.stride@ > 0, off as int % self.stride@ == 0, off as int / self.stride@ < self.slots@.len()
        ensures r.idx@ == off as int / self.stride@, r.v@ == self.slots@[off as int / self.stride@]
    { unimplemented!() }
}
/// `NonNull::new_unchecked(p)`: p is never null here (it lies inside the allocation)
pub fn nn(p: SlotPtr) -> (r: SlotPtr) ensures r == p { p }

/// AtomicU8 cursor (sequential view)
pub struct CounterU8 { pub v: u8 }
impl CounterU8 {
    #[verifier::external_body]
    pub fn fetch_add(&mut self, n: u8, o: Ordering) -> (r: u8)
        ensures r == old(self).v, final(self).v == ((old(self).v as int + n as int) % 256) as u8
    { unimplemented!() }
}
#[derive(Clone, Copy)]
pub struct PduIdxRef { pub _p: u8 }

pub struct CreatedFrame { pub index: u8 }
impl CreatedFrame {
    /// Kani slots::slot_claim_created (any slot state): Ok iff the slot was None; it is then Created, initialised, and knows its index
    #[verifier::external_body]
    pub fn claim_created(frame: SlotPtr, frame_index: u8, pdu_idx: PduIdxRef, frame_data_len: usize) -> (r: Result<Self, PduError>)
        requires frame.idx@ == frame_index as int
        ensures (r is Ok) == (frame.v@.state == FrameState::None), r is Ok ==> (r->Ok_0).index == frame_index
    { unimplemented!() }
}
pub struct SendableFrame { pub index: Ghost<int> }
impl SendableFrame {
    /// Kani slots::slot_claim_sending: Some iff the slot was Sendable
    #[verifier::external_body]
    pub fn claim_sending(frame: SlotPtr, pdu_idx: PduIdxRef, frame_data_len: usize) -> (r: Option<Self>)
        ensures (r is Some) == (frame.v@.state == FrameState::Sendable), r is Some ==> (r->Some_0).index@ == frame.idx@
    { unimplemented!() }
}
pub struct ReceivingFrame { pub index: Ghost<int> }
impl ReceivingFrame {
    /// Kani slots::slot_claim_receiving: Some iff the slot was Sent
    #[verifier::external_body]
    pub fn claim_receiving(frame: SlotPtr, pdu_idx: PduIdxRef, frame_data_len: usize) -> (r: Option<Self>)
        ensures (r is Some) == (frame.v@.state == FrameState::Sent), r is Some ==> (r->Some_0).index@ == frame.idx@
    { unimplemented!() }
}
pub struct FrameElement0;
impl FrameElement0 {
    /// Kani slots::slot_first_pdu_is: the 16-bit marker equals the index (the empty sentinel 0xff00 equals none)
    #[verifier::external_body]
    pub fn first_pdu_is(this: SlotPtr, search: u8) -> (r: bool)
        ensures r == (this.v@.marker == Some(search))
    { unimplemented!() }
}

pub struct PduStorageRef {
    pub frames: FramesPtr, pub frame_element_stride: usize, pub num_frames: usize, pub frame_data_len: usize,
    pub frame_idx: CounterU8, pub pdu_idx: PduIdxRef, pub exit: bool,
}
impl PduStorageRef {
    pub open spec fn slots(&self) -> Seq<SlotV> { self.frames.slots@ }
    /// what try_split / as_ref establish: 1..=255 slots, `stride` bytes apart, the array exists in memory
    pub open spec fn wf(&self) -> bool {
        0 < self.num_frames <= 255 && self.slots().len() == self.num_frames
        && self.frame_element_stride > 0 && self.frames.stride@ == self.frame_element_stride
        && self.num_frames * self.frame_element_stride <= isize::MAX
    }
    /// the slot tried by attempt number i of a search that starts with the cursor at c
    pub open spec fn tried(&self, c: int, i: int) -> int { ((c + i) % 256) % (self.num_frames as int) }
}

pub proof fn lemma_mul_div(i: int, s: int)
    requires s > 0, i >= 0
    ensures (i * s) % s == 0, (i * s) / s == i
{
    vstd::arithmetic::div_mod::lemma_mod_multiples_basic(i, s);
    vstd::arithmetic::div_mod::lemma_div_multiples_vanish(i, s);
}
pub proof fn lemma_mul_le(i: int, n: int, s: int)
    requires 0 <= i < n, s > 0
    ensures 0 <= i * s <= n * s
{
    vstd::arithmetic::mul::lemma_mul_inequality(i, n, s);
    vstd::arithmetic::mul::lemma_mul_nonnegative(i, s);
}

/// 2N consecutive values of an 8-bit cursor, reduced mod N, visit every slot (N <= 255): either the first N values do not wrap,
/// or the N values from the wrap on are 0..N-1
pub proof fn lemma_two_rounds_cover(c: int, n: int, j: int) -> (i: int)
    requires 0 <= c < 256, 0 < n <= 255, 0 <= j < n
    ensures 0 <= i < 2 * n, ((c + i) % 256) % n == j
{
    if c + n <= 256 {
        // no wrap inside the first N attempts: c, c+1, .., c+N-1
        let d = (j - c % n + n) % n;       // 0 <= d < n with (c + d) % n == j
        assert(0 <= d < n);
        assert((c + d) % 256 == c + d);
        assert((c + d) % n == j) by {
            let r = c % n;
            assert(c == n * (c / n) + r) by { vstd::arithmetic::div_mod::lemma_fundamental_div_mod(c, n); }
            if j >= r {
                assert(d == j - r) by { vstd::arithmetic::div_mod::lemma_mod_multiples_vanish(1, j - r, n); vstd::arithmetic::div_mod::lemma_small_mod((j - r) as nat, n as nat); }
                assert(c + d == n * (c / n) + j);
                vstd::arithmetic::div_mod::lemma_mod_multiples_vanish(c / n, j, n);
                vstd::arithmetic::div_mod::lemma_small_mod(j as nat, n as nat);
                assert(n * (c / n) == (c / n) * n) by { vstd::arithmetic::mul::lemma_mul_is_commutative(n, c / n); }
            } else {
                assert(d == j - r + n) by { vstd::arithmetic::div_mod::lemma_small_mod((j - r + n) as nat, n as nat); }
                assert(c + d == n * (c / n + 1) + j) by { vstd::arithmetic::mul::lemma_mul_is_distributive_add(n, c / n, 1); }
                vstd::arithmetic::div_mod::lemma_mod_multiples_vanish(c / n + 1, j, n);
                vstd::arithmetic::div_mod::lemma_small_mod(j as nat, n as nat);
                assert(n * (c / n + 1) == (c / n + 1) * n) by { vstd::arithmetic::mul::lemma_mul_is_commutative(n, c / n + 1); }
            }
        }
        d
    } else {
        // the cursor wraps after 256 - c < N attempts; the N attempts from there use 0, 1, .., N-1
        let i = 256 - c + j;
        assert(0 <= i < 2 * n);
        assert((c + i) % 256 == j) by { assert(c + i == 256 + j); }
        assert(j % n == j) by { vstd::arithmetic::div_mod::lemma_small_mod(j as nat, n as nat); }
        i
    }
}

impl PduStorageRef {
/*@fn file=src/pdu_loop/storage.rs impl="impl<'sto> PduStorageRef<'sto>" name=frame_at_index subst="NonNull<FrameElement<0>>=>SlotPtr@@NonNull::new_unchecked(=>nn(" props=C02,C03
    requires self.wf(), idx < self.num_frames       // the `assert!` at the top of the body: an obligation of every caller (R2)
    ensures r.idx@ == idx, r.v@ == self.slots()[idx as int]
@entry
    proof { lemma_mul_div(idx as int, self.frame_element_stride as int); lemma_mul_le(idx as int, self.num_frames as int, self.frame_element_stride as int); }
@*/

/*@fn file=src/pdu_loop/storage.rs impl="impl<'sto> PduStorageRef<'sto>" name=alloc_frame subst="&self=>&mut self@@CreatedFrame<'sto>=>CreatedFrame" props=C02,C03 for_names=1
    requires old(self).wf()
    ensures
        final(self).frames == old(self).frames, final(self).num_frames == old(self).num_frames, final(self).wf(),
        // a frame is handed out only from a slot that was None - the first such slot in cursor order - and the cursor moves past it
        r is Ok ==> exists|i: int| 0 <= i < 2 * old(self).num_frames
            && (r->Ok_0).index as int == #[trigger] old(self).tried(old(self).frame_idx.v as int, i)
            && old(self).slots()[(r->Ok_0).index as int].state == FrameState::None
            && (forall|k: int| 0 <= k < i ==> old(self).slots()[#[trigger] old(self).tried(old(self).frame_idx.v as int, k)].state != FrameState::None)
            && final(self).frame_idx.v as int == (old(self).frame_idx.v as int + i + 1) % 256,
        // allocation fails ONLY when no slot is free (two rounds of an 8-bit cursor visit every slot), with the documented error
        r is Err ==> r->Err_0 == Error::Pdu(PduError::SwapState)
            && forall|j: int| 0 <= j < old(self).num_frames ==> (#[trigger] old(self).slots()[j]).state != FrameState::None,
@loop 0
    invariant
        self.wf(), self.frames == old(self).frames, self.num_frames == old(self).num_frames,
        self.frame_idx.v as int == (old(self).frame_idx.v as int + __i0 as int) % 256,
        forall|k: int| 0 <= k < __i0 ==> old(self).slots()[#[trigger] old(self).tried(old(self).frame_idx.v as int, k)].state != FrameState::None,
@before "return Ok(f);"
    proof {
        let c = old(self).frame_idx.v as int; let i = __i0 as int;
        assert(frame_idx as int == old(self).tried(c, i));
        assert(f.index == frame_idx);
        assert(self.frame_idx.v as int == (c + i + 1) % 256) by {
            vstd::arithmetic::div_mod::lemma_add_mod_noop(c + i, 1, 256);
        }
    }
@after_loop 0
    proof {
        let c = old(self).frame_idx.v as int; let n = old(self).num_frames as int;
        assert forall|j: int| 0 <= j < n implies (#[trigger] old(self).slots()[j]).state != FrameState::None by {
            let i = lemma_two_rounds_cover(c, n, j);
            assert(old(self).tried(c, i) == j);
        }
    }
@*/

/*@fn file=src/pdu_loop/storage.rs impl="impl<'sto> PduStorageRef<'sto>" name=claim_receiving subst="ReceivingFrame<'sto>=>ReceivingFrame" props=C02,C05
    requires self.wf()
    ensures
        (r is Some) == (frame_idx < self.num_frames && self.slots()[frame_idx as int].state == FrameState::Sent),
        r is Some ==> (r->Some_0).index@ == frame_idx,
@*/

/*@fn file=src/pdu_loop/storage.rs impl="impl<'sto> PduStorageRef<'sto>" name=frame_index_by_first_pdu_index subst="NonNull::new_unchecked(=>nn(@@FrameElement::<0>::first_pdu_is=>FrameElement0::first_pdu_is" props=C01,C05
    requires self.wf()
    ensures
        // the LOWEST slot whose marker holds the index; None iff no slot's does (empty slots hold the sentinel and never match)
        r is Some ==> (r->Some_0 as int) < self.num_frames && self.slots()[r->Some_0 as int].marker == Some(search_pdu_idx)
            && forall|j: int| 0 <= j < r->Some_0 ==> (#[trigger] self.slots()[j]).marker != Some(search_pdu_idx),
        r is None ==> forall|j: int| 0 <= j < self.num_frames ==> (#[trigger] self.slots()[j]).marker != Some(search_pdu_idx),
@loop 0
    invariant
        self.wf(),
        forall|j: int| 0 <= j < frame_index ==> (#[trigger] self.slots()[j]).marker != Some(search_pdu_idx),
@loop_start 0
    proof { lemma_mul_div(frame_index as int, self.frame_element_stride as int); lemma_mul_le(frame_index as int, self.num_frames as int, self.frame_element_stride as int); }
@*/
}

pub struct PduTx { pub storage: PduStorageRef }
impl PduTx {
    #[verifier::external_body]
    pub fn should_exit(&self) -> (r: bool) ensures r == self.storage.exit { unimplemented!() }

/*@fn file=src/pdu_loop/pdu_tx.rs impl="impl<'sto> PduTx<'sto>" name=next_sendable_frame subst="SendableFrame<'sto>=>SendableFrame" props=C02,C03 range_as_while=1
    requires old(self).storage.wf()
    ensures
        final(self).storage == old(self).storage,
        // the LOWEST Sendable slot is claimed; nothing is claimed once the exit flag is up; None otherwise only if no slot is Sendable
        r is Some ==> !old(self).storage.exit && 0 <= (r->Some_0).index@ < old(self).storage.num_frames
            && old(self).storage.slots()[(r->Some_0).index@].state == FrameState::Sendable
            && forall|j: int| 0 <= j < (r->Some_0).index@ ==> (#[trigger] old(self).storage.slots()[j]).state != FrameState::Sendable,
        r is None ==> old(self).storage.exit
            || forall|j: int| 0 <= j < old(self).storage.num_frames ==> (#[trigger] old(self).storage.slots()[j]).state != FrameState::Sendable,
@loop 0
    invariant
        self.storage == old(self).storage, self.storage.wf(), __c0 <= __e0, __e0 == self.storage.num_frames,
        forall|j: int| 0 <= j < __c0 ==> (#[trigger] self.storage.slots()[j]).state != FrameState::Sendable,
    decreases __e0 - __c0
@*/
}

} // verus!
fn main() {}

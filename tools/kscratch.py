#!/usr/bin/env python3
"""developer helper: prepare the Kani scratch tree and leave it in place:  kscratch.py [repo] -> prints path"""
import sys, os
sys.path.insert(0, os.path.dirname(__file__))
import krun
repo = sys.argv[1] if len(sys.argv) > 1 else "/repo"
scratch = "/tmp/verif_kani_dev/tree"
os.makedirs(os.path.dirname(scratch), exist_ok=True)
g = krun.all_groups(repo, "/tmp/verif_kani_dev/wire_gen"); g.pop("__wire_notes", None)
krun.prepare_scratch(repo, list(g.values()), scratch)
krun.refresh_dependency_builds(scratch, "/verif/.cache/kani_target")
print(scratch)

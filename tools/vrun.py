#!/usr/bin/env python3
"""vrun — run one Verus unit: generate from /repo, verify, run the canary variant, classify the outcome."""
import hashlib
import json
import os
import re
import subprocess
import sys
import tempfile
import time

sys.path.insert(0, os.path.dirname(__file__))
import vgen  # noqa: E402
from rsx import LostAnchor, norm  # noqa: E402

VERIF = os.path.abspath(os.path.join(os.path.dirname(__file__), ".."))
CACHE = os.path.join(VERIF, ".cache", "verus")
RLIMIT = "60"

# message -> obligation kind.  Anything else is a tool error (exit 2), never an alarm.
KINDS = [
    ("possible arithmetic underflow/overflow", "overflow"),
    ("possible division by zero", "div-by-zero"),
    ("possible bit shift underflow/overflow", "shift-overflow"),
    ("precondition not satisfied", "precondition"),
    ("postcondition not satisfied", "postcondition"),
    ("unable to prove post-condition of closure", "postcondition"),
    ("unable to prove precondition of closure", "precondition"),
    ("invariant not satisfied at end of loop body", "invariant"),
    ("invariant not satisfied before loop", "invariant"),
    ("loop invariant not satisfied", "invariant"),
    ("assertion failed", "assertion"),
    ("decreases not satisfied", "decreases"),
    ("could not prove termination", "decreases"),
    ("loop must have a decreases clause", "decreases"),
    ("recursive function must have a decreases clause", "decreases"),
    ("possible out of bounds", "bounds"),
]
RESOURCE = ("Resource limit", "rlimit", "timed out", "exceeded")


def sh(cmd, cwd=None, timeout=900):
    t0 = time.time()
    p = subprocess.run(cmd, cwd=cwd, stdout=subprocess.PIPE, stderr=subprocess.PIPE, text=True, timeout=timeout)
    return p.returncode, p.stdout, p.stderr, time.time() - t0


def verus_version():
    try:
        return subprocess.run(["verus", "--version"], stdout=subprocess.PIPE, text=True).stdout.split("Version:")[1].split()[0]
    except Exception:
        return "unknown"


def run_verus_file(path, rlimit=RLIMIT):
    """returns dict(rc, results(json) or None, diags[list of rustc json diagnostics], wall)"""
    text = open(path).read()
    key = hashlib.sha256((verus_version() + rlimit + text).encode()).hexdigest()
    os.makedirs(CACHE, exist_ok=True)
    cp = os.path.join(CACHE, key + ".json")
    if os.path.exists(cp) and not os.environ.get("VERIF_NOCACHE"):
        r = json.load(open(cp))
        r["cached"] = True
        return r
    cmd = ["verus", os.path.basename(path), "--output-json", "--time", "--multiple-errors", "100", "--rlimit", rlimit,
           "--error-format=json", "--num-threads", "8"]
    rc, out, err, wall = sh(cmd, cwd=os.path.dirname(path), timeout=1800)
    results = None
    try:
        results = json.loads(out)
    except Exception:
        m = re.search(r"\{.*\}", out, re.S)
        if m:
            try:
                results = json.loads(m.group(0))
            except Exception:
                results = None
    diags = []
    other = []
    for line in err.splitlines():
        line = line.strip()
        if line.startswith("{"):
            try:
                diags.append(json.loads(line))
                continue
            except Exception:
                pass
        if line:
            other.append(line)
    r = dict(rc=rc, results=results, diags=diags, stderr_other=other[-40:], wall=wall, cmd=" ".join(cmd), cached=False)
    json.dump(r, open(cp, "w"))
    return r


def classify(msg):
    for pat, k in KINDS:
        if pat in msg:
            return k
    return None


def item_for_offset(report, off):
    for it in report["items"]:
        a, b = it.get("gen_span", (0, 0))
        if a <= off < b:
            return it
    return None


def enclosing_fn_name(gen_text, off):
    """name of the innermost `fn` textually preceding off (for prelude / hand-written lemma failures)"""
    best = None
    for m in re.finditer(r"\bfn\s+([A-Za-z_0-9]+)", gen_text[:off]):
        best = m.group(1)
    return best or "?"


def run_unit(unit, repo, workdir, canary=True):
    """unit: template basename without .rs.  Returns a result dict:
       status: ok | fail | error ; failures: [..] ; functions: [...]; counts; trusted; rules; time"""
    tpl = os.path.join(VERIF, "contracts", "verus", unit + ".rs")
    res = dict(unit=unit, backend="verus", status="error", failures=[], functions=[], verified=0, errors=0, smt_ms=0,
               trusted=[], rules={}, notes=[], wall=0.0, cached=False, canary="not run", edits=[])
    t0 = time.time()
    gen_path = os.path.join(workdir, unit + "_gen.rs")
    try:
        gen_text, report = vgen.generate(tpl, repo, gen_path)
    except LostAnchor as e:
        res["notes"].append(f"LOST-ANCHOR: {e}")
        res["status"] = "error"
        return res
    res["trusted"] = sorted(set(report["trusted"]))
    hdr = re.search(r"^//@unit\s+(\S+)(.*)$", open(tpl).read(), re.M)
    opts = dict(kvp.split("=", 1) for kvp in (hdr.group(2).split() if hdr else []) if "=" in kvp)
    for it in report["items"]:
        for k, v in it.get("rules", {}).items():
            res["rules"][k] = res["rules"].get(k, 0) + v
        if it["kind"] in ("fn", "fragment"):
            res["functions"].append(dict(file=it["file"], fn=it["name"], impl=it.get("impl"), line=it["src_line"], kind=it["kind"],
                                         props=it.get("props", ""), gen_name=it.get("gen_name"), requires=it.get("requires", "")))
            for e in it.get("edits", []):
                if e["rule"] in ("R1", "R2", "R4", "R6", "R7", "R9", "R10", "REWRITE") and e["note"]:
                    res["edits"].append(f"{it['file']}:{e['src_line']} {e['rule']}: {e['note']}"[:300])
    r = run_verus_file(gen_path)
    res["cached"] = r["cached"]
    res["cmd"] = r["cmd"]
    vr = (r["results"] or {}).get("verification-results")
    if not vr:
        res["notes"].append("verus produced no verification results: " + " | ".join(
            d.get("message", "") for d in r["diags"] if d.get("level") == "error")[:1500] + " ".join(r["stderr_other"][-5:]))
        res["wall"] = time.time() - t0
        return res
    res["verified"] = vr.get("verified", 0)
    res["errors"] = vr.get("errors", 0)
    try:
        res["smt_ms"] = r["results"]["times-ms"]["smt"]["smt-run"]
        fb = []
        for mt in r["results"]["times-ms"]["smt"]["smt-run-module-times"]:
            for f in mt.get("function-breakdown", []):
                fb.append(dict(function=f["function"].split("::", 1)[-1], ms=f["time"], ok=f["success"], rlimit=f.get("rlimit")))
        res["per_function"] = fb
    except Exception:
        res["per_function"] = []
    # ---- failures
    tool_errors = []
    for dgn in r["diags"]:
        if dgn.get("level") != "error":
            continue
        msg = dgn.get("message", "")
        if msg.startswith("aborting due to"):
            continue
        kind = classify(msg)
        spans = [s for s in dgn.get("spans", []) if s.get("is_primary")] or dgn.get("spans", [])
        if kind is None or not spans:
            tool_errors.append(msg[:300])
            continue
        sp = spans[0]
        off = sp["byte_start"]
        expr = gen_text.encode()[sp["byte_start"]:sp["byte_end"]].decode(errors="replace")
        # byte offsets == char offsets only for ASCII; the generated files are ASCII apart from comments
        it = item_for_offset(report, len(gen_text.encode()[:off].decode(errors="replace")))
        if it is not None:
            fn = it.get("gen_name") or it["name"]
            sfile, sline = vgen.map_offset(report, repo, len(gen_text.encode()[:off].decode(errors="replace")))
            props = it.get("props", "")
            where = f"{sfile or it['file']}:{sline or it['src_line']}"
        else:
            fn = enclosing_fn_name(gen_text, off)
            props = ""
            where = f"{unit}.rs(template):{sp['line_start']}"
        # for failed postconditions/preconditions the secondary span says where (exit / call site)
        sec = [s for s in dgn.get("spans", []) if not s.get("is_primary")]
        at = ""
        if sec:
            at = gen_text.encode()[sec[0]["byte_start"]:sec[0]["byte_end"]].decode(errors="replace")
        key = f"{unit}::{fn}::{kind}::{norm(expr)[:160]}"
        res["failures"].append(dict(key=key, kind=kind, fn=fn, expr=norm(expr)[:300], where=where, props=props, message=msg,
                                    at=norm(at)[:200], rendered=dgn.get("rendered", "")[:3000]))
    if tool_errors:
        res["notes"].append("verus errors that are not proof obligations: " + " | ".join(tool_errors)[:2000])
        if any(any(x in t for x in RESOURCE) for t in tool_errors):
            res["notes"].append("RESOURCE-LIMIT")
        res["status"] = "error"
        res["wall"] = time.time() - t0
        return res
    minv = int(opts.get("min_verified", "1"))
    if res["verified"] + res["errors"] < minv:
        res["notes"].append(f"VACUOUS: only {res['verified']}+{res['errors']} functions reached the solver, expected >= {minv}")
        res["wall"] = time.time() - t0
        return res
    res["status"] = "fail" if res["failures"] else "ok"
    if res["errors"] and not res["failures"]:
        res["status"] = "error"
        res["notes"].append("verus reports errors but no diagnostics were parsed")
    # ---- canary: every contracted function must FAIL an injected assert(false)
    if canary:
        cpath = os.path.join(workdir, unit + "_canary.rs")
        ctext, crep = vgen.generate(tpl, repo, cpath, canary=True)
        cr = run_verus_file(cpath)
        want = [it for it in crep["items"] if it["kind"] in ("fn", "fragment") and it.get("canary", True)]
        hit = set()
        for dgn in cr["diags"]:
            if dgn.get("level") == "error" and "assertion failed" in dgn.get("message", ""):
                for sp in dgn.get("spans", []):
                    off = len(ctext.encode()[:sp["byte_start"]].decode(errors="replace"))
                    it = item_for_offset(crep, off)
                    if it is not None and ctext.encode()[sp["byte_start"]:sp["byte_end"]].decode(errors="replace").strip() == "false":
                        hit.add(tuple(it["gen_span"]))
        missing = [it.get("gen_name") or it["name"] for it in want if tuple(it["gen_span"]) not in hit]
        res["canary"] = f"{len(hit)}/{len(want)} injected assert(false) fail as they must"
        if missing:
            res["notes"].append("VACUOUS: assert(false) after the preconditions was NOT refuted in: " + ", ".join(missing))
            res["status"] = "error"
        res["cached"] = res["cached"] and cr["cached"]
    res["wall"] = time.time() - t0
    return res


if __name__ == "__main__":
    unit = sys.argv[1]
    repo = sys.argv[2] if len(sys.argv) > 2 else "/repo"
    wd = tempfile.mkdtemp(prefix="vrun_")
    r = run_unit(unit, repo, wd)
    r.pop("per_function", None)
    for f in r["failures"]:
        f.pop("rendered", None)
    print(json.dumps(r, indent=1))
    import shutil
    shutil.rmtree(wd, ignore_errors=True)

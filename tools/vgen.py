#!/usr/bin/env python3
"""vgen — generate one Verus file from a unit template + /repo's current working tree.

A unit template (contracts/verus/<unit>.rs) is ordinary Verus text (prelude: spec functions, assumed
contracts of dependencies, lemmas) in which `/*@<kind> key=val ... \n <contract text> @*/` blocks are
replaced by items copied *verbatim* from /repo, with the contract text spliced in and the rewrite
rules of DESIGN.md section 2.1 applied.  Every edit is logged (rule, source text, replacement).

kinds:
  /*@fn file=<path> [impl="<impl header>"] [mod=<name>] name=<fn> [as=<new name>] [subst="A=>B;C=>D"]
        [ret=<name>|none] [props=C12,C13]
     <requires/ensures/decreases text>
     @loop <ordinal>
        <invariant/decreases text, placed between the loop header and its body>
     @before "<statement text>" [nth=k]
        <ghost text inserted before the k-th occurrence of that token sequence in the body>
     @after "<statement text>" [nth=k]
     @closure <ordinal> "<typed header>"           (R7)
        <ensures text>
  @*/
  /*@type file=<path> name=<T> [subst=..] [derive="Clone, Copy"] @*/
  /*@const file=<path> name=<N> [impl=..] @*/
  /*@fragment file=<path> [impl=..] fn=<fn> from="<anchor>" to="<anchor>" name=<new fn> sig="<params -> ret>" [subst=..]
     <contract text>  @*/                                                                       (R6)
"""
import json
import os
import re
import shlex
import sys

sys.path.insert(0, os.path.dirname(__file__))
from rsx import Src, LostAnchor, tokenize, match_close, norm  # noqa: E402

LOG_MACROS = ("trace", "debug", "info", "warn", "error")


class Edits:
    def __init__(self):
        self.items = []

    def add(self, start, end, text, rule, note=""):
        self.items.append((start, end, text, rule, note))

    def apply(self, src_text, lo, hi):
        """apply to src_text[lo:hi]; returns (text, segments) where segments maps generated offsets
        (relative to returned text) of verbatim pieces to source offsets."""
        items = sorted(self.items, key=lambda e: (e[0], e[1]))
        out, segs = [], []
        pos, glen = lo, 0
        for (s, e, t, rule, note) in items:
            if s < pos and e <= pos:
                continue  # edit lies inside a region an earlier edit already replaced
            if s < pos:
                raise ValueError(f"overlapping edits at {s} ({rule})")
            piece = src_text[pos:s]
            segs.append((glen, glen + len(piece), pos))
            out.append(piece)
            glen += len(piece)
            out.append(t)
            glen += len(t)
            pos = e
        piece = src_text[pos:hi]
        segs.append((glen, glen + len(piece), pos))
        out.append(piece)
        return "".join(out), segs


def open_src(repo, f):
    import glob as _g
    if f.startswith("~"):
        f = os.path.expanduser(f)
    if f.startswith("/"):
        c = sorted(_g.glob(f))
        if not c:
            raise LostAnchor("no such file: " + f)
        return Src(c[0])
    return Src(os.path.join(repo, f))


def parse_subst(s):
    out = []
    if not s:
        return out
    for part in s.split("@@"):
        part = part.strip()
        if not part:
            continue
        a, b = part.split("=>")
        a = a.strip()
        if a.startswith("(opt)"):
            # optional substitution: it need not match (used where the ABSENCE of the call is itself decided by a contract,
            # e.g. a dropped wake_sender() then fails the precondition of the await stand-in)
            a = a[len("(opt)"):]
            OPTIONAL_SUBST.add(tuple(t.text for t in tokenize(a)))
        out.append(([t.text for t in tokenize(a)], b.strip()))
    return out


OPTIONAL_SUBST = set()


def split_args(src, lo, hi):
    """split toks[lo:hi] at top-level commas; returns list of (first_idx, last_idx_exclusive)"""
    toks = src.toks
    args, depth, start = [], 0, lo
    i = lo
    while i < hi:
        t = toks[i]
        if t.kind == "punct":
            if t.text in "([{":
                depth += 1
            elif t.text in ")]}":
                depth -= 1
            elif t.text == "," and depth == 0:
                args.append((start, i))
                start = i + 1
        i += 1
    if start < hi:
        args.append((start, hi))
    return args


ARITH = set("+-*/%")


def has_arith(src, lo, hi):
    toks = src.toks
    for i in range(lo, hi):
        t = toks[i]
        if t.kind != "punct":
            continue
        if t.text == "[":
            # `x[..]` (the full range) cannot go out of bounds: not an index obligation; neither is a `{=[u8]}`-style format
            # type inside a string (strings are single tokens and never reach here)
            if i + 3 < hi and toks[i + 1].text == "." and toks[i + 2].text == "." and toks[i + 3].text == "]":
                continue
            return True
        if t.text in ARITH:
            if t.text == "-" and i + 1 < hi and toks[i + 1].text == ">" and toks[i + 1].start == t.end:
                continue
            if t.text in "*-":
                # unary deref / negation: at start or after an operator / opening bracket / comma
                if i == lo or (toks[i - 1].kind == "punct" and toks[i - 1].text not in ")]"):
                    if t.text == "*":
                        continue
            return True
        if t.text in "<>" and i + 1 < hi and toks[i + 1].text == t.text and toks[i + 1].start == t.end:
            return True
    return False


def has_call(src, lo, hi):
    return any(src.toks[i].text == "(" for i in range(lo, hi))


def body_rewrites(src, lo, hi, edits, subst, stats, opts):
    """rules R1, R2, R5 and user substitutions on toks[lo:hi]"""
    toks, text = src.toks, src.text
    i = lo
    while i < hi:
        t = toks[i]
        # ---- fmt::<macro>!( ... )
        is_fmt = (t.kind == "ident" and t.text == "fmt" and i + 4 < hi and toks[i + 1].text == ":" and toks[i + 2].text == ":"
                  and toks[i + 3].kind == "ident" and toks[i + 4].text == "!")
        bare = (t.kind == "ident" and t.text in ("debug_assert", "debug_assert_eq", "debug_assert_ne", "assert", "assert_eq",
                                                  "assert_ne", "unreachable", "panic", "todo", "unimplemented")
                and i + 1 < hi and toks[i + 1].text == "!" and (i == lo or toks[i - 1].text != ":"))
        # ---- R20: `let [a, b, c] = EXPR;` (irrefutable array pattern of plain identifiers; Verus has no slice patterns) ->
        #      `let __arrK = EXPR; let a = __arrK[0]; let b = __arrK[1]; ..` - what the pattern binds, by definition
        if t.kind == "ident" and t.text == "let" and i + 1 < hi and toks[i + 1].text == "[":
            j = i + 2
            names = []
            okp = True
            while j < hi and toks[j].text != "]":
                if toks[j].kind == "ident" and toks[j + 1].text in (",", "]"):
                    names.append(toks[j].text)
                    j += 1
                    if toks[j].text == ",":
                        j += 1
                else:
                    okp = False
                    break
            if okp and names and j + 1 < hi and toks[j + 1].text == "=":
                # end of the statement: the `;` at depth 0
                dpt = 0
                e = j + 2
                while e < hi:
                    x = toks[e].text
                    if x in "([{":
                        dpt += 1
                    elif x in ")]}":
                        dpt -= 1
                    elif x == ";" and dpt == 0:
                        break
                    e += 1
                if e < hi:
                    k = stats.get("R20", 0)
                    arr = f"__arr{k}"
                    edits.add(toks[i + 1].start, toks[j].end, arr, "R20", "array pattern let => indexed lets")
                    edits.add(toks[e].end, toks[e].end, " " + " ".join(f"let {n} = {arr}[{q}];" for q, n in enumerate(names)), "R20", "")
                    stats["R20"] = k + 1
        # ---- R17: `unsafe { .. }` block -> plain block (Verus has no unsafe blocks); the safety condition of what is called
        #      inside must then be carried as a `requires` by the callee's contract, i.e. it becomes a proof obligation
        if t.kind == "ident" and t.text == "unsafe" and i + 1 < hi and toks[i + 1].text == "{":
            edits.add(t.start, toks[i + 1].start, "", "R17", "unsafe block marker dropped (safety condition = callee precondition)")
            stats["R17"] = stats.get("R17", 0) + 1
            i += 1
            continue
        if is_fmt or bare:
            mac = toks[i + 3].text if is_fmt else t.text
            op = i + 5 if is_fmt else i + 2
            if toks[op].text not in "([{":
                i += 1
                continue
            cl = match_close(toks, op)
            args = split_args(src, op + 1, cl)
            end_tok = cl
            if mac in LOG_MACROS:
                semi = cl + 1 < hi and toks[cl + 1].text == ";"
                if semi:
                    end_tok = cl + 1
                keep = []
                dropped_calls = []
                for (a, b) in args[1:]:
                    if has_arith(src, a, b):
                        keep.append(text[toks[a].start:toks[b - 1].end])
                    elif has_call(src, a, b):
                        dropped_calls.append(norm(text[toks[a].start:toks[b - 1].end]))
                rep = "".join(f"let _ = ({k}); " for k in keep)
                if not semi:
                    rep = "{ " + rep + "}"
                # attributes on the macro statement (`#[cfg(feature = "defmt")] fmt::error!(..)`) go with it: left behind they
                # would attach to - and could compile away - the NEXT statement
                a0 = src.attrs_before(i, lo)
                attr_note = ""
                if a0 < i:
                    if keep:
                        raise LostAnchor(f"{src.path}:{src.line_of(t.start)}: attribute on a log macro whose arguments must be kept")
                    attr_note = "; attributes removed with it: " + norm(text[toks[a0].start:t.start])
                edits.add(toks[a0].start, toks[end_tok].end, rep, "R1",
                          f"log macro {mac}! removed; re-emitted args: {keep}; call args assumed panic-free: {dropped_calls}{attr_note}")
                stats["R1"] = stats.get("R1", 0) + 1
                # nested rewrites inside kept args are not applied (kept verbatim)
                i = end_tok + 1
                continue
            if mac in ("unwrap", "unwrap_opt"):
                (a, b) = args[0]
                inner_lo, inner_hi = toks[a].start, toks[b - 1].end
                edits.add(t.start, inner_lo, "(", "R2", f"fmt::{mac}! -> .unwrap()")
                edits.add(inner_hi, toks[cl].end, ").unwrap()", "R2", "")
                stats["R2"] = stats.get("R2", 0) + 1
                # continue scanning inside the argument
                body_rewrites(src, a, b, edits, subst, stats, opts)
                i = cl + 1
                continue
            if mac in ("debug_assert", "assert"):
                (a, b) = args[0]
                cond = text[toks[a].start:toks[b - 1].end]
                edits.add(t.start, toks[cl].end, f"let _ = {{ let __a: bool = ({cond}); assert(__a); }}", "R2",
                          f"{mac}! -> static assertion")
                stats["R2"] = stats.get("R2", 0) + 1
                i = cl + 1
                continue
            if mac in ("debug_assert_eq", "assert_eq", "debug_assert_ne", "assert_ne"):
                (a, b) = args[0]
                (c, d) = args[1]
                x = text[toks[a].start:toks[b - 1].end]
                y = text[toks[c].start:toks[d - 1].end]
                opx = "==" if mac.endswith("_eq") else "!="
                edits.add(t.start, toks[cl].end, f"let _ = {{ let __a: bool = ({x}) {opx} ({y}); assert(__a); }}", "R2",
                          f"{mac}! -> static assertion")
                stats["R2"] = stats.get("R2", 0) + 1
                i = cl + 1
                continue
            if mac in ("unreachable", "panic", "todo", "unimplemented"):
                edits.add(t.start, toks[cl].end, "vpanic()", "R2", f"{mac}! -> vpanic() (requires false)")
                stats["R2"] = stats.get("R2", 0) + 1
                i = cl + 1
                continue
            i += 1
            continue
        # ---- R5 crate::a::b::T -> T   (also `super::`)
        if t.kind == "ident" and t.text in ("crate", "super") and i + 2 < hi and toks[i + 1].text == ":" and toks[i + 2].text == ":" \
                and (i == lo or toks[i - 1].text != ":"):
            j = i
            # consume lowercase module segments
            while j + 3 < hi and toks[j + 1].text == ":" and toks[j + 2].text == ":" and toks[j + 3].kind == "ident" and \
                    (toks[j].text in ("crate", "super") or (toks[j].text[0].islower() and toks[j].text not in opts.get("keep_mods", ()))):
                j += 3
                if not toks[j].text[0].islower():
                    break
                # stop when next is not `::`
                if not (j + 2 < hi and toks[j + 1].text == ":" and toks[j + 2].text == ":"):
                    break
            if j > i:
                edits.add(t.start, toks[j].start, "", "R5", "path flattened")
                stats["R5"] = stats.get("R5", 0) + 1
                i = j
                continue
        # ---- user substitutions (token sequences)
        done = False
        for (pat, rep) in subst:
            n = len(pat)
            if i + n <= hi and all(toks[i + k].text == pat[k] for k in range(n)):
                # don't match in the middle of a path (preceded by `::`) unless pattern starts with ::
                edits.add(t.start, toks[i + n - 1].end, rep, "SUBST", " ".join(pat) + " => " + rep)
                stats["SUBST"] = stats.get("SUBST", 0) + 1
                stats.setdefault("__subst_used", set()).add(tuple(pat))
                i += n
                done = True
                break
        if done:
            continue
        i += 1



def rewrite_loop_values(src, lo, hi, edits, stats, types=None):
    """R9: `loop { .. break V; .. }` used as a value  =>  `{ let __brkK; loop { .. { __brkK = V; break; } .. } __brkK }`"""
    toks = src.toks
    loops = src.loops_in(lo, hi)
    k = 0
    for L in loops:
        if L["kind"] != "loop":
            continue
        bo, bc = L["body_open"], L["body_close"]
        # nested loops' bodies are skipped when looking for this loop's breaks
        nested = [(n["body_open"], n["body_close"]) for n in loops if n["body_open"] > bo and n["body_close"] < bc]
        brks = []
        i = bo + 1
        while i < bc:
            skip = [n for n in nested if n[0] == i]
            if skip:
                i = skip[0][1] + 1
                continue
            t = toks[i]
            if t.kind == "ident" and t.text == "break" and toks[i + 1].text not in (";", "}", ",") and toks[i + 1].kind != "lifetime":
                # value: up to `;` / `,` at depth 0 or an unmatched closer
                j = i + 1
                d = 0
                while j < bc:
                    x = toks[j]
                    if x.text in "([{":
                        d += 1
                    elif x.text in ")]}":
                        if d == 0:
                            break
                        d -= 1
                    elif x.text in (";", ",") and d == 0:
                        break
                    j += 1
                brks.append((i, j))
                i = j
                continue
            i += 1
        if not brks:
            continue
        name = f"__brk{k}"
        k += 1
        kw = toks[L["kw"]]
        ty = (types or {}).get(name)
        edits.add(kw.start, kw.start, "{ let " + name + (": " + ty if ty else "") + "; ", "R9", "loop value: deferred-initialised local")
        for (a, b) in brks:
            val_lo, val_hi = toks[a + 1].start, toks[b - 1].end
            edits.add(toks[a].start, val_lo, "{ " + name + " = ", "R9", "break <value>")
            semi = toks[b].text == ";"
            edits.add(val_hi, toks[b].end if semi else val_hi, "; break; }", "R9", "")
        edits.add(toks[bc].end, toks[bc].end, " " + name + " }", "R9", "")
        stats["R9"] = stats.get("R9", 0) + 1


def rewrite_timeouts(src, lo, hi, edits, stats):
    """R18: timeout scopes made explicit so that the verifier sees what bounds a polling loop.
         async { BODY }.timeout(T).await   =>   { __dl.enter(T); let __sv = { BODY }; __dl.exit(); __sv }
         CALL.timeout(T).await             =>   __dl.scoped(T, CALL.await)
         X.await   (every other await)     =>   X.await.__chk(&mut __dl)?
       `__dl` is the function's one TimeoutScope (declared at function entry by the template, initially inactive).
       `__chk` models the deadline test TimeoutFuture::poll makes whenever the task is resumed: inside an active scope it
       either fails with Error::Timeout or lets strictly less time remain (assumption A-TIME-1: an await that suspends takes
       positive time); outside a scope it does nothing.  A `?` inside BODY leaves the scope by returning from the function:
       that equals the async block's own early exit only where the scope's value is returned / `?`-propagated unchanged, so
       any other continuation is rejected (exit 2).  Nested scopes are rejected."""
    toks = src.toks
    i = lo
    scopes = []
    handled_awaits = set()
    while i < hi:
        t = toks[i]
        if t.kind == "ident" and t.text == "timeout" and toks[i - 1].text == "." and toks[i + 1].text == "(":
            ac = match_close(toks, i + 1)
            if not (toks[ac + 1].text == "." and toks[ac + 2].text == "await"):
                raise LostAnchor(f"{src.path}:{src.line_of(t.start)}: R18: .timeout(..) not directly awaited")
            await_tok = ac + 2
            arg = src.text[toks[i + 2].start:toks[ac - 1].end]
            recv_end = i - 2      # token before the `.`
            if toks[recv_end].text == "}":
                # async block form: find matching `{` and the `async` before it
                d = 0
                j = recv_end
                while j >= lo:
                    if toks[j].text == "}":
                        d += 1
                    elif toks[j].text == "{":
                        d -= 1
                        if d == 0:
                            break
                    j -= 1
                if j < lo + 1 or toks[j - 1].text != "async":
                    raise LostAnchor(f"{src.path}:{src.line_of(t.start)}: R18: .timeout(..) on a block that is not `async {{..}}`")
                # allowed continuations: tail / `?` / `.inspect_err(closure)?`
                nxt = toks[await_tok + 1].text
                ok = nxt in ("?", "}", ";")
                if nxt == "." and toks[await_tok + 2].text == "inspect_err":
                    cl = match_close(toks, await_tok + 3)
                    ok = toks[cl + 1].text == "?"
                if not ok:
                    raise LostAnchor(f"{src.path}:{src.line_of(t.start)}: R18: value of a timeout scope used other than by return/`?`")
                for (a, b) in scopes:
                    if a < j < b or j < a < recv_end:
                        raise LostAnchor(f"{src.path}:{src.line_of(t.start)}: R18: nested timeout scopes")
                scopes.append((j, recv_end))
                edits.add(toks[j - 1].start, toks[j].end, "({ __dl.enter(" + arg + "); let __sv = {", "R18", "timeout scope made explicit (enter)")
                edits.add(toks[recv_end].end, toks[await_tok].end, "; __dl.exit(); __sv })", "R18", "timeout scope made explicit (exit)")
            else:
                # single awaited call under a timeout: find the start of the postfix chain (walk back over `.ident(..)`, `?`, paths)
                j = recv_end
                while True:
                    if toks[j].text == ")" :
                        d = 0
                        while True:
                            if toks[j].text == ")":
                                d += 1
                            elif toks[j].text == "(":
                                d -= 1
                                if d == 0:
                                    break
                            j -= 1
                        j -= 1          # ident before `(`
                        continue_chain = True
                    elif toks[j].kind == "ident" or toks[j].text == "self":
                        continue_chain = True
                    else:
                        raise LostAnchor(f"{src.path}:{src.line_of(t.start)}: R18: unsupported receiver of .timeout(..)")
                    if toks[j - 1].text == "." or (toks[j - 1].text == ":" and toks[j - 2].text == ":"):
                        j -= 2 if toks[j - 1].text == "." else 3
                        continue
                    break
                edits.add(toks[j].start, toks[j].start, "__dl.scoped(" + arg + ", ", "R18", "single await under a timeout")
                edits.add(toks[recv_end].end, toks[await_tok].end, ".await)", "R18", "")
            handled_awaits.add(await_tok)
            stats["R18"] = stats.get("R18", 0) + 1
            i = await_tok + 1
            continue
        i += 1
    for i in range(lo, hi):
        t = toks[i]
        if t.kind == "ident" and t.text == "await" and toks[i - 1].text == "." and i not in handled_awaits:
            edits.add(t.end, t.end, ".__chk(&mut __dl)?", "R18", "deadline test after an await")
            stats["R18"] = stats.get("R18", 0) + 1


def chain_start(src, j, lo):
    """token index where the postfix/path expression ending at token j starts (idents, `self`, literals, `.`/`::` chains,
    call/index/paren groups); raises LostAnchor on anything else"""
    toks = src.toks
    while True:
        t = toks[j]
        if t.text in (")", "]"):
            op = "(" if t.text == ")" else "["
            d = 0
            while True:
                if toks[j].text == t.text:
                    d += 1
                elif toks[j].text == op:
                    d -= 1
                    if d == 0:
                        break
                j -= 1
            # a call / index: the callee is in front of the group
            if toks[j - 1].kind == "ident" or toks[j - 1].text in (")", "]", ">"):
                if toks[j - 1].text == ">":
                    raise LostAnchor(f"{src.path}:{src.line_of(t.start)}: unsupported expression shape (turbofish) in front of a cast/timeout")
                j -= 1
                continue
            return j
        if t.kind in ("ident", "number", "int", "literal") or t.text == "self" or t.text[:1].isdigit():
            if j - 1 >= lo and toks[j - 1].text == ".":
                j -= 2
                continue
            if j - 2 >= lo and toks[j - 1].text == ":" and toks[j - 2].text == ":":
                j -= 3
                continue
            return j
        raise LostAnchor(f"{src.path}:{src.line_of(t.start)}: unsupported expression shape in front of a cast/timeout")


def auto_try(src, lo, hi, edits, stats):
    """R16 at every site (`try_all=1`): each `<operand>?` on a Result in toks[lo:hi] that is not inside a closure is replaced by
    the desugaring of `?` from the Rust reference.  Sites whose operand shape the generator does not parse are left as they are
    (the built-in `?` stays - sound, the prover only knows less about the error value)."""
    toks = src.toks
    inside = [(c[2], c[3]) for c in find_closures(src, lo, hi)]
    for i in range(lo, hi):
        if toks[i].text != "?" or any(a <= i <= b for a, b in inside):
            continue
        try:
            a = chain_start(src, i - 1, lo)
        except LostAnchor:
            continue
        # an operand that itself contains a `?` (a?.b()?): only the inner one is rewritten
        if any(toks[q].text == "?" for q in range(a, i)):
            continue
        edits.add(toks[a].start, toks[a].start, "(match ", "R16", "`?` desugared")
        edits.add(toks[i].start, toks[i].end, " { Ok(__v) => __v, Err(__e) => return Err(From::from(__e)) })", "R16", "")
        stats["R16"] = stats.get("R16", 0) + 1


def rewrite_casts(src, lo, hi, edits, stats):
    """R19: `EXPR as <integer type>` -> `(#[verifier::truncate] (EXPR as <integer type>))`.  Rust defines every integer `as`
    cast (truncation / two's complement reinterpretation); Verus leaves an out-of-range cast unspecified unless it carries this
    marker.  The marker changes nothing in the code."""
    toks = src.toks
    ints = ("u8", "u16", "u32", "u64", "u128", "usize", "i8", "i16", "i32", "i64", "i128", "isize")
    for i in range(lo, hi):
        t = toks[i]
        if t.kind == "ident" and t.text == "as" and toks[i + 1].text in ints and toks[i - 1].text not in ("::", "use"):
            a = chain_start(src, i - 1, lo)
            edits.add(toks[a].start, toks[a].start, "(#[verifier::truncate] (", "R19", "integer cast marked truncating")
            edits.add(toks[i + 1].end, toks[i + 1].end, "))", "R19", "")
            stats["R19"] = stats.get("R19", 0) + 1


def rewrite_for_loops(src, lo, hi, edits, stats, incl_as_iter=False, name_wild=False, range_as_while=False):
    """R4: `for PAT in EXPR { BODY }` over a non-range iterator =>
           `{ let mut __itK = EXPR; loop <spec> { match __itK.next() { Some(PAT) => { BODY } None => break, } } }`
       (the language definition of `for`).  Must be called AFTER the loop specs have been spliced so that they end up
       between `loop` and the new body."""
    toks = src.toks
    k = 0
    nloop = 0          # ordinal among ALL loops of the function (the numbering of @loop)
    for L in src.loops_in(lo, hi):
        if L["kind"] != "for":
            nloop += 1
            continue
        kw, bo, bc = L["kw"], L["body_open"], L["body_close"]
        # find `in` at depth 0
        d = 0
        j = kw + 1
        pos_in = None
        while j < bo:
            x = toks[j]
            if x.text in "([{":
                d += 1
            elif x.text in ")]}":
                d -= 1
            elif x.kind == "ident" and x.text == "in" and d == 0:
                pos_in = j
                break
            j += 1
        if pos_in is None:
            continue
        # range?  `a..b` at depth 0 in EXPR
        is_range = False
        d = 0
        for j in range(pos_in + 1, bo - 0):
            x = toks[j]
            if x.text in "([{":
                d += 1
            elif x.text in ")]}":
                d -= 1
            elif x.text == "." and d == 0 and toks[j + 1].text == "." and toks[j + 1].start == x.end:
                is_range = True
                dots = j
                is_incl = toks[j + 2].text == "=" and toks[j + 2].start == toks[j + 1].end
                # `a..=b`: Verus' for-loop support covers half-open ranges; an inclusive range is treated as the iterator it is
                # (R4 applies; the template instantiates it with a stand-in, R8) when the directive asks for it
                if incl_as_iter and toks[j + 2].text == "=" and toks[j + 2].start == toks[j + 1].end:
                    is_range = False
                    break
        if is_range and range_as_while and not is_incl:
            # R4c: `for PAT in A..B { BODY }` => `{ let mut __cK = A; let __eK = B; while __cK < __eK <spec> { let PAT = __cK;
            # __cK = __cK + 1; BODY } }` - the definition of iterating a half-open integer range (Range::next yields `start` and
            # advances it while start < end).  Used where the body contains `continue`, which Verus' own for-loop support rejects.
            pat = src.text[toks[kw + 1].start:toks[pos_in - 1].end]
            c, e = f"__c{nloop}", f"__e{nloop}"
            edits.add(toks[kw].start, toks[pos_in].end, "{ let mut " + c + " =", "R4c", f"for {pat} in a..b => while")
            edits.add(toks[dots].start, toks[dots + 1].end, "; let " + e + " =", "R4c", "")
            edits.add(toks[bo - 1].end, toks[bo - 1].end, "; while " + c + " < " + e + " ", "R4c", "")
            edits.add(toks[bo].end, toks[bo].end, " let " + pat + " = " + c + "; " + c + " = " + c + " + 1; ", "R4c", "")
            edits.add(toks[bc].end, toks[bc].end, " }", "R4c", "")
            stats["R4c"] = stats.get("R4c", 0) + 1
            nloop += 1
            continue
        if is_range:
            # R4b: `for _ in a..b` -> `for __i<ordinal> in a..b` (the unnamed counter gets a name the loop invariant can speak
            # about; the body cannot refer to it, so nothing else changes)
            if name_wild and pos_in == kw + 2 and toks[kw + 1].text == "_":
                edits.add(toks[kw + 1].start, toks[kw + 1].end, f"__i{nloop}", "R4b", "for _ in range => named counter")
                stats["R4b"] = stats.get("R4b", 0) + 1
            nloop += 1
            continue
        nloop += 1
        pat = src.text[toks[kw + 1].start:toks[pos_in - 1].end]
        name = f"__it{k}"
        k += 1
        edits.add(toks[kw].start, toks[pos_in].end, "{ let mut " + name + " =", "R4", f"for {pat} in .. => loop/match next()")
        edits.add(toks[bo - 1].end, toks[bo - 1].end, "; loop ", "R4", "")
        edits.add(toks[bo].start, toks[bo].start, "{ match " + name + ".next() { Some(" + pat + ") => ", "R4", "")
        edits.add(toks[bc].end, toks[bc].end, " None => break, } } }", "R4", "")
        stats["R4"] = stats.get("R4", 0) + 1


def check_subst_used(d, subst, stats, what):
    """every substitution a directive asks for must apply at least once: a substitution that no longer matches means the
    source has changed under the contract (the generated text would silently keep the unsubstituted form) -> lost anchor"""
    used = stats.pop("__subst_used", set())
    for (pat, rep) in subst:
        if tuple(pat) not in used and tuple(pat) not in OPTIONAL_SUBST:
            raise LostAnchor(f"{d.get('file')}::{what}: substitution `{' '.join(pat)}` did not match anything")


def parse_block(body):
    """split directive body into main spec and sub-directives"""
    main, subs = [], []
    cur = None
    for line in body.split("\n"):
        s = line.strip()
        if s.startswith("@entry") or s.startswith("@after_loop") or s.startswith("@loop_end") or s.startswith("@loop_start") or s.startswith("@loop") or s.startswith("@before") or s.startswith("@after") or s.startswith("@closure") \
                or s.startswith("@rewrite") or s.startswith("@hoist") or s.startswith("@try"):
            parts = shlex.split(s)
            cur = dict(kind=parts[0][1:], args=parts[1:], text=[])
            subs.append(cur)
        elif cur is None:
            main.append(line)
        else:
            cur["text"].append(line)
    return "\n".join(main), subs


def kv(parts):
    d = {}
    for p in parts:
        if "=" in p:
            k, v = p.split("=", 1)
            d[k] = v
    return d


def name_return(src, f, edits, retname):
    """R11: `-> T` => `-> (r: T)`"""
    toks = src.toks
    depth = 0
    i = f["fn"]
    arrow = None
    while i < f["body_open"]:
        t = toks[i]
        if t.text in "([":
            depth += 1
        elif t.text in ")]":
            depth -= 1
        elif depth == 0 and t.text == "-" and toks[i + 1].text == ">" and toks[i + 1].start == t.end:
            arrow = i
            break
        i += 1
    if arrow is None:
        return
    j = arrow + 2
    end = f["body_open"]
    k = j
    d = 0
    while k < f["body_open"]:
        if toks[k].text in "([<":
            d += 1
        elif toks[k].text in ")]>":
            d -= 1
        if toks[k].kind == "ident" and toks[k].text == "where" and d == 0:
            end = k
            break
        k += 1
    edits.add(toks[j].start, toks[j].start, f"({retname}: ", "R11", "named return value")
    edits.add(toks[end - 1].end, toks[end - 1].end, ")", "R11", "")


def spec_requires(spec):
    """the `requires` clauses of a contract block as one normalised string (entry preconditions: assumed of the callers)"""
    m = re.search(r"\brequires\b(.*?)(?=\bensures\b|\bdecreases\b|$)", spec, flags=re.S)
    if not m:
        return ""
    t = re.sub(r"//[^\n]*", "", m.group(1))
    return " ".join(t.split()).rstrip(",")[:600]


def gen_fn(repo, d, body, report):
    src = open_src(repo, d["file"])
    scope = None
    if "impl" in d:
        impls = src.find_impl(d["impl"])
        f = None
        for sc in impls:
            try:
                f = src.find_fn(d["name"], sc)
                scope = sc
                break
            except LostAnchor:
                continue
        if f is None:
            raise LostAnchor(f"{d['file']}: fn {d['name']} not found in `{d['impl']}`")
    elif "mod" in d:
        scope = src.find_mod(d["mod"])
        f = src.find_fn(d["name"], scope)
    else:
        f = src.find_fn(d["name"])
    toks = src.toks
    spec, subs = parse_block(body)
    edits = Edits()
    stats = {}
    subst = parse_subst(d.get("subst", ""))
    opts = {}
    # visibility -> pub (R5): drop `pub(...)`
    s = f["start"]
    if toks[s].text == "pub" and toks[s + 1].text == "(":
        cl = match_close(toks, s + 1)
        edits.add(toks[s + 1].start, toks[cl].end, "", "R5", "visibility")
    if d.get("noconst") == "1":
        # R21: `const fn` -> `fn` (the `vpanic()` that R2 puts in place of unreachable!/panic! is not a const fn; the body is unchanged)
        for q in range(f["start"], f["fn"]):
            if toks[q].kind == "ident" and toks[q].text == "const":
                edits.add(toks[q].start, toks[q].end, "", "R21", "const qualifier dropped")
                stats["R21"] = stats.get("R21", 0) + 1
    if d.get("make_async") == "1":
        # R22: `fn f(..) -> impl Future<Output = T> { g(..) }` (manual monomorphisation: the body is one call of an async fn whose
        # future is handed on) -> `async fn f(..) -> T { g(..).await }`; the `-> T` and `.await` parts are `subst=` entries of the
        # directive, this inserts the qualifier.  Same observable behaviour for every caller that awaits the result at once.
        edits.add(toks[f["fn"]].start, toks[f["fn"]].start, "async ", "R22", "fn returning impl Future => async fn")
        last = toks[f["body_close"] - 1]
        if last.text == ";":
            raise LostAnchor(f"{d['file']}::{d['name']}: make_async expects a body ending in a tail expression (the future handed on)")
        edits.add(last.end, last.end, ".await", "R22", "tail future awaited")
        stats["R22"] = stats.get("R22", 0) + 1
    if d.get("as"):
        nt = toks[f["fn"] + 1]
        edits.add(nt.start, nt.end, d["as"], "RENAME", f"{d['name']} -> {d['as']}")
    if d.get("ret", "r") != "none":
        name_return(src, f, edits, d.get("ret", "r"))
    # signature substitutions
    body_rewrites(src, f["fn"] + 2, f["body_open"], edits, subst, stats, opts)
    # spec
    bo = toks[f["body_open"]]
    if spec.strip():
        edits.add(bo.start, bo.start, "\n" + spec.rstrip() + "\n", "SPEC", "contract")
    if d.get("__canary") and d.get("canary", "1") != "0":
        edits.add(bo.end, bo.end, " proof { assert(false); } ", "SPEC", "canary")
    for sub in subs:
        if sub["kind"] == "entry":
            edits.add(bo.end, bo.end, "\n" + "\n".join(sub["text"]).rstrip() + "\n", "GHOST", "entry ghost")
    # R12: `mut` parameters -> shadowing `let mut p = p;` (Verus does not accept mutation of a by-value parameter)
    po = f["fn"] + 2
    while toks[po].text != "(":
        if toks[po].text == "<":
            dd = 0
            while True:
                if toks[po].text == "<":
                    dd += 1
                elif toks[po].text == ">" and toks[po - 1].text != "-":
                    dd -= 1
                    if dd == 0:
                        break
                po += 1
        po += 1
    pc = match_close(toks, po)
    for (a, b) in split_args(src, po + 1, pc):
        if toks[a].text == "mut" and toks[a + 1].kind == "ident" and toks[a + 2].text == ":":
            nm = toks[a + 1].text
            edits.add(toks[a].start, toks[a + 1].start, "", "R12", f"mut parameter {nm} -> shadowing let")
            edits.add(bo.end, bo.end, f" let mut {nm} = {nm}; ", "R12", "")
            stats["R12"] = stats.get("R12", 0) + 1
        elif toks[a].text == "mut" and toks[a + 1].text == "self" and b == a + 2:
            # R12b: `mut self` receiver -> `self` + `let mut __self = self;`, every `self` in the body renamed (Verus does not
            # accept `mut self`; the contract keeps speaking about `self`, the value the function was entered with)
            edits.add(toks[a].start, toks[a + 1].start, "", "R12", "mut self -> let mut __self = self")
            edits.add(bo.end, bo.end, " let mut __self = self; ", "R12", "")
            for q in range(f["body_open"] + 1, f["body_close"]):
                if toks[q].kind == "ident" and toks[q].text == "self":
                    edits.add(toks[q].start, toks[q].end, "__self", "R12", "")
            stats["R12"] = stats.get("R12", 0) + 1
    # body
    body_rewrites(src, f["body_open"] + 1, f["body_close"], edits, subst, stats, opts)
    rewrite_loop_values(src, f["body_open"] + 1, f["body_close"], edits, stats, {k: v for k, v in d.items() if k.startswith("__brk")})
    if d.get("truncate_casts") == "1":
        rewrite_casts(src, f["body_open"] + 1, f["body_close"], edits, stats)
    if d.get("timeouts") == "1":
        rewrite_timeouts(src, f["body_open"] + 1, f["body_close"], edits, stats)
        edits.add(bo.end, bo.end, " let mut __dl = TimeoutScope::none(); ", "R18", "the function's timeout scope object")
    loops = src.loops_in(f["body_open"] + 1, f["body_close"])
    n_loop_specs = 0
    for sub in subs:
        text = "\n".join(sub["text"]).rstrip()
        if sub["kind"] in ("loop_end", "loop_start"):
            # ghost text at the structural end / start of loop k's body (no statement anchor needed)
            k = int(sub["args"][0])
            if k >= len(loops):
                raise LostAnchor(f"{d['file']}::{d['name']}: loop ordinal {k} not found ({len(loops)} loops)")
            if sub["kind"] == "loop_end":
                lc = toks[loops[k]["body_close"]]
                edits.add(lc.start, lc.start, "\n" + text + "\n", "GHOST", f"loop {k} end")
            else:
                lo_ = toks[loops[k]["body_open"]]
                edits.add(lo_.end, lo_.end, "\n" + text + "\n", "GHOST", f"loop {k} start")
        elif sub["kind"] == "loop":
            k = int(sub["args"][0])
            if k >= len(loops):
                raise LostAnchor(f"{d['file']}::{d['name']}: loop ordinal {k} not found ({len(loops)} loops)")
            lb = toks[loops[k]["body_open"]]
            edits.add(lb.start, lb.start, "\n" + text + "\n", "SPEC", f"loop {k} invariant")
            n_loop_specs += 1
        elif sub["kind"] in ("before", "after"):
            o = kv(sub["args"][1:])
            a, b = src.find_seq(f["body_open"] + 1, f["body_close"], sub["args"][0], int(o.get("nth", 1)))
            if sub["kind"] == "before":
                edits.add(toks[a].start, toks[a].start, text + "\n", "GHOST", "proof hint")
            else:
                edits.add(toks[b].end, toks[b].end, "\n" + text + "\n", "GHOST", "proof hint")
        elif sub["kind"] == "closure":
            k = int(sub["args"][0])
            hdr = sub["args"][1]
            cls = find_closures(src, f["body_open"] + 1, f["body_close"])
            o = kv(sub["args"][2:])
            __sel = select_closure(src, cls, k, o.get("of"), f"{d['file']}::{d['name']}")
            if __sel is None:
                stats["R7-skipped"] = stats.get("R7-skipped", 0) + 1
                continue
            (p0, p1, b0, b1) = __sel
            bind = ""
            if o.get("bind"):
                # R7b: tuple pattern parameter -> typed variable + destructuring let (same semantics)
                bind = f"let {o['bind']} = __p; "
            edits.add(toks[p0].start, toks[p1].end, hdr + "\n" + text + "\n{ " + bind, "R7", "closure header")
            edits.add(toks[b1].end, toks[b1].end, " }", "R7", "")
            stats["R7"] = stats.get("R7", 0) + 1
        elif sub["kind"] == "try":
            # R16: `<operand>?` -> `match <operand> { Ok(v) => v, Err(e) => return Err(From::from(e)) }` - the desugaring of `?`
            # on a Result given in the Rust reference (Verus forgets the error VALUE across the built-in `?` when a From
            # conversion is involved).  The anchor is the operand text followed by `?`; on an Option operand the result
            # does not type-check (exit 2), it can never verify by accident.
            o = kv(sub["args"][1:])
            a, b = src.find_seq(f["body_open"] + 1, f["body_close"], sub["args"][0], int(o.get("nth", 1)))
            if toks[b].text != "?":
                raise LostAnchor(f"{d['file']}::{d['name']}: @try anchor must end in `?`")
            edits.add(toks[a].start, toks[a].start, "(match ", "R16", f"`?` desugared: {sub['args'][0]}")
            edits.add(toks[b].start, toks[b].end, " { Ok(__v) => __v, Err(__e) => return Err(From::from(__e)) })", "R16", "")
            stats["R16"] = stats.get("R16", 0) + 1
        elif sub["kind"] == "hoist":
            # R15: a type declared inside the function body is lifted out of it (the template extracts the same
            # declaration at module level with `/*@type ... deep=1 @*/`); nothing else of the body changes
            ty = src.find_type(sub["args"][0], (f["body_open"], f["body_close"]), deep=True)
            edits.add(toks[ty["attrs"]].start, toks[ty["end"]].end, "", "R15", f"nested type {sub['args'][0]} hoisted to module level")
            stats["R15"] = stats.get("R15", 0) + 1
        elif sub["kind"] == "rewrite":
            # explicit, logged, non-verbatim edit: @rewrite "<from>" "<to>" rule=<Rxx> [nth=k]
            o = kv(sub["args"][2:])
            a, b = src.find_seq(f["fn"], f["body_close"], sub["args"][0], int(o.get("nth", 1)))
            edits.add(toks[a].start, toks[b].end, sub["args"][1], o.get("rule", "REWRITE"),
                      f"`{sub['args'][0]}` => `{sub['args'][1]}`")
            stats[o.get("rule", "REWRITE")] = stats.get(o.get("rule", "REWRITE"), 0) + 1
    rewrite_for_loops(src, f["body_open"] + 1, f["body_close"], edits, stats, d.get("incl_ranges") == "1", d.get("for_names") == "1", d.get("range_as_while") == "1")
    if d.get("try_all") == "1":
        auto_try(src, f["body_open"] + 1, f["body_close"], edits, stats)
    for sub in subs:
        if sub["kind"] == "after_loop":
            # ghost text directly after loop k as a whole (structural anchor; added after R4 so that it follows the closers R4 appends)
            k = int(sub["args"][0])
            if k >= len(loops):
                raise LostAnchor(f"{d['file']}::{d['name']}: loop ordinal {k} not found ({len(loops)} loops)")
            lc = toks[loops[k]["body_close"]]
            edits.add(lc.end, lc.end, "\n" + "\n".join(sub["text"]).rstrip() + "\n", "GHOST", f"after loop {k}")
    check_subst_used(d, subst, stats, d["name"])
    lo_off, hi_off = toks[f["start"]].start, toks[f["body_close"]].end
    if d.get("attr"):
        edits.add(lo_off, lo_off, d["attr"] + "\n", "SPEC", "verifier attribute")
    text, segs = edits.apply(src.text, lo_off, hi_off)
    report["items"].append(dict(kind="fn", file=d["file"], name=d["name"], impl=d.get("impl"), gen_name=d.get("as", d["name"]),
                                src_line=src.line_of(lo_off), src_end_line=src.line_of(hi_off), loops=len(loops),
                                loop_specs=n_loop_specs, rules=stats, props=d.get("props", ""), canary=d.get("canary", "1") != "0",
                                requires=spec_requires(spec),
                                edits=[dict(rule=e[3], note=e[4], src_line=src.line_of(e[0]), src=src.text[e[0]:e[1]][:200])
                                       for e in edits.items if e[3] not in ("SPEC", "GHOST", "R11")]))
    return text, segs, src


def find_closures(src, lo, hi):
    """closures `|args| body` in toks[lo:hi], in source order. returns (pipe_open, pipe_close, body_first, body_last)"""
    toks = src.toks
    out = []
    i = lo
    while i < hi:
        t = toks[i]
        if t.text == "|" and (toks[i - 1].kind == "punct" and toks[i - 1].text in "(,=" or toks[i - 1].text in ("move", "return")):
            # parameters up to the next `|`
            if toks[i + 1].text == "|" and toks[i + 1].start == t.end:
                j = i + 1
            else:
                j = i + 1
                d = 0
                while not (toks[j].text == "|" and d == 0):
                    if toks[j].text in "([<":
                        d += 1
                    elif toks[j].text in ")]>":
                        d -= 1
                    j += 1
            # body: a block or an expression up to `,` / `)` at depth 0
            b0 = j + 1
            if toks[b0].text == "{":
                b1 = match_close(toks, b0)
            else:
                k = b0
                d = 0
                while True:
                    x = toks[k]
                    if x.text in "([{":
                        d += 1
                    elif x.text in ")]}":
                        if d == 0:
                            break
                        d -= 1
                    elif x.text == "," and d == 0:
                        break
                    k += 1
                b1 = k - 1
            out.append((i, j, b0, b1))
            i = j + 1
            continue
        i += 1
    return out


def select_closure(src, cls, k, of, what):
    """k-th closure; with `of=<name>` the k-th closure that is an argument of a call of `<name>(` - closures added elsewhere
    (a new `.filter(|x| ..)` in front) then do not shift the ordinal"""
    toks = src.toks
    if of:
        sel = []
        for c in cls:
            j = c[0] - 1
            # walk back over earlier arguments to the opening `(` of the call
            d = 0
            while j >= 0:
                if toks[j].text in ")]}":
                    d += 1
                elif toks[j].text in "([{":
                    if d == 0:
                        break
                    d -= 1
                j -= 1
            if j >= 1 and toks[j].text == "(" and toks[j - 1].text == of:
                sel.append(c)
        cls = sel
    if k >= len(cls):
        if of:
            # the call that took this closure is gone: there is nothing left to give a header to (if the closure lives on under
            # another callee the generated text fails to type-check - exit 2 - it cannot verify by accident)
            return None
        raise LostAnchor(f"{what}: closure ordinal {k} not found")
    return cls[k]


def gen_type(repo, d, body, report):
    src = open_src(repo, d["file"])
    scope = src.find_mod(d["mod"]) if "mod" in d else None
    ty = src.find_type(d["name"], scope, deep=d.get("deep") == "1")
    toks = src.toks
    edits = Edits()
    stats = {}
    # R3: strip attributes on the item, on fields and variants
    lo, hi = ty["attrs"], ty["end"]
    i = lo
    derive = d.get("derive", "")
    while i <= hi:
        t = toks[i]
        if t.text == "#" and toks[i + 1].text == "[":
            cl = match_close(toks, i + 1)
            if toks[i + 2].text == "repr":
                i = cl + 1
                continue
            edits.add(t.start, toks[cl].end, "", "R3", "attribute removed: " + norm(src.text[t.start:toks[cl].end])[:120])
            stats["R3"] = stats.get("R3", 0) + 1
            i = cl + 1
            continue
        i += 1
    s = ty["start"]
    if toks[s].text == "pub" and toks[s + 1].text == "(":
        cl = match_close(toks, s + 1)
        edits.add(toks[s + 1].start, toks[cl].end, "", "R5", "visibility")
    elif toks[s].text != "pub":
        edits.add(toks[s].start, toks[s].start, "pub ", "R5", "visibility")
    # field visibilities pub(crate) -> pub
    for i in range(ty["kw"], hi):
        if toks[i].text == "pub" and toks[i + 1].text == "(" and i > s:
            cl = match_close(toks, i + 1)
            edits.add(toks[i + 1].start, toks[cl].end, "", "R5", "visibility")
    # private named fields -> pub (R5), so that `pub open spec fn`s may mention them
    if toks[ty["kw"]].text == "struct" and toks[hi].text == "}":
        ob = src.next_open_brace(ty["kw"])
        k = ob + 1
        field_start = True
        depth = 0
        while k < hi:
            x = toks[k]
            if x.text == "#" and toks[k + 1].text == "[":
                k = match_close(toks, k + 1) + 1
                continue
            if field_start and x.kind == "ident" and x.text != "pub" and toks[k + 1].text == ":":
                edits.add(x.start, x.start, "pub ", "R5", "field visibility")
            if field_start and x.kind == "ident":
                field_start = False
            if x.text in "([{<":
                depth += 1
            elif x.text in ")]}>":
                if not (x.text == ">" and toks[k - 1].text == "-"):
                    depth -= 1
            elif x.text == "," and depth == 0:
                field_start = True
            k += 1
    subst = parse_subst(d.get("subst", ""))
    body_rewrites(src, ty["kw"] + 2, hi, edits, subst, stats, {})
    check_subst_used(d, subst, stats, d["name"])
    lo_off, hi_off = toks[lo].start, toks[hi].end
    text, segs = edits.apply(src.text, lo_off, hi_off)
    # drop doc comments
    text = re.sub(r"^\s*///.*$", "", text, flags=re.M)
    text = re.sub(r"\n\s*\n+", "\n", text)
    pre = ""
    if derive:
        pre = f"#[derive({derive})]\n"
    if body.strip():
        pre = body.rstrip() + "\n" + pre
    report["items"].append(dict(kind="type", file=d["file"], name=d["name"], src_line=src.line_of(lo_off), rules=stats))
    return pre + text, [], src


def gen_const(repo, d, body, report):
    src = open_src(repo, d["file"])
    scope = None
    if "impl" in d:
        for sc in src.find_impl(d["impl"]):
            try:
                c = src.find_const(d["name"], sc)
                scope = sc
                break
            except LostAnchor:
                continue
        else:
            raise LostAnchor(f"const {d['name']} not found")
    else:
        c = src.find_const(d["name"])
    toks = src.toks
    edits = Edits()
    stats = {}
    s = c["start"]
    if toks[s].text == "pub" and toks[s + 1].text == "(":
        cl = match_close(toks, s + 1)
        edits.add(toks[s + 1].start, toks[cl].end, "", "R5", "visibility")
    body_rewrites(src, c["kw"] + 2, c["end"], edits, parse_subst(d.get("subst", "")), stats, {})
    check_subst_used(d, parse_subst(d.get("subst", "")), stats, d["name"])
    text, segs = edits.apply(src.text, toks[s].start, toks[c["end"]].end)
    report["items"].append(dict(kind="const", file=d["file"], name=d["name"], src_line=src.line_of(toks[s].start)))
    return text, segs, src


def gen_fragment(repo, d, body, report):
    """R6: contiguous statement range of a long fn becomes the body of a synthesised fn"""
    src = open_src(repo, d["file"])
    if "impl" in d:
        f = None
        for sc in src.find_impl(d["impl"]):
            try:
                f = src.find_fn(d["fn"], sc)
                break
            except LostAnchor:
                continue
        if f is None:
            raise LostAnchor(f"fn {d['fn']} not found")
    else:
        f = src.find_fn(d["fn"])
    toks = src.toks
    if d["from"] == "@start":
        a0 = f["body_open"] + 1          # structural anchor: the first statement of the function body
    else:
        a0, _ = src.find_seq(f["body_open"] + 1, f["body_close"], d["from"], int(d.get("from_nth", 1)))
    if d["to"].startswith("@stmt_end"):
        want_n = int(d["to"].split()[1]) if len(d["to"].split()) > 1 else 1
        # structural anchor: the `;` that ends the statement the fragment starts with (the `from` text is then only the
        # statement's head, e.g. `let start_time =`, and the expression behind it may change freely)
        dpt = 0
        b1 = None
        for q in range(a0, f["body_close"]):
            x = toks[q].text
            if x in "([{":
                dpt += 1
            elif x in ")]}":
                dpt -= 1
                if dpt < 0:
                    break
            elif x == ";" and dpt == 0:
                want_n -= 1
                if want_n == 0:
                    b1 = q
                    break
        if b1 is None:
            raise LostAnchor(f"fragment {d['name']}: no statement end after the start anchor")
    elif d["to"].startswith("@loop_body_end"):
        # structural anchor: the last statement of the body of loop <k> of the function (ordinal among all its loops)
        k = int(d["to"].split()[1])
        fl = src.loops_in(f["body_open"] + 1, f["body_close"])
        if k >= len(fl) or not (fl[k]["body_open"] < a0 < fl[k]["body_close"]):
            raise LostAnchor(f"fragment {d['name']}: loop {k} of {d['fn']} does not enclose the fragment start")
        b1 = fl[k]["body_close"] - 1
    else:
        _, b1 = src.find_seq(a0, f["body_close"], d["to"], int(d.get("to_nth", 1)))
    spec, subs = parse_block(body)
    edits = Edits()
    stats = {}
    body_rewrites(src, a0, b1 + 1, edits, parse_subst(d.get("subst", "")), stats, {})
    check_subst_used(d, parse_subst(d.get("subst", "")), stats, d["name"])
    rewrite_loop_values(src, a0, b1 + 1, edits, stats, {k: v for k, v in d.items() if k.startswith("__brk")})
    loops = src.loops_in(a0, b1 + 1)
    if "loops" in d and len([L for L in loops if not any(M["body_open"] < L["body_open"] and L["body_close"] < M["body_close"] for M in loops)]) != int(d["loops"]):
        raise LostAnchor(f"fragment {d['name']}: expected {d['loops']} top-level loop(s) in the range, found a different structure")
    for sub in subs:
        text = "\n".join(sub["text"]).rstrip()
        if sub["kind"] == "loop":
            k = int(sub["args"][0])
            if k >= len(loops):
                raise LostAnchor(f"fragment {d['name']}: loop {k} not found")
            lb = toks[loops[k]["body_open"]]
            edits.add(lb.start, lb.start, "\n" + text + "\n", "SPEC", f"loop {k}")
        elif sub["kind"] in ("loop_end", "loop_start"):
            k = int(sub["args"][0])
            if k >= len(loops):
                raise LostAnchor(f"fragment {d['name']}: loop {k} not found")
            if sub["kind"] == "loop_end":
                lc = toks[loops[k]["body_close"]]
                edits.add(lc.start, lc.start, "\n" + text + "\n", "GHOST", f"loop {k} end")
            else:
                lo_ = toks[loops[k]["body_open"]]
                edits.add(lo_.end, lo_.end, "\n" + text + "\n", "GHOST", f"loop {k} start")
        elif sub["kind"] == "try":
            o = kv(sub["args"][1:])
            a, b = src.find_seq(a0, b1 + 1, sub["args"][0], int(o.get("nth", 1)))
            if toks[b].text != "?":
                raise LostAnchor(f"fragment {d['name']}: @try anchor must end in `?`")
            edits.add(toks[a].start, toks[a].start, "(match ", "R16", f"`?` desugared: {sub['args'][0]}")
            edits.add(toks[b].start, toks[b].end, " { Ok(__v) => __v, Err(__e) => return Err(From::from(__e)) })", "R16", "")
            stats["R16"] = stats.get("R16", 0) + 1
        elif sub["kind"] in ("before", "after"):
            o = kv(sub["args"][1:])
            a, b = src.find_seq(a0, b1 + 1, sub["args"][0], int(o.get("nth", 1)))
            if sub["kind"] == "before":
                edits.add(toks[a].start, toks[a].start, text + "\n", "GHOST", "")
            else:
                edits.add(toks[b].end, toks[b].end, "\n" + text + "\n", "GHOST", "")
        elif sub["kind"] == "closure":
            k = int(sub["args"][0])
            hdr = sub["args"][1]
            cls = find_closures(src, a0, b1 + 1)
            o = kv(sub["args"][2:])
            __sel = select_closure(src, cls, k, o.get("of"), f"fragment {d['name']}")
            if __sel is None:
                stats["R7-skipped"] = stats.get("R7-skipped", 0) + 1
                continue
            (p0, p1, c0, c1) = __sel
            bind = f"let {o['bind']} = __p; " if o.get("bind") else ""
            edits.add(toks[p0].start, toks[p1].end, hdr + "\n" + text + "\n{ " + bind, "R7", "closure header")
            edits.add(toks[c1].end, toks[c1].end, " }", "R7", "")
            stats["R7"] = stats.get("R7", 0) + 1
        elif sub["kind"] == "hoist":
            # R15 in a fragment: the type declared inside the statement range is lifted out (extracted at module level by the
            # template with `/*@type ... deep=1 @*/`); an empty marker-trait impl for it (`impl Tr for Ty {}`) goes with it
            ty = src.find_type(sub["args"][0], (a0, b1 + 1), deep=True)
            edits.add(toks[ty["attrs"]].start, toks[ty["end"]].end, "", "R15", f"nested type {sub['args'][0]} hoisted to module level")
            stats["R15"] = stats.get("R15", 0) + 1
            for q in range(a0, b1 - 4):
                if (toks[q].text == "impl" and toks[q + 2].text == "for" and toks[q + 3].text == sub["args"][0]
                        and toks[q + 4].text == "{" and toks[q + 5].text == "}"):
                    edits.add(toks[q].start, toks[q + 5].end, "", "R15", f"marker impl `{toks[q + 1].text}` of the hoisted type dropped")
        elif sub["kind"] == "rewrite":
            o = kv(sub["args"][2:])
            a, b = src.find_seq(a0, b1 + 1, sub["args"][0], int(o.get("nth", 1)))
            edits.add(toks[a].start, toks[b].end, sub["args"][1], o.get("rule", "REWRITE"),
                      f"`{sub['args'][0]}` => `{sub['args'][1]}`")
    rewrite_for_loops(src, a0, b1 + 1, edits, stats, d.get("incl_ranges") == "1", d.get("for_names") == "1", d.get("range_as_while") == "1")
    if d.get("try_all") == "1":
        auto_try(src, a0, b1 + 1, edits, stats)
    entry_text = ""
    for sub in subs:
        if sub["kind"] == "after_loop":
            k = int(sub["args"][0])
            if k >= len(loops):
                raise LostAnchor(f"fragment {d['name']}: loop {k} not found")
            lc = toks[loops[k]["body_close"]]
            edits.add(lc.end, lc.end, "\n" + "\n".join(sub["text"]).rstrip() + "\n", "GHOST", f"after loop {k}")
        elif sub["kind"] == "entry":
            entry_text += "\n".join(sub["text"]).rstrip() + "\n"
    lo_off, hi_off = toks[a0].start, toks[b1].end
    text, segs = edits.apply(src.text, lo_off, hi_off)
    head = (d["attr"] + "\n" if d.get("attr") else "") + f"{d.get('qual', '')} fn {d['name']}{d.get('generics', '')}({d['sig'].split('->')[0].strip()})"
    if "->" in d["sig"]:
        head += " -> " + d["sig"].split("->", 1)[1].strip()
    head += "\n" + spec.rstrip() + "\n{\n"
    if d.get("__canary") and d.get("canary", "1") != "0":
        head += " proof { assert(false); }\n"
    head += entry_text
    tail = "\n" + d.get("tail", "") + "\n}\n"
    segs = [(a + len(head), b + len(head), c) for (a, b, c) in segs]
    stats["R6"] = 1
    report["items"].append(dict(kind="fragment", file=d["file"], name=d["fn"], gen_name=d["name"], src_line=src.line_of(lo_off),
                                src_end_line=src.line_of(hi_off), rules=stats, props=d.get("props", ""), loops=len(loops),
                                requires=spec_requires(spec),
                                edits=[dict(rule=e[3], note=e[4], src_line=src.line_of(e[0]), src=src.text[e[0]:e[1]][:200])
                                       for e in edits.items if e[3] not in ("SPEC", "GHOST")]))
    return head + text + tail, segs, src


DIRECTIVE = re.compile(r"/\*@(fn|type|const|fragment)\b(.*?)@\*/", re.S)


def generate(template_path, repo, out_path, canary=False):
    tpl = open(template_path).read()
    base = os.path.dirname(os.path.abspath(template_path))
    incdir = os.path.join(os.path.dirname(os.path.abspath(__file__)), "..", "contracts", "verus")
    for _ in range(4):
        def inc(m):
            for b in (base, incdir):
                q = os.path.join(b, m.group(1))
                if os.path.exists(q):
                    return open(q).read()
            raise LostAnchor("include not found: " + m.group(1))
        tpl2 = re.sub(r"^//@include\s+(\S+)\s*$", inc, tpl, flags=re.M)
        if tpl2 == tpl:
            break
        tpl = tpl2
    report = dict(unit=os.path.basename(template_path), items=[], trusted=[], alternatives={})
    # ---- alternatives: directives carrying `alt=<name>` describe ONE of several code structures the contract is written for
    #      (e.g. two separate loops / one merged loop).  An alternative is used iff all of its directives find their anchors;
    #      at least one alternative of a unit must apply, otherwise the anchors are lost (exit 2).
    gens = dict(fn=gen_fn, type=gen_type, const=gen_const, fragment=gen_fragment)
    alt_ok = {}
    for m in DIRECTIVE.finditer(tpl):
        header, _, body = m.group(2).partition("\n")
        d = kv(shlex.split(header))
        if "alt" in d:
            try:
                gens[m.group(1)](repo, dict(d), body, dict(items=[], trusted=[]))
                alt_ok.setdefault(d["alt"], True)
            except LostAnchor as e:
                alt_ok[d["alt"]] = False
                report["alternatives"].setdefault(d["alt"], []).append(str(e))
    if alt_ok and not any(alt_ok.values()):
        raise LostAnchor("no alternative structure of this unit matches: " + json.dumps(report["alternatives"]))
    for k, v in alt_ok.items():
        report["alternatives"][k] = "used" if v else dict(skipped=report["alternatives"].get(k))
    out = []
    linemap = []  # (gen_off_start, gen_off_end, src_file, src_off)
    pos = 0
    glen = 0
    for m in DIRECTIVE.finditer(tpl):
        pre = tpl[pos:m.start()]
        out.append(pre)
        glen += len(pre)
        kind = m.group(1)
        rest = m.group(2)
        header, _, body = rest.partition("\n")
        d = kv(shlex.split(header))
        if canary:
            d["__canary"] = "1"
        if "alt" in d and not alt_ok[d["alt"]]:
            note = f"// (alternative `{d['alt']}` does not match the current source structure: skipped)\n"
            out.append(note)
            glen += len(note)
            pos = m.end()
            continue
        if kind == "fn":
            text, segs, src = gen_fn(repo, d, body, report)
        elif kind == "type":
            text, segs, src = gen_type(repo, d, body, report)
        elif kind == "const":
            text, segs, src = gen_const(repo, d, body, report)
        else:
            text, segs, src = gen_fragment(repo, d, body, report)
        for (a, b, so) in segs:
            linemap.append((glen + a, glen + b, d["file"], so))
        report["items"][-1]["gen_span"] = (glen, glen + len(text))
        out.append(text)
        glen += len(text)
        pos = m.end()
    out.append(tpl[pos:])
    gen = "".join(out)
    # R23: a module-level `const NAME` of the SAME source file that an extracted function / fragment names and the unit does not
    # define is copied along (a refactor that gives a literal a name must not turn the unit into a compile error)
    extra = []
    have = set(re.findall(r"\b(?:const|static)\s+([A-Z][A-Z0-9_]+)\b", gen))
    for it in report["items"]:
        if it.get("kind") not in ("fn", "fragment") or "gen_span" not in it:
            continue
        a, b = it["gen_span"]
        names = set()
        for mm in re.finditer(r"(?<![\w])([A-Z][A-Z0-9_]{2,})\b(?!\s*::)", gen[a:b]):
            pre = gen[max(a, a + mm.start() - 2):a + mm.start()]
            if pre.endswith("::") or (pre.endswith(".") and not pre.endswith("..")):
                continue
            names.add(mm.group(1))
        for name in sorted(names):
            if name in have:
                continue
            try:
                text, _segs, _src = gen_const(repo, dict(file=it["file"], name=name), "", dict(items=[], trusted=[]))
            except (LostAnchor, KeyError, IndexError):
                continue
            have.add(name)
            extra.append(f"// (R23: const {name} copied from {it['file']} because an extracted function names it)\npub {text.lstrip()}" if not text.lstrip().startswith("pub") else f"// (R23: const {name} copied from {it['file']})\n{text}")
            report.setdefault("auto_consts", []).append(f"{it['file']}::{name}")
    # R23b: the same for an ASSOCIATED const of the source file named as `Self::NAME` (a magic number given a name inside the impl):
    # copied as a module-level const, and `Self::NAME` in the extracted text becomes `      NAME` (same length: offsets are preserved)
    for it in report["items"]:
        if it.get("kind") not in ("fn", "fragment") or "gen_span" not in it:
            continue
        a, b = it["gen_span"]
        for mm in list(re.finditer(r"\bSelf::([A-Z][A-Z0-9_]{2,})\b(?!\s*(?:::|\())", gen[a:b])):
            name = mm.group(1)
            if name not in have:
                try:
                    ftxt = open(os.path.join(repo, it["file"])).read()
                except OSError:
                    continue
                cm = re.search(r"\bconst\s+" + name + r"\s*:\s*([^=;]+?)\s*=\s*([^;]+);", ftxt)
                if not cm:
                    continue
                have.add(name)
                extra.append(f"// (R23b: associated const {name} copied from {it['file']}; `Self::{name}` reads it)\npub const {name}: {cm.group(1)} = {cm.group(2)};")
                report.setdefault("auto_consts", []).append(f"{it['file']}::Self::{name}")
            if f"{it['file']}::Self::{name}" in report.get("auto_consts", []):
                gen = gen[:a + mm.start()] + "      " + name + gen[a + mm.end():]
    if extra:
        k = gen.rfind("} // verus!")
        if k >= 0:
            gen = gen[:k] + "\n".join(extra) + "\n" + gen[k:]
    with open(out_path, "w") as fh:
        fh.write(gen)
    # trusted-base scan
    for pat in ("external_body", "assume_specification", "assume(", "admit(", "external_type_specification", "external_fn_specification",
                "uninterp"):
        for mm in re.finditer(re.escape(pat), gen):
            line = gen.count("\n", 0, mm.start()) + 1
            # find the item name following
            tail = gen[mm.start():mm.start() + 400]
            nm = re.search(r"(fn|struct|enum)\s+([A-Za-z_0-9:<>]+)", tail)
            report["trusted"].append(f"{pat.rstrip('(')}: {nm.group(2) if nm else '?'} (gen line {line})")
    report["linemap"] = linemap
    report["gen_path"] = out_path
    return gen, report


def map_offset(report, repo, off):
    for (a, b, f, so) in report["linemap"]:
        if a <= off < b:
            import glob as _g
            fp = os.path.expanduser(f)
            fp = sorted(_g.glob(fp))[0] if fp.startswith("/") else os.path.join(repo, f)
            text = open(fp).read()
            s = so + (off - a)
            return f, text.count("\n", 0, s) + 1
    return None, None


if __name__ == "__main__":
    tpl, repo, out = sys.argv[1:4]
    try:
        _, rep = generate(tpl, repo, out)
    except LostAnchor as e:
        print("LOST-ANCHOR:", e)
        sys.exit(2)
    rep.pop("linemap")
    print(json.dumps(rep, indent=1))

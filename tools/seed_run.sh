#!/bin/bash
# seed_run.sh <seed dir> <prop> [prop...] : apply the seeded change to /repo, run the registered quick checks, undo it
SEED=$1; shift
cd /repo && git status --short | grep -v '^??' | head -3
git -C /repo apply $SEED/patch.diff || { echo "PATCH DOES NOT APPLY"; exit 2; }
for P in "$@"; do
  echo "=== ./check $P on seeded tree ($(basename $SEED))"
  (cd /verif && VERIF_NO_CEX=${VERIF_NO_CEX:-1} ./check $P 2>&1 | grep -E "failed obligation|VIOLATION|KNOWN|UNDECIDED|obligations discharged" | cut -c1-260 | head -12)
done
git -C /repo checkout -- .
git -C /repo status --short | grep -v '^??' | head -3

#!/usr/bin/env python3
"""krun — Kani route: copy /repo to a scratch directory, inject harness child-modules (cfg(kani)) and
contract attributes, run cargo kani per harness, classify, extract counterexamples, replay them.

A harness group is one file contracts/kani/<group>.rs:

    //@kani host=src/subdevice/ports.rs             <- module file that gets `#[cfg(kani)] mod verif_kani_<group>;`
    //@contract file=src/x.rs [impl="impl Foo"] fn=bar     <- (optional) attribute lines injected above the real fn
    //@  #[cfg_attr(kani, kani::requires(...))]
    //@h name=<harness fn> props=C17 [bounded="N=3 devices"] [tier=thorough] [obligation="<text>"]
    #[kani::proof] fn <harness>() {...}

Nothing in the copied sources is deleted or rewritten: lines are only added.
"""
import fcntl
import hashlib
import json
import os
import re
import shlex
import shutil
import subprocess
import sys
import time

sys.path.insert(0, os.path.dirname(__file__))
from rsx import Src, LostAnchor  # noqa: E402

VERIF = os.path.abspath(os.path.join(os.path.dirname(__file__), ".."))
KDIR = os.path.join(VERIF, "contracts", "kani")
SCRATCH_ROOT = os.environ.get("VERIF_KANI_SCRATCH", "/tmp/verif_kani")
TARGET = os.path.join(VERIF, ".cache", "kani", "target")
RESULT_CACHE = os.path.join(VERIF, ".cache", "kani", "results")


def parse_group(path):
    text = open(path).read()
    g = dict(name=os.path.basename(path)[:-3], path=path, host=None, harnesses=[], contracts=[], text=text)
    lines = text.split("\n")
    i = 0
    while i < len(lines):
        ln = lines[i].strip()
        if ln.startswith("//@kani"):
            kvs = dict(p.split("=", 1) for p in shlex.split(ln[7:]) if "=" in p)
            g["host"] = kvs.get("host")
            g["crate"] = kvs.get("crate", ".")
        elif ln.startswith("//@contract"):
            kvs = dict(p.split("=", 1) for p in shlex.split(ln[11:]) if "=" in p)
            attrs = []
            i += 1
            while i < len(lines) and lines[i].strip().startswith("//@ "):
                attrs.append(lines[i].strip()[4:])
                i += 1
            kvs["attrs"] = attrs
            g["contracts"].append(kvs)
            continue
        elif ln.startswith("//@h "):
            kvs = dict(p.split("=", 1) for p in shlex.split(ln[5:]) if "=" in p)
            g["harnesses"].append(kvs)
        i += 1
    return g


def all_groups(repo=None, gen_dir=None):
    out = {}
    if os.path.isdir(KDIR):
        for f in sorted(os.listdir(KDIR)):
            if f.endswith(".rs") and not f.startswith("_"):
                g = parse_group(os.path.join(KDIR, f))
                out[g["name"]] = g
    if repo and gen_dir:
        import gen_wire_harness
        paths, notes, n = gen_wire_harness.generate(repo, gen_dir)
        for pth in paths:
            g = parse_group(pth)
            g["generated"] = True
            out[g["name"]] = g
        out["__wire_notes"] = dict(notes=notes, n_types=n, names=[os.path.basename(x)[:-3] for x in paths])
    return out


def tree_hash(root):
    h = hashlib.sha256()
    for dp, dn, fn in os.walk(root):
        dn[:] = sorted(d for d in dn if d not in ("target", ".git"))
        for f in sorted(fn):
            p = os.path.join(dp, f)
            if f.endswith((".rs", ".toml", ".lock")):
                h.update(p[len(root):].encode())
                h.update(open(p, "rb").read())
    return h.hexdigest()


def refresh_dependency_builds(scratch, target=None):
    """The scratch tree is re-created by rsync with the ORIGINAL modification times, while cargo decides freshness of the
    path dependencies (ethercrab-wire, ethercrab-wire-derive: separate crates, not touched by the harness injection) by
    comparing source mtimes with its build outputs.  After a run against a tree in which one of those crates was changed
    (a seeded change, a fix), the next run against other sources would silently reuse the stale build - e.g. a stale derive
    macro.  A stamp of the dependency sources is kept next to the build outputs; when it differs, every source file of those
    crates is touched so that cargo rebuilds them."""
    h = hashlib.sha256()
    files = []
    for sub in ("ethercrab-wire", "ethercrab-wire-derive"):
        root = os.path.join(scratch, sub)
        for dp, dn, fn in os.walk(root):
            dn[:] = sorted(d for d in dn if d not in ("target", ".git"))
            for f in sorted(fn):
                if f.endswith((".rs", ".toml")):
                    p = os.path.join(dp, f)
                    files.append(p)
                    h.update(p[len(scratch):].encode())
                    h.update(open(p, "rb").read())
    target = target or TARGET
    stamp = os.path.join(target, "verif_deps.stamp")
    cur = h.hexdigest()
    old = open(stamp).read().strip() if os.path.exists(stamp) else ""
    if cur != old:
        now = time.time()
        for p in files:
            os.utime(p, (now, now))
        os.makedirs(target, exist_ok=True)
        with open(stamp, "w") as fh:
            fh.write(cur)


def prepare_scratch(repo, groups, scratch):
    """rsync repo -> scratch and inject.  Returns list of notes; raises LostAnchor."""
    os.makedirs(scratch, exist_ok=True)
    subprocess.run(["rsync", "-a", "--delete", "--exclude", "/target", "--exclude", ".git", "--exclude", "/dumps/*.pcapng",
                    "--exclude", "/dumps/*/*.pcapng", "--exclude", "/doc",
                    repo.rstrip("/") + "/", scratch + "/"], check=True)
    shim = os.path.join(KDIR, "_vk.rs")
    for crate_root in ("src", "ethercrab-wire/src"):
        shutil.copy2(shim, os.path.join(scratch, crate_root, "verif_vk.rs"))
        libp = os.path.join(scratch, crate_root, "lib.rs")
        with open(libp, "a") as fh:
            fh.write("\n#[cfg(any(kani, verif_replay))]\n#[allow(dead_code, unused)]\npub(crate) mod verif_vk;\n")
    for g in groups:
        host = os.path.join(scratch, g["host"])
        if not os.path.exists(host):
            raise LostAnchor(f"kani group {g['name']}: host module {g['host']} not found")
        modname = "verif_kani_" + g["name"]
        hostdir = os.path.dirname(host)
        base = os.path.basename(host)
        if base not in ("mod.rs", "lib.rs"):
            # child module of foo.rs lives in foo/
            hostdir = os.path.join(hostdir, base[:-3])
            os.makedirs(hostdir, exist_ok=True)
        dst = os.path.join(hostdir, modname + ".rs")
        shutil.copy2(g["path"], dst)
        with open(host, "a") as fh:
            fh.write(f"\n#[cfg(any(kani, all(test, verif_replay)))]\n#[allow(dead_code, unused, trivial_casts, trivial_numeric_casts, unused_qualifications, clippy::all)]\npub(crate) mod {modname};\n")
        # contract attributes (inserted bottom-up per file so offsets stay valid)
        byfile = {}
        for c in g["contracts"]:
            byfile.setdefault(c["file"], []).append(c)
        for f, cs in byfile.items():
            p = os.path.join(scratch, f)
            src = Src(p)
            ins = []
            for c in cs:
                scope = None
                fn = None
                if "impl" in c:
                    for sc in src.find_impl(c["impl"]):
                        try:
                            fn = src.find_fn(c["fn"], sc)
                            break
                        except LostAnchor:
                            continue
                    if fn is None:
                        raise LostAnchor(f"{f}: fn {c['fn']} in `{c['impl']}` not found")
                else:
                    fn = src.find_fn(c["fn"])
                a = src.attrs_before(fn["start"])
                off = src.toks[a].start
                ins.append((off, "\n".join(c["attrs"]) + "\n"))
            text = src.text
            for off, t in sorted(ins, reverse=True):
                text = text[:off] + t + text[off:]
            open(p, "w").write(text)


FAILED_CHECK = re.compile(r"^Failed Checks: (.*)$", re.M)


def parse_kani_output(out):
    """split cargo-kani output per harness (handles the `Thread k:` interleaving of -j runs)"""
    cur = {}      # thread -> harness full name
    bodies = {}   # harness full name -> text
    th = None
    for line in out.split("\n"):
        m = re.match(r"^(?:Thread (\d+): )?Checking harness ([^\n]+?)\.\.\.\s*$", line)
        if m:
            th = m.group(1) or "0"
            cur[th] = m.group(2).strip()
            bodies.setdefault(cur[th], "")
            continue
        m = re.match(r"^Thread (\d+):\s?(.*)$", line)
        if m:
            th = m.group(1)
            line = m.group(2)
        if th is not None and th in cur:
            bodies[cur[th]] += line + "\n"
    res = {}
    for name, body in bodies.items():
        short = name.split("::")[-1]
        st = "unknown"
        if "VERIFICATION:- SUCCESSFUL" in body:
            st = "ok"
        elif "VERIFICATION:- FAILED" in body:
            st = "fail"
        m = re.search(r"\*\* (\d+) of (\d+) failed", body)
        nfail, ntot = (int(m.group(1)), int(m.group(2))) if m else (0, 0)
        fails = []
        for fm in re.finditer(r"^Failed Checks: (.*)\n\s*File: \"([^\"]*)\", line (\d+), in (.*)$", body, re.M):
            fails.append(dict(desc=fm.group(1).strip(), file=fm.group(2), line=int(fm.group(3)), func=fm.group(4).strip()))
        if not fails:
            for fm in FAILED_CHECK.finditer(body):
                fails.append(dict(desc=fm.group(1).strip(), file="", line=0, func=""))
        mt = re.search(r"Verification Time: ([0-9.]+)s", body)
        unwind_fail = "unwinding assertion" in body and st == "fail"
        mc = re.search(r"\*\* (\d+) of (\d+) cover properties satisfied", body)
        res[short] = dict(full=name, status=st, nfail=nfail, ntot=ntot, fails=fails, time=float(mt.group(1)) if mt else 0.0,
                          body=body[-6000:], unwind_fail=unwind_fail,
                          cover=(int(mc.group(1)), int(mc.group(2))) if mc else None)
    return res


def cargo_kani(scratch, crate, harnesses, extra=(), timeout=3600, jobs=None):
    env = dict(os.environ)
    env["CARGO_NET_OFFLINE"] = "true"
    env["CARGO_TARGET_DIR"] = TARGET
    env.pop("RUSTUP_TOOLCHAIN", None)
    cmd = ["cargo", "kani", "--no-default-features", "-Z", "function-contracts", "-Z", "stubbing", "-Z", "unstable-options",
           "--harness-timeout", os.environ.get("VERIF_HARNESS_TIMEOUT", "2700"),
           "--output-format", "terse", "-j", str(jobs or min(8, max(1, len(harnesses))))]
    for h in harnesses:
        cmd += ["--harness", h]
    cmd += list(extra)
    t0 = time.time()
    mem_kb = int(os.environ.get("VERIF_CBMC_MEM_GB", "12")) << 20
    import threading
    proc = subprocess.Popen(cmd, cwd=os.path.join(scratch, crate), env=env, stdout=subprocess.PIPE, stderr=subprocess.STDOUT, text=True)
    stop = threading.Event()

    def watchdog():
        # kill any cbmc below us that grows past the memory budget (the harness then reports no verdict -> exit 2)
        while not stop.wait(3.0):
            try:
                for pid in os.listdir("/proc"):
                    if not pid.isdigit():
                        continue
                    try:
                        st = open(f"/proc/{pid}/status").read()
                    except Exception:
                        continue
                    if not st.startswith("Name:\tcbmc"):
                        continue
                    m = re.search(r"VmRSS:\s+(\d+) kB", st)
                    if m and int(m.group(1)) > mem_kb:
                        os.kill(int(pid), 9)
            except Exception:
                pass
    th = threading.Thread(target=watchdog, daemon=True)
    th.start()
    try:
        out, _ = proc.communicate(timeout=timeout)
        rc = proc.returncode
    except subprocess.TimeoutExpired:
        proc.kill()
        out, _ = proc.communicate()
        rc = 124
    finally:
        stop.set()
    return rc, out or "", time.time() - t0, " ".join(cmd)


def run_groups(group_names, repo, work, prop, tier, seed):
    """returns a list of result dicts (one per group) in the same shape vrun produces"""
    groups = all_groups(repo, os.path.join(work, "wire_gen"))
    wire_meta = groups.pop("__wire_notes", dict(notes=[], n_types=0, names=[]))
    out = []
    wanted = []
    if "@wire" in group_names:
        group_names = [g for g in group_names if g != "@wire"] + wire_meta["names"]
    for gn in group_names:
        if gn not in groups:
            out.append(dict(unit=gn, backend="kani", status="error", failures=[], functions=[], verified=0, errors=0,
                            trusted=[], notes=[f"kani group {gn} missing"]))
            continue
        wanted.append(groups[gn])
    if not wanted:
        return out
    os.makedirs(SCRATCH_ROOT, exist_ok=True)
    os.makedirs(os.path.dirname(TARGET), exist_ok=True)
    os.makedirs(RESULT_CACHE, exist_ok=True)
    lock = open(os.path.join(SCRATCH_ROOT, "lock"), "w")
    fcntl.flock(lock, fcntl.LOCK_EX)
    scratch = os.path.join(SCRATCH_ROOT, "tree")
    try:
        inject = list(groups.values())
        try:
            prepare_scratch(repo, inject, scratch)
        except LostAnchor as e:
            # fall back to only the groups this property needs
            try:
                inject = wanted
                prepare_scratch(repo, inject, scratch)
            except LostAnchor as e2:
                for g in wanted:
                    out.append(dict(unit=g["name"], backend="kani", status="error", failures=[], functions=[], verified=0,
                                    errors=0, trusted=[], notes=[f"LOST-ANCHOR: {e2}"]))
                return out
        th = tree_hash(scratch)
        refresh_dependency_builds(scratch)
        # generated wire groups are run in one cargo-kani invocation (one build, many harnesses)
        gen = [g for g in wanted if g.get("generated")]
        for g in wanted:
            if not g.get("generated"):
                out.append(run_one_group(g, scratch, th, prop, tier))
        if gen:
            merged = dict(name="wire_derive", path=None, host=None, crate=".", contracts=[], generated=True,
                          harnesses=[h for g in gen for h in g["harnesses"]], text="".join(g["text"] for g in gen))
            r = run_one_group(merged, scratch, th, prop, tier)
            r["programs"] = wire_meta["n_types"]
            if wire_meta["notes"]:
                r["notes_info"] = wire_meta["notes"]
            out.append(r)
    finally:
        shutil.rmtree(scratch, ignore_errors=True)
        fcntl.flock(lock, fcntl.LOCK_UN)
        lock.close()
    return out


def run_one_group(g, scratch, th, prop, tier):
    res = dict(unit=g["name"], backend="kani", status="error", failures=[], functions=[], verified=0, errors=0, smt_ms=0,
               trusted=[], rules={}, notes=[], wall=0.0, cached=False, samples=[], obligations=0, discharged=0)
    t0 = time.time()
    hs = []
    for h in g["harnesses"]:
        hp = [p for p in re.split(r"[ ,]+", h.get("props", "")) if p]
        if hp and prop not in hp:
            continue
        if h.get("tier") == "thorough" and tier != "thorough":
            continue
        hs.append(h)
    if not hs:
        res["notes"].append("no harness selected")
        return res
    # trusted base: stubs and assumes in the harness file
    for m in re.finditer(r"kani::stub\(([^)]*)\)", g["text"]):
        res["trusted"].append("kani::stub " + " ".join(m.group(1).split()))
    n_assume = len(re.findall(r"(kani|vk)::assume\(", g["text"]))
    if n_assume:
        res["trusted"].append(f"{n_assume} kani::assume preconditions in harnesses (each guarded by a cover)")
    res["trusted"] = sorted(set(res["trusted"]))
    for c in g["contracts"]:
        res["functions"].append(dict(file=c["file"], fn=c["fn"], impl=c.get("impl"), line=0, kind="fn", props=""))
    ck = os.path.join(RESULT_CACHE, hashlib.sha256((th + g["name"] + ",".join(h["name"] for h in hs)).encode()).hexdigest() + ".json")
    if os.path.exists(ck) and not os.environ.get("VERIF_NOCACHE"):
        parsed = json.load(open(ck))
        res["cached"] = True
        rc, cmd = parsed.pop("__rc"), parsed.pop("__cmd")
    else:
        rc, outp, wall, cmd = cargo_kani(scratch, g.get("crate", "."), [h["name"] for h in hs],
                                         timeout=int(os.environ.get("VERIF_KANI_TIMEOUT", "2400")))
        parsed = parse_kani_output(outp)
        if os.environ.get("VERIF_DEBUG"):
            open(os.path.join("/tmp", f"kani_{g['name']}.log"), "w").write(outp)
        if not parsed:
            res["notes"].append("cargo kani produced no harness results (build error?): " + outp[-3000:])
            res["wall"] = time.time() - t0
            return res
        d = dict(parsed)
        d["__rc"], d["__cmd"] = rc, cmd
        # only DECIDED runs are cached: a harness without a verdict (CBMC timeout / killed / out of memory - e.g. on a loaded
        # machine), or a failed one without a failed check to show, must be tried again by the next run
        decided = all(r["status"] == "ok" or (r["status"] == "fail" and r["fails"] and "CBMC timed out" not in r["body"]
                                               and "CBMC failed" not in r["body"]) for r in parsed.values())
        if decided and all(h["name"] in parsed for h in hs):
            json.dump(d, open(ck, "w"))
    res["cmd"] = cmd
    bounded_notes = []
    for h in hs:
        r = parsed.get(h["name"])
        if r is None:
            res["notes"].append(f"harness {h['name']} not run (not found by cargo kani)")
            continue
        res["smt_ms"] += int(r["time"] * 1000)
        fnref = h.get("fn", "")
        if fnref:
            res["functions"].append(dict(file=fnref.split("::")[0], fn="::".join(fnref.split("::")[1:]), impl="", line=0,
                                         kind="fn", props=h.get("props", "")))
        is_b = bool(h.get("bounded"))
        if r["status"] == "ok":
            if is_b:
                bounded_notes.append(f"{h['name']}: {h['bounded']} ({r['ntot']} checks)")
                res.setdefault("bounded_checks", 0)
                res["bounded_checks"] += r["ntot"]
            else:
                res["obligations"] += r["ntot"]
                res["discharged"] += r["ntot"]
            res["samples"].append(f"kani {h['name']}: {r['ntot']} checks, 0 failed, {r['time']}s"
                                  + (f" — BOUNDED: {h['bounded']}" if is_b else " — loop-free/complete")
                                  + (f" — {h['obligation']}" if h.get("obligation") else ""))
        elif r["status"] == "fail" and not r["fails"]:
            res["notes"].append(f"harness {h['name']}: no verdict (CBMC killed / timeout / out of memory): " + r["body"][-300:].strip())
        elif r["status"] == "fail":
            if r["unwind_fail"] and all("unwinding assertion" in f["desc"] for f in r["fails"]):
                res["notes"].append(f"harness {h['name']}: unwinding assertion failed (bound too small) — undecided")
                continue
            if not is_b:
                res["obligations"] += r["ntot"]
                res["discharged"] += r["ntot"] - r["nfail"]
            for f in r["fails"]:
                if "unwinding assertion" in f["desc"]:
                    continue
                key = f"{g['name']}::{h['name']}::{norm_desc(f['desc'])}"
                res["failures"].append(dict(key=key, kind="kani-check", fn=h["name"], expr=f["desc"][:300],
                                            where=f"{f['file']}:{f['line']} in {f['func']}", props=h.get("props", ""),
                                            message=f"Kani: failed check `{f['desc']}`", rendered=r["body"][-3000:],
                                            harness=h["name"], group=g["name"]))
        else:
            res["notes"].append(f"harness {h['name']}: no verdict (timeout / crash / out of memory): " + r["body"][-600:])
    if bounded_notes:
        res["bounded_list"] = bounded_notes
    res["verified"] = res["discharged"]
    res["errors"] = res["obligations"] - res["discharged"]
    if any("not run" in n or "no verdict" in n or "undecided" in n for n in res["notes"]):
        res["status"] = "error"
    else:
        res["status"] = "fail" if res["failures"] else "ok"
    # counterexamples for failures
    if res["failures"] and not os.environ.get("VERIF_NO_CEX"):
        for hname in sorted(set(f["harness"] for f in res["failures"])):
            cex = counterexample(scratch, g, hname)
            for f in res["failures"]:
                if f["harness"] == hname and cex:
                    f["counterexample"] = cex
                    f["replay"] = dict(group=g["name"], harness=hname, values=cex)
    res["wall"] = time.time() - t0
    return res


def norm_desc(d):
    d = re.sub(r"\s+", " ", d)
    return d[:160]


def counterexample(scratch, g, hname):
    rc, outp, wall, cmd = cargo_kani(scratch, g.get("crate", "."), [hname],
                                     extra=["-Z", "concrete-playback", "--concrete-playback=print"], timeout=1800)
    m = re.search(r"let concrete_vals: Vec<Vec<u8>> = vec!\[(.*?)\n\s*\];", outp, re.S)
    if not m:
        return None
    vals = []
    for vm in re.finditer(r"vec!\[([0-9, ]*)\]", m.group(1)):
        vals.append([int(x) for x in vm.group(1).replace(" ", "").split(",") if x])
    return vals


def replay(path, repo):
    """re-run a recorded counterexample against the real code, compiled by the repository's own toolchain"""
    rec = json.load(open(path))
    rp = rec.get("replay")
    if not rp:
        print("replay file carries no concrete input (obligation:", rec.get("obligation"), ") — verifier output:")
        print(rec.get("verifier_output", "")[:3000])
        return 1
    gen_dir = os.path.join(SCRATCH_ROOT, "replay_wire_gen")
    groups = all_groups(repo, gen_dir)
    groups.pop("__wire_notes", None)
    g = groups.get(rp["group"]) or [x for x in groups.values() if any(h["name"] == rp["harness"] for h in x["harnesses"])][0]
    scratch = os.path.join(SCRATCH_ROOT, "replay_tree")
    os.makedirs(SCRATCH_ROOT, exist_ok=True)
    try:
        prepare_scratch(repo, [g], scratch)
        refresh_dependency_builds(scratch, os.path.join(VERIF, ".cache", "replay_target"))
        # the real dumps are needed by cfg(test) code
        subprocess.run(["rsync", "-a", repo.rstrip("/") + "/dumps/", scratch + "/dumps/"], check=False)
        vals = ";".join(",".join(str(b) for b in v) for v in rp["values"])
        env = dict(os.environ)
        env["VERIF_REPLAY_VALUES"] = vals
        env["RUSTFLAGS"] = (env.get("RUSTFLAGS", "") + " --cfg verif_replay").strip()
        env["CARGO_TARGET_DIR"] = os.path.join(VERIF, ".cache", "replay_target")
        env["RUSTUP_TOOLCHAIN"] = "1.88.0"
        cmd = ["cargo", "test", "--offline", "--lib", "--", rp["harness"], "--nocapture", "--test-threads", "1"]
        p = subprocess.run(cmd, cwd=os.path.join(scratch, g.get("crate", ".")), env=env, stdout=subprocess.PIPE,
                           stderr=subprocess.STDOUT, text=True)
        print(p.stdout[-4000:])
        failed = "test result: FAILED" in p.stdout or "panicked at" in p.stdout
        print("REPLAY:", "violation reproduced on the real code" if failed else "did NOT reproduce")
        return 1 if failed else 0
    finally:
        shutil.rmtree(scratch, ignore_errors=True)

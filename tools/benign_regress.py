#!/usr/bin/env python3
"""benign_regress.py [<dir with *.diff> ...]  (default: every /verif/benign/<property>/) — false-alarm test: every patch is a BEHAVIOUR-PRESERVING edit of /repo (written by an independent
sub-agent that saw only the property text).  Each is applied to a scratch copy of /repo and EVERY Verus unit is run on it (unchanged units are
answered from the cache).  Expected: ok, or error (= exit 2: lost anchor / construct outside the subset - undecided, no alarm).  A unit that
answers `fail` on such a patch is a FALSE ALARM of the machinery and must be corrected.  (The Kani side runs the real code and compares
behaviour, so a behaviour-preserving edit cannot make it alarm; it is not re-run here.)"""
import sys, os, json, subprocess, shutil, glob
sys.path.insert(0, os.path.dirname(__file__))

VERIF = os.path.dirname(os.path.dirname(os.path.abspath(__file__)))
W = "/tmp/benign_regress_tree"


def run_unit(unit, repo):
    p = subprocess.run([sys.executable, os.path.join(VERIF, "tools", "vrun.py"), unit, repo], capture_output=True, text=True)
    try:
        d = json.loads(p.stdout)
    except Exception:
        return "error", ["no json"], []
    return d.get("status"), [f"{f.get('fn')}:{f.get('kind')}:{f.get('expr', '')[:80]}" for f in d.get("failures", [])][:4], d.get("notes", [])


def main():
    units = sorted(os.path.basename(p)[:-3] for p in glob.glob(os.path.join(VERIF, "contracts", "verus", "*.rs")))
    tot = dict(ok=0, fail=0, error=0)
    for d in (sys.argv[1:] or sorted(glob.glob(os.path.join(VERIF, "benign", "*")))):
        for patch in sorted(glob.glob(os.path.join(os.path.abspath(d), "*.diff"))):
            shutil.rmtree(W, ignore_errors=True)
            subprocess.run(["rsync", "-a", "--exclude", "target", "--exclude", ".git", "/repo/", W + "/"], check=True)
            a = subprocess.run(["patch", "-p1", "-s", "-i", patch], cwd=W, capture_output=True, text=True)
            name = os.path.basename(os.path.dirname(patch)) + "/" + os.path.basename(patch)
            if a.returncode != 0:
                print(f"{name}: PATCH-DOES-NOT-APPLY")
                continue
            fails, errs = [], []
            for u in units:
                st, fl, notes = run_unit(u, W)
                if st == "fail":
                    fails.append(f"{u}({'; '.join(fl)})")
                elif st != "ok":
                    errs.append(f"{u}[{' '.join(notes)[:160]}]")
            k = "fail" if fails else ("error" if errs else "ok")
            tot[k] += 1
            print(f"{name}: " + ("FALSE-ALARM " + " ".join(fails) if fails else ("exit-2 " + " ".join(errs) if errs else "ok (all units verify)")))
            sys.stdout.flush()
    shutil.rmtree(W, ignore_errors=True)
    print("\ntotals:", tot)


if __name__ == "__main__":
    main()

#!/usr/bin/env python3
"""check — decide one property:  ./check <Cxx> [--tier quick|thorough] [--replay <file>] [--repo <dir>]

exit 0  every obligation of the property's contract set discharged (KNOWN-FINDING lines allowed)
exit 1  an obligation failed:  VIOLATION property=<id> replay=<path> [no-failing-input-found]
exit 2  the machinery could not decide (lost anchor, unsupported construct, resource limit, tool crash)
"""
import argparse
import concurrent.futures as cf
import json
import os
import re
import shutil
import sys
import tempfile
import time

sys.path.insert(0, os.path.dirname(__file__))
import plan   # noqa: E402
import vrun   # noqa: E402
import krun   # noqa: E402

VERIF = os.path.abspath(os.path.join(os.path.dirname(__file__), ".."))

COMMON_ASSUMPTIONS = [
    "Verus 0.2026.09.13 / Z3, Kani 0.68 / CBMC 6.11 / kissat and rustc are correct (one wrong SUCCESSFUL of Kani/CBMC was observed and is "
    "avoided: copy_from_slice of symbolic length inside a coroutine loop, findings/tool_kani_async_memcpy.rs; the one harness that drives "
    "a coroutine, range_write, now uses constant lengths)",
    "machine integers are modelled exactly: Verus checks overflow at the Rust type's width, Kani is bit-precise (no mathematical-integer shortcut for executable code)",
    "the Verus text is the /repo text: items are copied verbatim on every run and only the logged rewrite rules (DESIGN 2.1) are applied; "
    "logging statements are dropped (their arithmetic arguments are re-emitted), debug_assert!/assert! become static obligations",
    "functions not extracted are represented by the assumed contracts listed in trusted_base",
    "Release/Acquire orderings give happens-before as in the C++11 model and an execution is an interleaving of atomic operations "
    "(contracts are sequential; Kani has no threads)",
]


def load_findings():
    path = os.path.join(VERIF, "known_findings.txt")
    out = []
    if not os.path.exists(path):
        return out
    for line in open(path):
        line = line.rstrip("\n")
        m = re.match(r"finding:\s+property=(\S+)\s+obligation=(.*?)\s\s+(.*)$", line)
        if m:
            out.append(dict(prop=m.group(1), key=m.group(2).strip(), what=m.group(3)))
    return out


def main():
    ap = argparse.ArgumentParser()
    ap.add_argument("prop")
    ap.add_argument("--tier", default=os.environ.get("VERIF_TIER", "quick"))
    ap.add_argument("--replay")
    ap.add_argument("--repo", default="/repo")
    ap.add_argument("--keep", action="store_true")
    a = ap.parse_args()
    if a.replay:
        sys.exit(krun.replay(a.replay, a.repo))
    prop = a.prop
    if prop not in plan.PLAN:
        print(f"unknown or not-applicable property {prop}")
        sys.exit(2)
    tier = "thorough" if a.tier == "thorough" else "quick"
    seed = int(os.environ.get("VERIF_SEED", "0") or 0)
    P = plan.PLAN[prop]
    t0 = time.time()
    work = tempfile.mkdtemp(prefix=f"verif_{prop}_")
    results = []
    try:
        vunits = list(P.get("verus", []))
        kgroups = list(P.get("kani", []))
        if tier == "thorough":
            vunits += P.get("verus_thorough", [])
            kgroups += P.get("kani_thorough", [])
        with cf.ThreadPoolExecutor(max_workers=6) as ex:
            futs = [ex.submit(vrun.run_unit, u, a.repo, work) for u in vunits]
            kres = krun.run_groups(kgroups, a.repo, work, prop, tier, seed) if kgroups else []
            for f in futs:
                results.append(f.result())
            results.extend(kres)
    finally:
        if not a.keep:
            shutil.rmtree(work, ignore_errors=True)
        else:
            print("workdir kept:", work)

    findings = load_findings()
    os.makedirs(os.path.join(VERIF, "evidence", "replay"), exist_ok=True)
    violations, known, undecided = [], [], []
    obligations = discharged = 0
    bounded = []
    functions = []
    entry_pre = []
    trusted = set()
    rules = {}
    samples = []
    per_backend = {}
    solver_ms = 0
    cmds = set()
    edits = []
    for r in results:
        if r["status"] == "error":
            undecided.append(f"{r['backend']}:{r['unit']}: " + "; ".join(r["notes"])[:1500])
            if not r["failures"]:
                continue
        be = per_backend.setdefault(r["backend"], dict(obligations=0, discharged=0, units=0, solver_ms=0))
        be["units"] += 1
        relevant_fail = []
        for f in r["failures"]:
            fprops = [p for p in re.split(r"[ ,]+", f.get("props", "")) if p]
            # an assertion message that starts with a property id ("C06-U1 ...") belongs to that property only
            mt = re.match(r'^"?(C\d\d)-', f.get("expr", ""))
            if mt:
                fprops = [mt.group(1)]
            if fprops and prop not in fprops:
                continue  # obligation belongs to another property's contract set
            relevant_fail.append(f)
        # obligations that belong to another property's contract set are not part of this claim
        n_obl = r.get("obligations", r["verified"] + r["errors"])
        if r["backend"] == "kani":
            n_obl -= (len(r["failures"]) - len(relevant_fail))
        n_dis = r.get("discharged", r["verified"])
        for bl in r.get("bounded_list", []):
            bounded.append(f"[{r['unit']}] {bl}")
        obligations += n_obl
        discharged += n_dis
        be["obligations"] += n_obl
        be["discharged"] += n_dis
        be["bounded_checks_not_counted"] = be.get("bounded_checks_not_counted", 0) + r.get("bounded_checks", 0)
        be["solver_ms"] += r.get("smt_ms", 0)
        solver_ms += r.get("smt_ms", 0)
        for fn in r["functions"]:
            fps = [p for p in re.split(r"[ ,]+", fn.get("props", "")) if p]
            if not fps or prop in fps:
                functions.append(f"{fn['file']}:{fn['line']} {fn.get('impl') or ''}::{fn['fn']} [{r['backend']}:{r['unit']}]")
                if fn.get("requires"):
                    entry_pre.append(f"[{r['unit']}] {fn.get('gen_name') or fn['fn']}: requires {fn['requires']}")
        trusted.update(f"[{r['unit']}] {t}" for t in r["trusted"])
        for k, v in r.get("rules", {}).items():
            rules[k] = rules.get(k, 0) + v
        edits.extend(r.get("edits", []))
        cmds.add(r.get("cmd", ""))
        samples.extend(r.get("samples", []))
        for f in relevant_fail:
            kf = [x for x in findings if x["key"] == f["key"] and x["prop"] == prop]
            if kf:
                known.append((f, kf[0]))
                continue
            violations.append((r, f))

    # ---- report
    for (f, k) in known:
        print(f"KNOWN-FINDING: property={prop} {f['key']}  {k['what']}")
    n_known = len(known)
    # known-finding obligations are excluded from the proof claim and listed separately
    vio_lines = []
    for i, (r, f) in enumerate(violations):
        rp = os.path.join(VERIF, "evidence", "replay", f"{prop}_{r['unit']}_{i}.json")
        rec = dict(property=prop, obligation=f["key"], backend=r["backend"], unit=r["unit"], function=f["fn"], kind=f["kind"],
                   repo_location=f["where"], expression=f["expr"], at=f.get("at", ""), verifier_message=f["message"],
                   verifier_output=f.get("rendered", ""), counterexample=f.get("counterexample"),
                   replay=f.get("replay"), replay_result=f.get("replay_result"))
        json.dump(rec, open(rp, "w"), indent=1)
        tail = "" if f.get("counterexample") else " no-failing-input-found"
        vio_lines.append(f"VIOLATION property={prop} replay={rp}{tail}")
        print(f"  failed obligation {f['key']}  at {f['where']}: {f['message']}")
    for line in vio_lines:
        print(line)

    # samples: a few actual obligations
    if not samples:
        for r in results:
            for pf in (r.get("per_function") or [])[:6]:
                samples.append(f"{r['unit']}::{pf['function']} — function VC {'discharged' if pf['ok'] else 'FAILED'} in {pf['ms']} ms (verus)")
    ev = dict(
        property_id=prop, tier=tier, seed=seed, level=P.get("level", "proof"),
        coverage=dict(
            obligations=max(obligations - n_known, 0) if obligations else 0,
            discharged=discharged,
            checker_cmd=" ; ".join(sorted(c for c in cmds if c))[:2000],
            trusted_base=sorted(trusted),
            functions_under_contract=sorted(set(functions)),
            entry_preconditions_assumed_of_callers=sorted(set(entry_pre)),
            per_backend=per_backend,
            solver_time_ms=solver_ms,
            rewrite_rules_fired=rules,
            non_verbatim_edits=edits[:200],
            bounded_not_counted_as_proved=bounded,
            known_finding_obligations=[f["key"] for (f, k) in known],
            undecided=undecided,
            canaries=[f"{r['unit']}: {r.get('canary')}" for r in results if r.get("canary")],
            cached_units=[r["unit"] for r in results if r.get("cached")],
            samples=samples[:12] or ["(none)"],
            explanation=P.get("explanation") or (P.get("claim", "") + "  ||  LIMITS / NOT DECIDED: " + P.get("note", "")),
        ),
        assumptions=COMMON_ASSUMPTIONS + P.get("assumptions", []),
        wall_s=round(time.time() - t0, 2),
        violations=len(violations),
    )
    if P.get("level") == "translation_validation":
        ev["coverage"]["programs"] = sum(r.get("programs", 0) for r in results)
        ev["coverage"]["disagreements_checked"] = sum(r.get("obligations", 0) for r in results)
    os.makedirs(os.path.join(VERIF, "evidence"), exist_ok=True)
    evdir = os.path.join(VERIF, "evidence") if os.path.realpath(a.repo) == "/repo" else os.path.join(VERIF, ".cache", "scratch_evidence")
    os.makedirs(evdir, exist_ok=True)
    json.dump(ev, open(os.path.join(evdir, f"{prop}.json"), "w"), indent=1)
    print(f"{prop} [{tier}]: {discharged}/{obligations} obligations discharged "
          f"({', '.join('%s: %d/%d' % (k, v['discharged'], v['obligations']) for k, v in per_backend.items())}); "
          f"{len(bounded)} bounded stand-ins; {n_known} known findings; {len(violations)} violations; "
          f"{len(undecided)} undecided; {ev['wall_s']} s")
    if violations:
        sys.exit(1)
    if undecided:
        for u in undecided:
            print("UNDECIDED:", u)
        sys.exit(2)
    sys.exit(0)


if __name__ == "__main__":
    main()

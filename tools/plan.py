"""property -> contract units.  verus: template names under contracts/verus; kani: group names under contracts/kani."""
NOTES = ("Every check regenerates its Verus units from /repo's working tree and re-injects its Kani harness modules into a fresh "
         "scratch copy on every run. Exit 2 (never an alarm) = lost anchor / unsupported construct / resource limit.")

NOT_APPLICABLE = {
    "C20": "two-run (hyper)property over all interleavings of >=2 async tasks judged against a sequential oracle; no function "
           "contract expresses 'same result as running alone', Kani has no threads and Verus would need the PDU loop rewritten "
           "with its own permission-carrying atomics (no longer the code that runs). The sequential ingredients are claimed "
           "under C01 (routing), C02 (exclusion), C07 (per-group image).",
}

PLAN = {
    "C01": dict(
        verus=["group_cycle", "rx_route", "pdu_iter", "slot_search"], kani=["slots", "wkc", "storage", "rx", "pdu_flags"], assumptions=['Kani has no threads: every operation is proved from an arbitrary slot state; their composition under concurrency is the Verus lemma slot_protocol plus the memory-model assumption', 'receive_frame / lookup harnesses are bounded in slots, slot size and input length (listed under bounded_not_counted_as_proved)', 'the contract of the 2nd and later items of ReceivedPduIter is assumed (CBMC does not finish two calls)'], level="proof",
        claim="sequential core of response routing on the real code (Kani): index lookup returns the lowest matching slot and never an empty one; "
              "receive_frame stores the response byte-exact into exactly the Sent slot that owns the first datagram index and marks it RxDone; "
              "poll returns Ok only from RxDone; first_pdu validates command/index and views exactly the datagram's data area; trim_front "
              "shortens the view; wkc is the two bytes after the data; a genuine response is always Processed, a fitting datagram with the expected command and index is "
              "always delivered (completeness clauses); MainDevice::single_pdu extracted whole (Verus): one datagram with the caller's command and max(data, override) bytes goes "
              "out and the caller gets the data area and counter of what came back for it; PduRx::receive_frame extracted WHOLE (Verus unit rx_route: ANY number of slots, slot size and "
              "input length): the outcome is exactly route(bytes, markers, states) - Ignored / error / stored byte-exact into the lowest slot whose marker matches and which awaits a response. Loop-free harnesses over full-domain inputs are complete; receive_frame is "
              "a bounded stand-in (N=2, DATA=44, input <= 50 bytes).",
        note="the quantifier over schedules is NOT decided by contracts: it rests on the stated assumption that an execution is an interleaving of the "
             "atomic slot operations whose sequential contracts are proved here (C02 composition argument); known finding D2 (view outlives its slot)",
    ),
    "C02": dict(
        verus=["slot_protocol", "slot_search"], kani=["slots", "storage", "tx"], assumptions=['interleaving semantics of atomic operations (no weak-memory effects beyond Release/Acquire happens-before)'], level="proof",
        claim="rely/guarantee: (1) every slot operation of the real code performs exactly the transition of the protocol table from an arbitrary "
              "pre-state and touches nothing else (Kani, all 8 states, loop-free => complete); (2) the protocol machine built from that table keeps "
              "'at most one party inside each buffer' as an inductive invariant for any number of slots and tasks (Verus lemma)",
        note="glue assumed: real executions are interleavings of those atomic operations, each party calls only its role's operations "
             "(PduTx / PduRx exist once: try_split proved); memory-ordering arguments are not machine-checked",
    ),
    "C03": dict(
        verus=["slot_protocol", "slot_search"], kani=["slots", "storage"], assumptions=['as C02'], level="proof",
        claim="every release path returns the slot (CreatedFrame::drop, ReceivedFrame::drop, ReceiveFrameFut::drop, poll timeout, send failure, reset) and "
              "alloc_frame fails only when no slot is None - for ANY number of slots and any cursor value (Verus unit slot_search, the search loop extracted whole; real pointer storage: Kani per N in {1,2,(4)} with all state vectors and cursors); "
              "lemma: a slot that is not None is held by a live handle or by TX/RX",
        note="alloc_frame / next_sendable_frame / claim_receiving / the index lookup are extracted whole in the Verus unit slot_search for ANY number of slots 1..=255 (alloc fails only when no slot is None: "
             "two rounds of the 8-bit cursor visit every slot - lemma_two_rounds_cover); the same functions on the real pointer storage per N in {1,2,4} stay as Kani cross-checks",
    ),
    "C04": dict(
        verus=["created_frame"], kani=["frame_build", "frame_header", "pdu_flags", "slots"], assumptions=['FrameBox accessors (pdu_buf_mut, add_pdu, pdu_payload_len) are assumed in the Verus unit created_frame; their pointer code is exercised by the bounded Kani harnesses'], level="proof",
        claim="CreatedFrame::push_pdu / push_pdu_slice_rest / can_push_pdu_payload / is_empty and generate::write_packed extracted WHOLE and verbatim (Verus, any frame "
              "size <= 2047, any number of datagrams, any payload): Ok iff old used + max(len, override) + 12 <= capacity, the used length advances by exactly that, a refused push "
              "returns TooLong and changes nothing, fill-the-rest is cut to min(len, free-12) and says so and never errs, bytes beyond the new datagram are untouched, the "
              "previous-header position is always a datagram start inside the used part (no failed unwrap, no out-of-bounds slice, no overflow). Byte content: frames built by the real CreatedFrame/FrameBox/SendableFrame code equal an independent encoder (Kani): Ethernet header, EtherCAT length header, "
              "each datagram's command code, address, length, payload, zero padding, zero counter/IRQ, 'more follows' on all but the last; refusal (TooLong) "
              "changes nothing; fill-the-rest pushes are cut to what fits and say so. Command::code/pack and the PduHeader/PduFlags/frame header wire layouts are "
              "complete (loop-free, full domain); the frame-building harnesses are bounded stand-ins (DATA=64, <=2 datagrams + fill)",
        note="the ACCOUNTING contract is unbounded (Verus, FrameBox seen as {area, payload_len} with pdu_buf_mut/add_pdu/pdu_payload_len as assumed accessors - their real "
             "pointer code is in the Kani groups); the BYTE CONTENT harnesses are bounded in frame size and datagram count (stated under bounded_not_counted_as_proved)",
    ),
    "C05": dict(
        verus=["rx_route", "slot_search"], kani=["rx", "storage", "slots", "frame_header"], assumptions=['slot storage (raw pointers, atomics) seen through the contracts of frame_index_by_first_pdu_index / claim_receiving / mark_received / buf_mut proved by Kani on the real code (bounded N)', 'the Kani stand-in on the real storage is bounded: N=2 slots, 44-byte slots, inputs <= 50 bytes'], level="proof",
        claim="PduRx::receive_frame extracted WHOLE (Verus unit rx_route, UNBOUNDED: any number of slots, any slot size, any input length, any bytes): the outcome is exactly "
              "route(bytes, markers, slot states): Ignored iff exit flag / not EtherCAT / own echo / empty frame; an error for short frames, foreign frame types, truncated or "
              "index-less datagram areas, an index nobody has sent, a slot that does not await a response, a response larger than the slot; otherwise Processed with the datagram "
              "area stored byte-exact in the lowest slot whose marker matches - never a panic, never an out-of-bounds slice; the same function on the real pointer storage as a "
              "Kani bounded stand-in (N=2, DATA=44, length<=50: buffers and markers untouched on Ignored/Err); claim_receiving / lookup / marker functions / frame header complete",
        note="the Verus unit sees the slot storage through the contracts proved on the pointer code by the Kani groups storage and slots (lookup = lowest matching slot, claim "
             "iff Sent, mark_received publishes the area) and the EthernetFrame accessors through the contract checked by Kani rx::eth_accessors; a response too large for the "
             "slot leaves the claimed slot RxBusy until the requester's timeout (see C06-U2)",
    ),
    "C06": dict(
        verus=["slot_protocol", "created_frame", "group_cycle"], kani=["slots"], assumptions=['virtual clock: embassy_time_driver::now / schedule_wake and timer_factory::timer are stubbed; real time is not modelled', 'known findings C06-U1..U5 are suppressed by exact obligation key only'], level="proof",
        claim="ReceiveFrameFut::poll decision table for all 8 slot states x deadline passed/not x every retry count under a virtual clock, and Drop: "
              "RxDone wins, expired & 0 retries -> Timeout(Pdu), retry re-arms and leaves buffer+length untouched (byte-identical retransmission), "
              "never Ok unless RxDone (Kani, loop-free, complete); send_blocking outcome table; the five (state, transition) pairs that are unsafe "
              "are recorded as known findings, every other pair is proved",
        note="'never hanging' is reduced to the bounded-count statement (each expiry consumes one retry); real time is not modelled (virtual clock stubs "
             "for embassy_time_driver); known findings C06-U1..U5",
    ),
    "C07": dict(
        verus=["group_cycle", "created_frame", "pdu_iter"], kani=["wkc", "frame_build", "pdu_flags"], assumptions=['ECHO-SHAPE: a response frame has the datagram boundaries of the request frame (contents and counters arbitrary)', 'CreatedFrame is seen through its accounting contract (proved in unit created_frame), ReceivedPduIter::next through the contract that unit pdu_iter proves on the extracted function (item i = datagram i of the chain, any buffer) with the buffer accessors assumed'], level="proof",
        claim="SubDeviceGroup::tx_rx, tx_rx_sync_system_time and tx_rx_dc extracted WHOLE and verbatim (Verus, any image length <= MAX_PDI, any input/output split, any number of SubDevices, any "
              "frame size from one state check up to 2047): each frame's process-data datagram is an LRW at start + (bytes sent so far) carrying exactly the next "
              "n = min(bytes left, free-12) > 0 image bytes (chunks tile the window contiguously, no gap, no overlap); the output part of the image is untouched; "
              "the input part equals the bytes returned for those addresses; the reported counter is the (saturating) sum of the LRW counters; one state per "
              "SubDevice; on Ok the whole image was sent and every SubDevice checked; the loop terminates (measure: bytes left + devices left [+1 until the clock "
              "datagram is answered]); the DC variants start exactly the FIRST frame with one FRMW(reference clock, 0x0910, 8 bytes) and no later frame carries one. Leaves: "
              "push_state_checks (k = min(devices left, floor(free/14), 129), group order), process_received_pdi_chunk (full frame condition).",
        note="network = echo-shape assumption (a reply has the datagram boundaries of the request, contents arbitrary); CreatedFrame seen through its push contract "
             "(accounting part decided unboundedly by the Verus unit created_frame, which is run for C07 as well; byte content by C04's Kani group, bounded) and ReceivedPduIter::next through its contract (proved for every item, any buffer, by the Verus unit pdu_iter on the extracted function; real pointers: Kani wkc::rx_pdu_iter_first "
             "for the first item - CBMC does not finish two calls, also not with a concrete first datagram); 'states in group order' is proved as a count, not per entry; 'reported system time is the FRMW answer' is not stated",
    ),
    "C18": dict(
        verus=["dc_arith", "dc_sync", "group_cycle"], kani=[], assumptions=['A-C18-1: reference time + start delay is representable in 64 bits', 'a SYNC0 period of 0 is outside the quantifier (division by zero, D19)', 'effects are observed through positive predicates: order of writes and absence of other writes are not decided'], level="proof",
        claim="configure_dc_sync from the device filter to the end of the per-device loop as ONE fragment (Verus, any group, any reference time): exactly the devices with DC "
              "support and a DcSync other than Disabled are programmed (the filter closure is proved to decide that predicate), each is sent 0 to 0x0981, a start time to 0x0990 "
              "that is a multiple of the period in (t+d-p, t+d], the period to 0x09A0, for Sync01 its SYNC1 period to 0x09A4, and activation flags 0x03 (Sync0) resp. 0x07 "
              "(Sync01) to 0x0981, all against ONE reading t of the reference clock; periods / delays beyond u32 nanoseconds end in an error; the period handed to the cycle "
              "arithmetic is the configured one. tx_rx_dc extracted whole (Verus): the returned CycleInfo satisfies cycle_start_offset = dc_system_time mod period and next_cycle_wait = "
              "(period - offset) + shift, without overflow, for every time value; plus the two arithmetic fragments, verbatim from configure_dc_sync and tx_rx_dc (Verus, unbounded): SYNC0 start time is a multiple of the period in "
              "(t+d-p, t+d] for all 1<=p<=u32::MAX, d<=u32::MAX; cycle offset = time mod period and wait = (period-offset)+shift without overflow for every u64 time",
        note="assumes t+d representable in u64 and shift <= 2^33; period 0 is outside the quantifier (division by zero, noted as D19). NOT decided: the ORDER of the register writes "
             "and 'no other register / device is written' (effects are observed through positive predicates only), the NoReference error in front of the fragment, the static "
             "drift compensation loop",
    ),
    "C19": dict(
        verus=[], kani=["@wire", "wire_impls"], assumptions=['the derive macro is validated per instance (its output), not as a program; the corpus is fixed (13 layouts outside the crate)', 'known finding C19-A1'], level="translation_validation",
        claim="every #[derive(EtherCrabWire*)] type in /repo/src AND a fixed corpus of 13 derive inputs that do not occur in the crate (enums with default / catch-all / "
              "both / alternatives / 32-bit repr, bit and byte skips, nested enum and struct fields, array, 64-bit field, read-only struct with a skipped field): the derive OUTPUT (the code that runs) is validated against a layout computed "
              "independently from the #[wire] attributes, for all byte strings and all field values (Kani, loop-free, complete per type): field bit positions, "
              "zero undeclared bits, unpack(pack(x)) round trip, short buffers are errors, enum fallbacks as declared (catch-all before default); the hand-written impls of ethercrab-wire/src/impls.rs for u8..u64, i8..i64, "
              "bool, unit, [u8; 5], &[u8], [u16; 3] and a 3-tuple (Kani, every value and byte: pack = little endian, checked pack touches exactly its bytes, short buffers refused, "
              "round trip)",
        note="the proc-macro program itself is not verified (its output is, per instance); generic types and write-only derives are skipped and listed; the 'several hundred "
             "generated definitions per run' of the quantifier are represented by the in-repo types plus the fixed corpus (a bounded stand-in for the space of layouts); "
             "f32/f64, heapless::Vec/String impls are not under contract; KNOWN FINDING C19-A1: buffer() of arrays of multi-byte items is shorter than PACKED_LEN",
    ),
    "C14": dict(
        verus=["eeprom_range", "subdevice_eeprom", "eeprom_device"], kani=["eeprom_alias"], assumptions=['provider contract: write_word(w, d) stores d at word w of the one device all clones of the provider talk to', 'the CRC-8 used is the uninterpreted function crc8_etg; table == bitwise CRC-8 on all 14-byte inputs is the Kani harness alias_crc_table', 'A-TIME-1 for the busy polls'], level="proof",
        claim="SubDeviceEeprom::set_station_alias extracted WHOLE (Verus, any EEPROM contents, any chunk size): on Ok the alias word (word 4) was written with the new alias "
              "and the checksum word (word 7) with [CRC-8 of the first fourteen bytes as they read after the change, 0]; each of the two writes goes through a one-word "
              "window, so no other word can be touched (write never starts a word at or past its window end); embedded-io's write_all extracted from the dependency source "
              "(never hits its panic on Ok(0) when the window has room); DeviceEeprom::write_word extracted whole: data to SiiData then a write request for exactly that word "
              "address, retried only on command error and at most 20 times, terminates. Generic EEPROM write (EepromRange::write, verbatim, Verus, unbounded): words (b[2i], b[2i+1] or 0) are written at consecutive word addresses "
              "from the current position, never starting at or past the window end, stopping only when data or window is exhausted, returning the bytes consumed, "
              "no overflow; start_at's window = requested length rounded up to a word; the crc crate's table for ECAT_CRC_ALGORITHM equals a bit-by-bit "
              "CRC-8 (0x07, init 0xff) on all 14-byte inputs (Kani, complete); bounded Kani cross-check of write on a shared-memory mock provider",
        note="'exactly two words' is stated as: two writes were made and each went through a window of one word (clones of the provider inside temporaries hide the "
             "write log from a postcondition, so 'no third write' is the structural fact that the body contains two write_all calls - argued, not a discharged obligation); "
             "'the alias reported afterwards is the new one' needs a device model (not stated); wait_while_busy (polling under `async{}.timeout()`) is the arbitrary device",
    ),
    "C15": dict(
        verus=["sdo", "mailbox", "init_addr"], kani=["mbx"], assumptions=['the device is arbitrary: every status and mailbox read returns any value', 'decoders of the two fn-local reply shapes (HeadersRaw, EmergencyData) are assumed to decode what their #[wire] attributes say', 'EtherCrabWireSized::buffer() returns PACKED_LEN bytes - FALSE for arrays of multi-byte items (known finding C19-A1)', 'A-TIME-1'], level="proof",
        claim="Coe::mailbox_write_read extracted WHOLE (Verus, device = arbitrary reply bytes of any length): the request bytes written to the write mailbox are exactly "
              "request.pack() with the mailbox's address and length, and the outcome is exactly triage(request, reply): emergency -> Emergency error with the code/register "
              "decoded right after the 8 header bytes, abort -> Aborted with the device's abort code and the reply's index/sub-index, foreign mailbox type or an index/sub-index "
              "other than the requested one (validate_response impls, extracted) -> SdoResponseInvalid, else the decoded headers and the bytes after the 12 header bytes; "
              "SubDevice::mailbox_counter cycles 1..7, never 0 (Kani, every stored value, complete). "
              "Coe::sdo_write, sdo_read, sdo_read_expedited and the request constructors, verbatim (Verus, unbounded, device = arbitrary reply): "
              "sdo_write exchanges an expedited download carrying exactly the value's bytes zero padded to 4, size = 4-len, the right index / sub-index / "
              "complete-access flag and a counter in 1..=7 (values > 4 bytes are refused); sdo_read sends an upload for exactly (index, sub-index) and "
              "returns the decoding of the first 4-size bytes (expedited) resp. of the length-10 bytes after the 4-byte size field (normal), "
              "refusing objects larger than the destination with TooLong; a SEGMENTED answer returns the decoding of the concatenation of the segments' data parts "
              "(length-3 bytes each, the 7-byte minimum cut by segment_data_size), requested with toggle bits 0,1,0,.. and counters in 1..=7, ending at the first "
              "segment marked last (ghost sequences of requests/replies carried through the loop); SdoNormal::upload / SdoSegmented::upload / SdoExpedited::download field values",
        note="relative to the spec encodings (the device is not modelled); the array helpers are extracted too (sdo_write_array: count cleared, entry k to sub-index k+1 in order, count written last, <= 254 entries; sdo_read_array: a count above the capacity is an error, one read per sub-index 1..=count); the field decoders of the two reply shapes declared inside "
             "mailbox_write_read (HeadersRaw, EmergencyData) are assumed to decode what their #[wire] attributes say (a harness cannot name a fn-local type); "
             "wait_for_mailboxes / wait_for_mailbox_response are extracted whole as well (rule R18): (read, write) mailbox pair in that order, stale-mailbox drain of at most 10 "
             "rounds, both polling loops inside their mailbox_echo / mailbox_response timeout scope (termination, assumption A-TIME-1), the reply is a checked read of exactly the read "
             "mailbox's address and length; a reply left over from an earlier request with the same index/sub-index is not told apart (the counter is not compared); the sdo unit ASSUMES the documented contract "
             "of EtherCrabWireSized::buffer() (PACKED_LEN bytes) - true for every impl except arrays of multi-byte items (known finding C19-A1: sdo_read into [u16; N] etc. is "
             "refused as TooLong); "
             "other header wire layouts are the C19 harnesses",
    ),
    "C16": dict(
        verus=["sdo", "mailbox", "pdo_sums"], kani=["wkc", "mbx"], assumptions=['as C15'], level="proof",
        claim="for an ARBITRARY reply of arbitrary length (wait_for_mailbox_response returns any bytes): mailbox_write_read's header triage (HeadersRaw / emergency / abort "
              "decode, trims) extracted whole, and - against any headers and bytes coming out of it - sdo_read (all three "
              "modes incl. the segmented loop), sdo_read_expedited, sdo_write and the SDO-info fragment loop of send_sdo_info_service never underflow/overflow, "
              "never slice or copy out of bounds, unwrap only Some/Ok, accumulate at most the fixed buffer and TERMINATE (decreases: bytes left resp. "
              "responses left) - Verus automatic obligations on the verbatim code; ReceivedPdu::trim_front keeps the view inside the datagram (Kani)",
        note="sdo_info_object_description_list / quantities decode the accumulated buffer through derive output (C19)",
    ),
    "C17": dict(
        verus=["dc_params", "dc_latch", "dc_parent"], kani=["ports", "dc"], assumptions=['tree harnesses are bounded in the number of devices (listed)', 'latch_dc_times changes times only (assumed)', "R19: integer `as` casts carry Rust's truncating meaning"], level="proof",
        claim="write_dc_parameters extracted WHOLE (Verus, every u64 receive time and master time): the offset sent to 0x0920 of the device's own station address is (master time - latched receive time) in 64-bit two's complement, the propagation delay computed for it goes to 0x0928, no overflow; configure_subdevice_offsets leaf (Kani, bounded: 1 parent + 1 child, all port times symbolic): the accumulated delay never decreases and is always assigned. 4-port functions of Ports proved against closed-form specs for all 16 activity patterns x all u32 times x all downstream assignments "
              "(Kani, unwinding assertions on: complete). Tree level (assign_parent_relationships / find_subdevice_parent / configure_subdevice_offsets): "
              "bounded stand-ins for N<=2 devices with symbolic link reports and N=3 chain with symbolic link delays (thorough) - labelled bounded, not counted as proved",
        note="configure_dc is extracted whole as well: the reference clock returned is the FIRST DC-capable device in frame-processing order (None iff there is none) and "
             "every DC-capable device is programmed against ONE master time (find/filter adapters as contract-carrying stand-ins, the closures proved to decide DC support); "
             "latch_dc_times (iterator adapters) is assumed to change times only; N>3 device trees not explored; "
             "Verus models `as i64` of a u64 only when the cast is marked truncating (logged substitution, same meaning as Rust's)",
    ),
    "C08": dict(
        verus=["pdi_config", "group_config", "sm_config", "pdo_sums"], kani=["pdi_guards"], assumptions=['configure_pdos_eeprom / configure_pdos_coe are ASSUMED to return the segment [offset in, offset out) with offset out >= offset in (iterator adapters)', 'ESC hardware semantics of sync managers and FMMUs'], level="proof",
        claim="SubDeviceGroup::configure_fmmus extracted WHOLE (Verus, any number of devices, any sizes): on Ok the windows tile the image in group order - inputs "
              "[pos_i, pos_i+1) from 0 up to read_pdi_len, then outputs from read_pdi_len up to pdi_len (all inputs before all outputs, mutually disjoint, inside the image) - "
              "and read_pdi_len <= pdi_len <= MAX_PDI (the precondition C07's cycle relies on), so a layout that does not fit can only end in an error; "
              "SubDeviceRef::configure_fmmus extracted whole: the window recorded for the direction is exactly [offset given - image start, offset returned - image start), the "
              "other direction untouched; SubDeviceGroupRef::into_pre_op: the group's image starts at the given logical address and the next group's exactly MAX_PDI further "
              "(disjoint images), for MAX_PDI < 64 KiB. PdiOffset::{increment, increment_byte_aligned, up_to} (ceil(bits/8) bytes, no overflow under the stated bound) and SubDeviceRef::write_fmmu_config, "
              "verbatim (Verus): the FMMU written goes to THIS device's own station address and the register of the chosen FMMU, maps "
              "[offset_before, +SM length) onto the sync manager's physical start with read/write enable per direction (or extends an already enabled "
              "mapping by the SM length, refusing > 65535), and the running offset advances by exactly ceil(bits/8)",
        note="NOT decided here: the SM loops of configure_pdos_eeprom / configure_pdos_coe (iterator adapters: bit-length sums, oversampling) - ASSUMED to return the "
             "segment [offset in, offset out) - and the PDI guards of src/subdevice/pdi.rs; the group-level unit sees the per-device step through the abstraction "
             "`window_assigned` of the contract proved in pdi_config; ESC hardware semantics assumed",
    ),
    "C09": dict(
        verus=["init_addr", "state_wait", "eeprom_device", "reset_seq"], kani=["eeprom_alias", "groups"], assumptions=['the devices are not modelled: register writes and reads are observed through uninterpreted predicates', "SubDevice::new is verified as two fragments (head: unit state_wait, tail: unit init_addr); the statements between them (name lookup from the EEPROM strings: C12) are not part of either", 'reset_subdevices sees blank_memory through the contract proved in unit group_cycle; the ORDER of its writes is not decided'], level="proof",
        claim="the two per-position loops of MainDevice::init, verbatim fragments (Verus, any n): Ok => the device at EVERY ring position i < n was sent "
              "APWR(auto-increment address 0-i, register 0x0010) <- 0x1000+i, the addresses are pairwise distinct; then exactly n SubDevice::new(i, 0x1000+i) "
              "in ring order are stored; n > MAX_SUBDEVICES is Err(Capacity) - never a panic or a silent truncation; Command::apwr negates the position; ORDER: every "
              "position has been addressed before any device is read out through its station address (contract written for the split and for the merged loop structure); "
              "SubDevice::new from its register reads to the record (fragment): alias from 0x0012, DC capability from the feature flags at 0x0008, ports from the DL status at "
              "0x0110 in EtherCAT order 0,3,1,2 - all read from the device's own station address; ring position and address as given; mailbox counter initialised to 1",
        note="PARTIAL claim. count_subdevices (= the working counter of one broadcast read; unit state_wait) is under contract. reset_subdevices is extracted WHOLE (unit reset_seq: INIT + error acknowledge broadcast, all 16 FMMU and all 16 SM records blanked with their record length, the eight DC registers with their widths, control-loop parameters 3 and 1; the ORDER of these writes is not decided). The front part of SubDevice::new (device seen in INIT, EEPROM ownership, identity read from THAT device) is the fragment subdevice_new_head of unit state_wait. NOT decided: the name lookup between the two fragments (see C12), "
             "the group filter / FnvIndexMap part ('every device in exactly one group'; closures and dyn), PRE-OP arrival (device behaviour), the n == 0 early "
             "return (outside the fragments). A device model would be a different technique family.",
    ),
    "C10": dict(
        verus=["group_cycle", "wrapped", "pdi_config", "state_wait", "group_typestate"], kani=["summaries"], assumptions=['A-TIME-1: an await inside a timeout scope that suspends takes positive time; TimeoutFuture::poll tests its timer whenever the task is resumed (rule R18 model)', 'ECHO-SHAPE network assumption for is_state', 'per-device request seen through the abstraction `state_requested` of the contract proved in pdi_config'], level="proof",
        claim="wait_for_state extracted WHOLE with its timeout scope made explicit (rule R18): Ok only if one sweep found every member in the requested state, and the polling "
              "loop lies inside the state-transition timeout scope with the remaining time as its termination measure (a stalled device ends in the timeout error, not in an "
              "endless loop); transition_to's request loop + wait as one fragment: Ok only if the request was written to and acknowledged by EVERY member and every member then "
              "reported the state; request_subdevice_state_nowait (own station address, error flag refused; unit pdi_config); TxRxResponse summaries (Kani, every 4-bit state per "
              "device, groups of 1..=3): is_in_state / all_op / group_in_single_state say exactly what every device reported, group_state is the union of the state bits. "
              "SubDeviceGroup::is_state, verbatim (Verus, any group size, any frame size >= one state check): Ok(true) only if EVERY SubDevice of the group "
              "answered an AL-status read addressed to its own configured address with the requested state; the loop terminates and checks exactly len() "
              "devices (the debug_assert is proved); push_state_checks sends the reads in group order; the checked exchanges it rests on are the C11 contracts",
        note="network = echo-shape assumption (a reply has the datagram boundaries of the request; contents arbitrary). Time: assumption A-TIME-1 (an await inside a timeout scope that "
             "suspends takes positive time; TimeoutFuture::poll tests its timer on every resume) - real time is not modelled. 'To no device outside the group' is structural "
             "(the loop runs over the group's own list; effects are observed through positive predicates). MainDevice::wait_for_state (broadcast read expecting exactly n answers, error bit => "
             "Err(StateTransition), under the state-transition timeout) and SubDeviceRef::wait_for_state are extracted whole too (unit state_wait). NOT decided: summaries for "
             "groups larger than 3",
    ),
    "C11": dict(
        verus=["wrapped"], kani=["wkc"], assumptions=['MainDevice::single_pdu (`common`) returns an arbitrary datagram or an error (`net_failed`)'], level="proof",
        claim="ReceivedPdu::wkc/maybe_wkc proved for every counter/expected value (Kani, loop-free, complete); WrappedRead/WrappedWrite "
              "constructors and receive/receive_slice/receive_wkc/send_receive/send_receive_slice proved against an arbitrary network answer (Verus): "
              "Ok(_) implies the counter was accepted by the configured expectation",
        note="network (MainDevice::single_pdu) abstracted as an arbitrary datagram; callers of the wrapped methods not yet under contract",
    ),
    "C12": dict(
        verus=["eeprom_range", "subdevice_eeprom", "eeprom_items", "eeprom_device"], kani=["eeprom_alias"], assumptions=['EEPROM provider contract: read_chunk(w) returns mem[2w .. 2w+k), k in {4, 8}, and does not change the memory', 'derive-generated decoders are uninterpreted functions of the bytes (their layouts: C19)'], level="proof",
        claim="EepromRange::{new,skip_ahead_bytes,read_byte,read} proved against the provider's ghost memory for every position, window, buffer length and chunk size "
              "(Verus, unbounded loop invariant): read returns exactly mem[pos..pos+n), n = min(len, window left), never beyond the window; the dependency's read_exact on top of it; "
              "SubDeviceEeprom::start_at (window = length rounded up to a word), size (from word 0x3e), category (walk with termination measure); find_string's body from the count byte "
              "to the raw bytes as one fragment: None iff index >= count, otherwise exactly the bytes stored for that string (offset = sum of the preceding length bytes), refused "
              "as too long only when really longer than the destination (a string of exactly the capacity is delivered); category, BOTH directions: the result is Some(window of header h) iff the walk over the stored chain (unknown categories "
              "skipped by their length word, End marker, the documented give-up after 32 empty categories or at the end of the 64 Ki word space) finds a header of the requested "
              "type, h being the FIRST such header - a present category is never reported missing; identity / mailbox_config / general decode exactly the 16 / 10 / 18 "
              "bytes at word 0x0008 / word 0x0018 / the start of the General category; CategoryIterator::{next, next_sub_item}: an item is decoded from exactly the next "
              "PACKED_LEN bytes of the window; pdos: a PDO's bit length is the sum over exactly its num_entries entries (<= 255 each)",
        note="provider (hardware) contract assumed: read_chunk(w) returns mem[2w..2w+k], k in {4,8}; find_string's NUL removal / non-ASCII replacement (iterator adapters) and the "
             "derive-decoded items (sync managers, FMMUs, PDOs, general, identity: wire layouts = C19) are not under a functional contract",
    ),
    "C13": dict(
        verus=["eeprom_range", "subdevice_eeprom", "eeprom_items", "pdi_config", "pdo_sums"], kani=[], assumptions=['as C12', 'the repaired PDO bit-length sum of configure_pdos_eeprom is guarded by its demonstration, not by a contract'], level="proof",
        claim="no overflow / out-of-bounds / panic and termination of EepromRange::{new,skip_ahead_bytes,read_byte,read,write}, read_exact, write_all, start_at, size, the "
              "category walk (terminates: measure 0x10000 - word address; no overflow of the chain) and the find_string fragment (incl. the SAFETY condition of the unsafe "
              "set_len: length <= capacity, carried as a precondition - rule R17), and the item loops pdos / fmmu_mappings / sync_managers (terminate: every item "
              "consumes window bytes; capacity errors instead of panics; bit-length sum cannot overflow) for arbitrary memory contents (Verus automatic obligations)",
        note="provider contract assumed; PdiOffset::increment_byte_aligned and write_fmmu_config (unit pdi_config) take ANY 16-bit bit length without overflow; the PDO "
             "bit-length sum of configure_pdos_eeprom itself (iterator adapters: filter/map/try_fold) is not under contract - its repair (D28) is guarded by the demonstration only",
    ),
}

"""property -> contract units.  verus: template names under contracts/verus; kani: group names under contracts/kani."""
NOTES = ("Every check regenerates its Verus units from /repo's working tree and re-injects its Kani harness modules into a fresh "
         "scratch copy on every run. Exit 2 (never an alarm) = lost anchor / unsupported construct / resource limit.")

NOT_APPLICABLE = {
    "C20": "two-run (hyper)property over all interleavings of >=2 async tasks judged against a sequential oracle; no function "
           "contract expresses 'same result as running alone', Kani has no threads and Verus would need the PDU loop rewritten "
           "with its own permission-carrying atomics (no longer the code that runs). The sequential ingredients are claimed "
           "under C01 (routing), C02 (exclusion), C07 (per-group image).",
}

PLAN = {
    "C06": dict(
        verus=[], kani=["slots"], level="proof",
        claim="poll decision table + drop, all states",
        note="wip",
    ),
    "C01": dict(
        verus=[], kani=["slots", "wkc"], level="proof",
        claim="first_pdu / trim_front / wkc on real pointers",
        note="wip",
    ),
    "C02": dict(
        verus=[], kani=["slots"], level="proof",
        claim="per-operation contracts of the slot protocol on the real slot (Kani, all 8 states, loop-free)",
        note="interleaving + memory-model assumption; protocol lemma pending",
    ),
    "C19": dict(
        verus=[], kani=["@wire"], level="translation_validation",
        claim="every #[derive(EtherCrabWire*)] type in /repo/src: the derive OUTPUT is validated against a layout computed independently from the "
              "#[wire] attributes, for all byte strings (Kani, loop-free, complete per type)",
        note="the proc-macro program itself is not verified; generic types and write-only derives are skipped and listed",
    ),
    "C17": dict(
        verus=[], kani=["ports", "dc"], level="proof",
        claim="4-port functions of Ports proved against closed-form specs for all 16 activity patterns x all u32 times x all downstream assignments "
              "(Kani, unwinding assertions on: complete). Tree level (assign_parent_relationships / find_subdevice_parent / configure_subdevice_offsets): "
              "bounded stand-ins for N<=2 devices with symbolic link reports and N=3 chain with symbolic link delays (thorough) - labelled bounded, not counted as proved",
        note="write_dc_parameters offset expression and the reference-clock clause (async fns) not decided here; N>3 device trees not explored",
    ),
    "C11": dict(
        verus=["wrapped"], kani=["wkc"], level="proof",
        claim="ReceivedPdu::wkc/maybe_wkc proved for every counter/expected value (Kani, loop-free, complete); WrappedRead/WrappedWrite "
              "constructors and receive/receive_slice/receive_wkc/send_receive/send_receive_slice proved against an arbitrary network answer (Verus): "
              "Ok(_) implies the counter was accepted by the configured expectation",
        note="network (MainDevice::single_pdu) abstracted as an arbitrary datagram; callers of the wrapped methods not yet under contract",
    ),
    "C12": dict(
        verus=["eeprom_range", "subdevice_eeprom"], kani=[], level="proof",
        claim="EepromRange::{new,skip_ahead_bytes,read_byte,read} proved against the provider's ghost memory for every position, window, buffer length and chunk size (Verus, unbounded loop invariant)",
        note="provider (hardware) contract assumed: read_chunk(w) returns mem[2w..2w+k], k in {4,8}",
    ),
    "C13": dict(
        verus=["eeprom_range", "subdevice_eeprom"], kani=[], level="proof",
        claim="no overflow / out-of-bounds / panic and termination of the EepromRange functions for arbitrary memory contents (Verus automatic obligations)",
        note="provider contract assumed; category walk not yet under contract",
    ),
}

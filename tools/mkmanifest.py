#!/usr/bin/env python3
"""regenerate MANIFEST.json from tools/plan.py (single source of truth for the property -> unit table)"""
import json, os, sys
sys.path.insert(0, os.path.dirname(__file__))
import plan

props = [json.loads(l) for l in open(os.path.join(os.path.dirname(__file__), "..", "properties.jsonl"))]
checks = []
na = []
for p in props:
    pid = p["id"]
    if pid in plan.PLAN:
        P = plan.PLAN[pid]
        checks.append(dict(
            property_id=pid,
            quick_cmd=f"./check {pid} --tier quick",
            thorough_cmd=f"./check {pid} --tier thorough",
            evidence_file=f"/verif/evidence/{pid}.json",
            replay_cmd_template=f"./check {pid} --replay {{path}}",
            engine="contracts",
            level_claimed=dict(category=P.get("level", "proof"), text=P["claim"], design_ref=P.get("design_ref", "DESIGN.md section 3 " + pid)),
            level_note=P["note"],
            technique=P.get("technique", "contract-based deductive verification (Verus on mechanically extracted functions; Kani function-level harnesses on the real crate)"),
        ))
    else:
        na.append(dict(property_id=pid, reason=plan.NOT_APPLICABLE.get(pid, "no contract unit built yet for this property (work in progress; see DESIGN.md section 3)")))
m = dict(
    version=1,
    setup_cmd="python3 tools/setup.py",
    hooks=dict(
        guard="kani",
        enable="no source hooks in /repo: checks copy /repo's working tree to a scratch directory and add cfg(kani) child modules there; Verus units are extracted from the working tree on every run",
        baseline_off_cmd="cd /repo && cargo test --workspace --no-fail-fast --offline",
        source_commits=[],
        add_only=True,
    ),
    engines=[dict(name="contracts", path="/verif/check", serves_properties=[c["property_id"] for c in checks],
                  kind_free_text="contract-based deductive verification: Verus (SMT, unbounded) on functions extracted mechanically from /repo each run; Kani/CBMC function-level harnesses and contracts on a scratch copy of the real crate")],
    checks=checks,
    notes=plan.NOTES,
    not_applicable=na,
)
json.dump(m, open(os.path.join(os.path.dirname(__file__), "..", "MANIFEST.json"), "w"), indent=1)
print("checks:", [c["property_id"] for c in checks], "n/a:", [n["property_id"] for n in na])

#!/usr/bin/env python3
"""gen_wire_harness — C19: one Kani harness per `#[derive(EtherCrabWire*)]` item found in /repo/src.

The bit position of every field is computed HERE from the `#[wire(...)]` attributes, independently of
ethercrab-wire-derive/src/parse_struct.rs; the harness then checks the derive OUTPUT (the code that runs) against
that layout for all byte strings:  unpack reads exactly the declared bits, pack places them there and zeroes the
rest, unpack(pack(x)) == x, short buffers are errors, undefined enum values follow the declared fallback.
All harnesses are loop-free (fixed-size arrays) => complete per type.
"""
import os
import re
import sys

sys.path.insert(0, os.path.dirname(__file__))
from rsx import Src, match_close, tokenize  # noqa: E402

PRIM = {"u8": 1, "u16": 2, "u32": 4, "u64": 8, "i8": 1, "i16": 2, "i32": 4, "i64": 8}


def attr_list(src, lo, hi):
    """attributes in toks[lo:hi] as list of token lists (contents between #[ and ])"""
    out = []
    i = lo
    while i < hi:
        if src.toks[i].text == "#" and src.toks[i + 1].text == "[":
            cl = match_close(src.toks, i + 1)
            out.append(src.toks[i + 2:cl])
            i = cl + 1
        else:
            i += 1
    return out


def wire_kv(attr_toks):
    """#[wire(a = 1, b, c = [1,2])] -> dict"""
    if not attr_toks or attr_toks[0].text != "wire":
        return None
    d = {}
    toks = attr_toks[2:-1]
    i = 0
    while i < len(toks):
        k = toks[i].text
        if i + 1 < len(toks) and toks[i + 1].text == "=":
            if toks[i + 2].text == "[":
                j = i + 3
                vals = []
                neg = False
                while toks[j].text != "]":
                    if toks[j].text == "-":
                        neg = True
                    elif toks[j].kind == "lit":
                        v = parse_int(toks[j].text)
                        vals.append(-v if neg else v)
                        neg = False
                    j += 1
                d[k] = vals
                i = j + 1
            else:
                d[k] = parse_int(toks[i + 2].text)
                i += 3
        else:
            d[k] = True
            i += 1
        if i < len(toks) and toks[i].text == ",":
            i += 1
    return d


def parse_int(t):
    t = t.replace("_", "")
    t = re.sub(r"(u|i)(8|16|32|64|128|size)$", "", t)
    return int(t, 0)


def width_bits(kv):
    if kv is None:
        return None
    if "bits" in kv:
        return kv["bits"]
    if "bytes" in kv:
        return kv["bytes"] * 8
    return None


def scan_file(path):
    src = Src(path)
    items = []
    toks = src.toks
    # skip `mod tests { .. }` bodies: top_level_items never descends into braces, so nested test modules are skipped
    for i in src.top_level_items():
        t = toks[i]
        if t.kind == "ident" and t.text in ("struct", "enum") and toks[i + 1].kind == "ident":
            name = toks[i + 1].text
            # walk back over `pub` / `pub(crate)`
            s = i
            while s - 1 >= 0 and toks[s - 1].text in ("pub", ")"):
                if toks[s - 1].text == ")":
                    k = s - 1
                    while toks[k].text != "(":
                        k -= 1
                    s = k - 1 if toks[k - 1].text == "pub" else s
                    if toks[s].text != "pub":
                        break
                else:
                    s -= 1
            a0 = src.attrs_before(s)
            attrs = attr_list(src, a0, s)
            derives = set()
            cfg_test = False
            for a in attrs:
                if a and a[0].text == "derive":
                    derives.update(x.text for x in a if x.kind == "ident")
                if a and a[0].text == "cfg" and any(x.text == "test" for x in a):
                    cfg_test = True
            wire = [d for d in derives if d.startswith("EtherCrabWire")]
            if not wire or cfg_test:
                continue
            generic = toks[i + 2].text == "<"
            ob = src.next_open_brace(i)
            if ob is None:
                continue
            cb = match_close(toks, ob)
            it = dict(kind=t.text, name=name, derives=derives, file=path, line=src.line_of(t.start), generic=generic,
                      read=any(d in ("EtherCrabWireRead", "EtherCrabWireReadWrite") for d in wire),
                      write=any(d in ("EtherCrabWireWrite", "EtherCrabWireReadWrite") for d in wire))
            top = None
            repr_ty = None
            for a in attrs:
                kv = wire_kv(a)
                if kv is not None:
                    top = kv
                if a and a[0].text == "repr":
                    for x in a[1:]:
                        if x.text in PRIM:
                            repr_ty = x.text
            it["bits"] = width_bits(top)
            it["repr"] = repr_ty
            if t.text == "struct":
                it["fields"] = parse_fields(src, ob, cb)
            else:
                it["variants"] = parse_variants(src, ob, cb)
            items.append(it)
    return items


def parse_fields(src, ob, cb):
    toks = src.toks
    fields = []
    i = ob + 1
    while i < cb:
        a0 = i
        while toks[i].text == "#" and toks[i + 1].text == "[":
            i = match_close(toks, i + 1) + 1
        attrs = attr_list(src, a0, i)
        # visibility
        if toks[i].text == "pub":
            i += 1
            if toks[i].text == "(":
                i = match_close(toks, i) + 1
        if i >= cb:
            break
        name = toks[i].text
        assert toks[i + 1].text == ":", (src.path, name)
        j = i + 2
        depth = 0
        ty = []
        while j < cb:
            x = toks[j]
            if x.text in "<([":
                depth += 1
            elif x.text in ">)]":
                depth -= 1
            elif x.text == "," and depth == 0:
                break
            ty.append(x.text)
            j += 1
        kv = {}
        for a in attrs:
            k = wire_kv(a)
            if k is not None:
                kv.update(k)
        fields.append(dict(name=name, ty="".join(ty), ty_toks=ty, kv=kv))
        i = j + 1
    return fields


def parse_variants(src, ob, cb):
    toks = src.toks
    out = []
    i = ob + 1
    prev = None
    while i < cb:
        a0 = i
        while toks[i].text == "#" and toks[i + 1].text == "[":
            i = match_close(toks, i + 1) + 1
        attrs = attr_list(src, a0, i)
        if i >= cb:
            break
        name = toks[i].text
        i += 1
        payload = False
        if toks[i].text == "(":
            payload = True
            i = match_close(toks, i) + 1
        disc = None
        if toks[i].text == "=":
            neg = False
            i += 1
            if toks[i].text == "-":
                neg = True
                i += 1
            disc = parse_int(toks[i].text)
            disc = -disc if neg else disc
            i += 1
        if disc is None:
            disc = 0 if prev is None else prev + 1   # Rust semantics
        kv = {}
        default = False
        for a in attrs:
            k = wire_kv(a)
            if k is not None:
                kv.update(k)
            if a and a[0].text == "default":
                default = True
        out.append(dict(name=name, disc=disc, payload=payload, catch_all=bool(kv.get("catch_all")), default=default,
                        alternatives=kv.get("alternatives", [])))
        prev = disc
        if toks[i].text == ",":
            i += 1
    return out


def layout(item):
    """independent layout computation: returns list of (field, bit_start, width) for non-skipped fields"""
    pos = 0
    out = []
    for f in item["fields"]:
        kv = f["kv"]
        if kv.get("skip"):
            out.append((f, None, None))
            continue
        pre = kv.get("pre_skip", 0) + 8 * kv.get("pre_skip_bytes", 0)
        post = kv.get("post_skip", 0) + 8 * kv.get("post_skip_bytes", 0)
        w = width_bits(kv)
        if w is None:
            w = PRIM.get(f["ty"], None)
            w = None if w is None else w * 8
        pos += pre
        out.append((f, pos, w))
        pos += (w or 0) + post
    return out, pos


def gen_struct(item):
    name = item["name"]
    lay, total = layout(item)
    if item["bits"] is None or any(w is None for (f, s, w) in lay if s is not None):
        return None, f"{name}: width not determinable"
    nbytes = (item["bits"] + 7) // 8
    L = []
    hname = f"wire_{snake(name)}"
    L.append(f"//@h name={hname} props=C19 fn={rel(item['file'])}::{name} obligation=\"derived layout of {name}: {describe(lay)} ({item['bits']} bits)\"")
    L.append("#[cfg_attr(kani, kani::proof)]")
    L.append("#[cfg_attr(all(test, verif_replay), test)]")
    L.append(f"fn {hname}() {{")
    L.append(f"    // layout computed by /verif/tools/gen_wire_harness.py: total declared {total} bits, struct attribute {item['bits']} bits")
    L.append(f"    assert!({total} == {item['bits']});")
    L.append(f"    let b: [u8; {nbytes + 2}] = vk::any_array();")
    L.append(f"    assert!(<{name} as EtherCrabWireSized>::PACKED_LEN == {nbytes});")
    if not item["read"]:
        return None, f"{name}: write-only derive (value construction not generated)"
    if nbytes > 0:
        L.append(f"    assert!(matches!(<{name} as EtherCrabWireRead>::unpack_from_slice(&b[..{nbytes - 1}]), Err(WireError::ReadBufferTooShort)));")
    L.append(f"    // a longer buffer is accepted and only the first {nbytes} bytes matter")
    L.append(f"    let r = <{name} as EtherCrabWireRead>::unpack_from_slice(&b[..]);")
    L.append(f"    let r_exact = <{name} as EtherCrabWireRead>::unpack_from_slice(&b[..{nbytes}]);")
    L.append("    assert!(r.is_ok() == r_exact.is_ok());")
    head_len = len(L)          # the completeness clause and the `if let` line are inserted here once the nested fields are known
    nested_ok = []
    declmask = [0] * nbytes
    canonical = True
    checks_w = []
    for (f, s, w) in lay:
        if s is None:
            continue
        for bit in range(s, s + w):
            declmask[bit // 8] |= 1 << (bit % 8)
        fn = f["name"]
        ty = f["ty"]
        bs, be = s // 8, (s + w + 7) // 8
        off = s % 8
        acc = f"{{ v.{fn} }}"
        if w <= 8 and be - bs == 1:
            mask = (1 << w) - 1
            raw = f"((b[{bs}] >> {off}) & {mask:#x})"
            if ty == "bool":
                L.append(f"        assert!({acc} == ({raw} != 0));")
                checks_w.append(f"        assert!(((p[{bs}] >> {off}) & {mask:#x}) == (({acc} as u8) & {mask:#x}));")
                if w > 1:
                    canonical = False
            elif ty == "u8":
                L.append(f"        assert!({acc} == {raw});")
                checks_w.append(f"        assert!(((p[{bs}] >> {off}) & {mask:#x}) == ({acc} & {mask:#x}));")
            elif ty in PRIM:
                # single byte slot holding a wider primitive: decoded through the primitive's impl from one byte
                L.append(f"        // {fn}: {ty} in a {w}-bit slot (not compared bit-exactly)")
                canonical = False
            else:
                L.append(f"        assert!(<{ty} as EtherCrabWireRead>::unpack_from_slice(&[{raw}]).is_ok());")
                nested_ok.append(f"<{ty} as EtherCrabWireRead>::unpack_from_slice(&[{raw}]).is_ok()")
                canonical = False
                checks_w.append(("NESTED1", fn, ty, bs, off, mask))
        else:
            if off != 0 or w % 8 != 0:
                return None, f"{name}.{fn}: multi-byte field not byte aligned (the derive must reject this)"
            if ty in PRIM and PRIM[ty] == be - bs:
                L.append(f"        assert!({acc} == {ty}::from_le_bytes([{', '.join(f'b[{k}]' for k in range(bs, be))}]));")
                checks_w.append(f"        assert!({ty}::from_le_bytes([{', '.join(f'p[{k}]' for k in range(bs, be))}]) == {acc});")
            elif re.fullmatch(r"\[u8;(\d+)\]", ty) and int(re.fullmatch(r"\[u8;(\d+)\]", ty).group(1)) == be - bs:
                L.append(f"        assert!({acc}[..] == b[{bs}..{be}]);")
                checks_w.append(f"        assert!(p[{bs}..{be}] == {acc}[..]);")
            else:
                L.append(f"        assert!(<{ty} as EtherCrabWireRead>::unpack_from_slice(&b[{bs}..{be}]).is_ok());")
                nested_ok.append(f"<{ty} as EtherCrabWireRead>::unpack_from_slice(&b[{bs}..{be}]).is_ok()")
                canonical = False
                checks_w.append(("NESTEDN", fn, ty, bs, be))
    # completeness (two-sided): a buffer of PACKED_LEN bytes or more is refused only because a nested field's own bytes do not
    # decode (an enum value without a variant); with primitive fields only it ALWAYS decodes
    cond = " && ".join(nested_ok) if nested_ok else "true"
    L[head_len:head_len] = [
        f"    assert!(r.is_ok() == ({cond}), \"a buffer of PACKED_LEN bytes or more decodes unless a nested field's own bytes do not\");",
        "    if let Ok(v) = r {",
    ]
    if item["write"]:
        if canonical:
            L.append(f"        let p0 = <{name} as EtherCrabWireWriteSized>::pack(&v);")
            for k in range(nbytes):
                L.append(f"        assert!(p0[{k}] == b[{k}] & {declmask[k]:#04x}); // pack(unpack(b)) == declared bits of b")
        L.append("        // every primitive field now takes an arbitrary value of its Rust type (also ones wider than the slot)")
        L.append("        let mut v = v;")
        for (f, s_, w_) in lay:
            if s_ is None:
                continue
            if f["ty"] in PRIM or f["ty"] == "bool":
                L.append(f"        v.{f['name']} = vk::any();")
        L.append(f"        let p = <{name} as EtherCrabWireWriteSized>::pack(&v);")
        L.append(f"        assert!(p.len() == {nbytes} && <{name} as EtherCrabWireWrite>::packed_len(&v) == {nbytes});")
        for k in range(nbytes):
            if declmask[k] != 0xFF:
                L.append(f"        assert!(p[{k}] & {(~declmask[k]) & 0xFF:#04x} == 0); // undeclared bits are zero")
        for c in checks_w:
            if isinstance(c, str):
                L.append(c)
            elif c[0] == "NESTEDN":
                _, fn, ty, bs, be = c
                L.append(f"        {{ let mut fb = [0u8; {be - bs}]; <{ty} as EtherCrabWireWrite>::pack_to_slice_unchecked(&{{ v.{fn} }}, &mut fb); assert!(p[{bs}..{be}] == fb[..]); }}")
            elif c[0] == "NESTED1":
                _, fn, ty, bs, off, mask = c
                L.append(f"        {{ let mut fb = [0u8; 1]; <{ty} as EtherCrabWireWrite>::pack_to_slice_unchecked(&{{ v.{fn} }}, &mut fb); assert!(((p[{bs}] >> {off}) & {mask:#x}) == (fb[0] & {mask:#x})); }}")
        L.append(f"        let w = <{name} as EtherCrabWireRead>::unpack_from_slice(&p);")
        L.append("        assert!(w.is_ok());")
        L.append(f"        let p2 = <{name} as EtherCrabWireWriteSized>::pack(&w.unwrap());")
        L.append("        assert!(p2 == p); // unpack(pack(x)) packs to the same bytes: the value round-trips")
        L.append(f"        let mut short = [0u8; {max(nbytes - 1, 0)}];")
        if nbytes > 0:
            L.append(f"        assert!(matches!(<{name} as EtherCrabWireWrite>::pack_to_slice(&v, &mut short), Err(WireError::WriteBufferTooShort)));")
        L.append(f"        let mut long = [0xffu8; {nbytes + 1}];")
        L.append(f"        assert!(matches!(<{name} as EtherCrabWireWrite>::pack_to_slice(&v, &mut long), Ok(s) if s.len() == {nbytes}));")
        L.append(f"        assert!(long[{nbytes}] == 0xff && long[..{nbytes}] == p[..]);")
    L.append("    }")
    L.append("}")
    return "\n".join(L), None


def describe(lay):
    parts = []
    for (f, s, w) in lay:
        if s is None:
            parts.append(f"{f['name']}:skip")
        else:
            parts.append(f"{f['name']}@{s}+{w}")
    return " ".join(parts)[:400]


def snake(n):
    return re.sub(r"(?<!^)(?=[A-Z])", "_", n).lower()


def rel(p):
    i = p.find("/src/")
    return p[i + 1:] if i >= 0 else p


def gen_enum(item):
    name = item["name"]
    repr_ty = item["repr"]
    if repr_ty is None:
        return None, f"{name}: no primitive repr"
    size = PRIM[repr_ty]
    signed = repr_ty.startswith("i")
    vs = item["variants"]
    catch = [v for v in vs if v["catch_all"]]
    default = [v for v in vs if v["default"]]
    hname = f"wire_{snake(name)}"
    L = []
    table = []
    for v in vs:
        if v["catch_all"]:
            continue
        table.append((v["disc"], v))
        for alt in v["alternatives"]:
            table.append((alt, v))
    desc = ", ".join(f"{d}->{v['name']}" for d, v in table)[:300]
    fb = f"catch_all {catch[0]['name']}(raw)" if catch else (f"default {default[0]['name']}" if default else "InvalidValue")
    L.append(f"//@h name={hname} props=C19 fn={rel(item['file'])}::{name} obligation=\"derived enum {name} repr {repr_ty}: {desc}; otherwise {fb}\"")
    L.append("#[cfg_attr(kani, kani::proof)]")
    L.append("#[cfg_attr(all(test, verif_replay), test)]")
    L.append(f"fn {hname}() {{")
    L.append(f"    let raw: {repr_ty} = vk::any();")
    L.append("    let le = raw.to_le_bytes();")
    L.append(f"    let mut b = [0u8; {size + 1}];")
    L.append(f"    b[..{size}].copy_from_slice(&le);")
    L.append(f"    b[{size}] = vk::any();")
    if item["read"]:
        L.append(f"    assert!(<{name} as EtherCrabWireSized>::PACKED_LEN == {size});")
        L.append(f"    assert!(matches!(<{name} as EtherCrabWireRead>::unpack_from_slice(&b[..{size - 1}]), Err(WireError::ReadBufferTooShort)));")
        L.append(f"    let r = <{name} as EtherCrabWireRead>::unpack_from_slice(&b[..]);")
        L.append("    match raw {")
        seen = set()
        for d, v in table:
            if d in seen:
                continue
            seen.add(d)
            pat = f"{name}::{v['name']}"
            L.append(f"        {d} => assert!(matches!(r, Ok({pat}))),")
        if catch:
            L.append(f"        other => assert!(matches!(r, Ok({name}::{catch[0]['name']}(x)) if x == other)),")
        elif default:
            L.append(f"        _ => assert!(matches!(r, Ok({name}::{default[0]['name']}))),")
        else:
            L.append("        _ => assert!(matches!(r, Err(WireError::InvalidValue))),")
        L.append("    }")
        if item["write"]:
            L.append("    if let Ok(v) = r {")
            L.append(f"        let p = <{name} as EtherCrabWireWriteSized>::pack(&v);")
            L.append(f"        assert!(<{name} as EtherCrabWireWrite>::packed_len(&v) == {size});")
            L.append("        // canonical encoding: the variant's own discriminant (alternatives collapse), raw for the catch-all")
            L.append("        let expect = match raw {")
            seen = set()
            for d, v in table:
                if d in seen:
                    continue
                seen.add(d)
                L.append(f"            {d} => ({v['disc']}{repr_ty}).to_le_bytes(),")
            if catch:
                L.append("            other => other.to_le_bytes(),")
            elif default:
                L.append(f"            _ => ({default[0]['disc']}{repr_ty}).to_le_bytes(),")
            else:
                L.append("            _ => unreachable!(),")
            L.append("        };")
            L.append("        assert!(p == expect);")
            L.append(f"        let w = <{name} as EtherCrabWireRead>::unpack_from_slice(&p);")
            L.append(f"        assert!(matches!(w, Ok(x) if <{name} as EtherCrabWireWriteSized>::pack(&x) == p));")
            L.append(f"        let mut short = [0u8; {size - 1}];")
            L.append(f"        assert!(matches!(<{name} as EtherCrabWireWrite>::pack_to_slice(&v, &mut short), Err(WireError::WriteBufferTooShort)));")
            L.append("    }")
    else:
        return None, f"{name}: write-only enum"
    L.append("}")
    return "\n".join(L), None


def generate(repo, outdir):
    """writes one group file per source file with derived types; returns (list of paths, notes)"""
    os.makedirs(outdir, exist_ok=True)
    notes = []
    paths = []
    n_types = 0
    root = os.path.join(repo, "src")
    for dp, dn, fn in os.walk(root):
        dn[:] = sorted(d for d in dn if d != "std")
        for f in sorted(fn):
            if not f.endswith(".rs"):
                continue
            p = os.path.join(dp, f)
            try:
                items = scan_file(p)
            except Exception as e:  # parse problem in one file: say so, don't guess
                notes.append(f"{rel(p)}: scan failed: {e}")
                continue
            if not items:
                continue
            body = []
            for it in items:
                if it["generic"]:
                    notes.append(f"{it['name']}: generic type skipped")
                    continue
                try:
                    txt, note = gen_struct(it) if it["kind"] == "struct" else gen_enum(it)
                except Exception as e:
                    txt, note = None, f"{it['name']}: generator error {e}"
                if note:
                    notes.append(note)
                if txt:
                    body.append(txt)
                    n_types += 1
            if not body:
                continue
            relp = rel(p)
            gname = "wire_" + re.sub(r"[^a-z0-9]+", "_", relp[4:-3].lower()).strip("_")
            out = os.path.join(outdir, gname + ".rs")
            with open(out, "w") as fh:
                fh.write(f"//@kani host={relp}\n// GENERATED by /verif/tools/gen_wire_harness.py from {relp} — do not edit\n")
                fh.write("use super::*;\nuse crate::verif_vk as vk;\n")
                fh.write("use ethercrab_wire::{EtherCrabWireRead, EtherCrabWireSized, EtherCrabWireWrite, EtherCrabWireWriteSized, WireError};\n\n")
                fh.write("\n\n".join(body) + "\n")
            paths.append(out)
    # ---- corpus of derive inputs that do not occur in the crate: definitions + generated harnesses in one injected module
    corpus = os.path.join(os.path.dirname(os.path.abspath(__file__)), "..", "contracts", "wire_corpus_types.rs")
    if os.path.exists(corpus):
        try:
            items = scan_file(corpus)
        except Exception as e:
            items = []
            notes.append(f"corpus: scan failed: {e}")
        body = []
        for it in items:
            it["file"] = os.path.join(repo, "src", "lib.rs")     # reported location: the module is injected under lib.rs
            try:
                txt, note = gen_struct(it) if it["kind"] == "struct" else gen_enum(it)
            except Exception as e:
                txt, note = None, f"corpus {it['name']}: generator error {e}"
            if note:
                notes.append("corpus " + note)
            if txt:
                body.append(txt.replace("//@h name=wire_", "//@h name=wire_corpus_").replace("\nfn wire_", "\nfn wire_corpus_"))
                n_types += 1
        if body:
            out = os.path.join(outdir, "wire_corpus.rs")
            with open(out, "w") as fh:
                fh.write("//@kani host=src/lib.rs\n// GENERATED by /verif/tools/gen_wire_harness.py from contracts/wire_corpus_types.rs — do not edit\n")
                fh.write("use crate::verif_vk as vk;\n")
                fh.write("use ethercrab_wire::{EtherCrabWireRead, EtherCrabWireSized, EtherCrabWireWrite, EtherCrabWireWriteSized, WireError};\n\n")
                fh.write(open(corpus).read() + "\n\n")
                fh.write("\n\n".join(body) + "\n")
            paths.append(out)
    return paths, notes, n_types


if __name__ == "__main__":
    paths, notes, n = generate(sys.argv[1] if len(sys.argv) > 1 else "/repo", sys.argv[2] if len(sys.argv) > 2 else "/tmp/wire_gen")
    print(n, "types;", len(paths), "files")
    for x in notes:
        print("  note:", x)

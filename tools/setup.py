#!/usr/bin/env python3
"""setup: check that the installed verifiers run offline and warm their caches (nothing is fetched)."""
import os, subprocess, sys, tempfile
here = os.path.dirname(os.path.abspath(__file__))
ok = True
for tool in (["verus", "--version"], ["cargo", "kani", "--version"], ["rsync", "--version"]):
    try:
        subprocess.run(tool, stdout=subprocess.DEVNULL, stderr=subprocess.DEVNULL, check=True)
    except Exception as e:
        print("missing tool:", tool, e)
        ok = False
os.makedirs(os.path.join(here, "..", "evidence", "replay"), exist_ok=True)
os.makedirs(os.path.join(here, "..", ".cache"), exist_ok=True)
d = tempfile.mkdtemp()
open(os.path.join(d, "w.rs"), "w").write("use vstd::prelude::*;\nverus!{ proof fn t() ensures 1 + 1 == 2int {} }\nfn main(){}\n")
r = subprocess.run(["verus", "w.rs"], cwd=d, stdout=subprocess.PIPE, stderr=subprocess.STDOUT, text=True)
print(r.stdout.strip().splitlines()[-1] if r.stdout.strip() else "verus: no output")
ok = ok and r.returncode == 0
sys.exit(0 if ok else 1)

#!/bin/bash
# seed_confirm.sh <seed dir> <module file to include the demo from> : confirm a seeded change in a scratch worktree
#  - lib tests pass with the change, demo fails with it and passes without it
set -u
SEED=$1; MODFILE=$2; NAME=$(basename $SEED)
WT=/tmp/seedwt_$NAME
git -C /repo worktree prune
git -C /repo worktree add -q --detach $WT HEAD || exit 2
cd $WT
export RUSTUP_TOOLCHAIN=1.88.0 CARGO_TARGET_DIR=/repo/target RUST_BACKTRACE=0
echo "#[cfg(test)] #[path = \"$SEED/demo.rs\"] mod seed_demo;" >> $MODFILE
echo "== demo WITHOUT the change"
timeout 300 cargo test --offline --lib seed_demo 2>&1 | grep -E "^test result|^error|^test " | head -6
git apply $SEED/patch.diff || { echo "PATCH DOES NOT APPLY"; cd /; git -C /repo worktree remove --force $WT; exit 2; }
echo "== demo WITH the change"
timeout 300 cargo test --offline --lib seed_demo 2>&1 | grep -E "^test result|^error|panicked" | head -4
echo "== existing lib tests WITH the change (demo excluded)"
cargo test --offline --lib -- --skip seed_demo 2>&1 | grep -E "^test result|^error" | head -3
cd /
git -C /repo worktree remove --force $WT

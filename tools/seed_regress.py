#!/usr/bin/env python3
"""seed_regress.py [name-prefix ...] — quick regression over /verif/seeded: for every stored seed, apply its patch to a scratch copy of
/repo and run the VERUS units of the seed's property (tools/vrun.py, seconds each).  Prints one line per seed:
  CAUGHT-BY-VERUS <units that fail>   |   VERUS-SILENT (needs the Kani part of ./check)   |   PATCH-DOES-NOT-APPLY
Seeds that Verus is silent on are listed at the end; run them through tools/seed_run2.sh (full check incl. Kani)."""
import sys, os, json, subprocess, shutil, glob
sys.path.insert(0, os.path.dirname(__file__))
import plan

VERIF = os.path.dirname(os.path.dirname(os.path.abspath(__file__)))
W = "/tmp/seed_regress_tree"


def run_unit(unit, repo):
    p = subprocess.run([sys.executable, os.path.join(VERIF, "tools", "vrun.py"), unit, repo], capture_output=True, text=True)
    try:
        d = json.loads(p.stdout)
    except Exception:
        return "error", []
    return d.get("status"), [f"{f.get('fn')}:{f.get('kind')}" for f in d.get("failures", [])][:3]


def main():
    pref = sys.argv[1:]
    silent = []
    for sd in sorted(glob.glob(os.path.join(VERIF, "seeded", "*"))):
        name = os.path.basename(sd)
        if not os.path.isdir(sd):
            continue
        if pref and not any(name.startswith(x) for x in pref):
            continue
        prop = name[:3]
        shutil.rmtree(W, ignore_errors=True)
        subprocess.run(["rsync", "-a", "--exclude", "target", "--exclude", ".git", "/repo/", W + "/"], check=True)
        a = subprocess.run(["patch", "-p1", "-s", "-i", os.path.join(sd, "patch.diff")], cwd=W, capture_output=True, text=True)
        if a.returncode != 0:
            print(f"{name}: PATCH-DOES-NOT-APPLY")
            continue
        meta = json.load(open(os.path.join(sd, "meta.json")))
        props = [prop] + [p for p in ("C07", "C13", "C12", "C16") if p != prop and p in str(meta.get("ran", ""))]
        units = []
        for p in props:
            for u in plan.PLAN.get(p, {}).get("verus", []):
                if u not in units:
                    units.append(u)
        hit, errs = [], []
        for u in units:
            st, fl = run_unit(u, W)
            if st == "fail":
                hit.append(f"{u}({', '.join(fl)})")
            elif st != "ok":
                errs.append(u)
        if hit:
            print(f"{name}: CAUGHT-BY-VERUS {'; '.join(hit)}" + (f"  [exit-2 units: {errs}]" if errs else ""))
        else:
            print(f"{name}: VERUS-SILENT" + (f"  [exit-2 units: {errs}]" if errs else ""))
            silent.append(name)
        sys.stdout.flush()
    shutil.rmtree(W, ignore_errors=True)
    print("\nVERUS-SILENT seeds (run the full check on them):", " ".join(silent))


if __name__ == "__main__":
    main()

#!/usr/bin/env python3
"""rsx — a small Rust tokenizer and item locator.

Used by vgen.py (Verus unit generation) and kinject.py (Kani contract injection).  It never
re-prints code: every consumer works on *byte offsets into the original text* so that extracted
items are verbatim copies plus an explicit list of edits.
"""
import re
from dataclasses import dataclass


class LostAnchor(Exception):
    """An item / loop / anchor named by a contract file is not present in the source."""


@dataclass
class Tok:
    kind: str   # ident | punct | lit | lifetime | comment
    text: str
    start: int
    end: int


_IDENT = re.compile(r"[A-Za-z_][A-Za-z0-9_]*")
_NUM = re.compile(r"[0-9][0-9A-Za-z_]*(\.[0-9][0-9A-Za-z_]*)?")


def tokenize(src, keep_comments=False):
    toks = []
    i, n = 0, len(src)
    while i < n:
        c = src[i]
        if c.isspace():
            i += 1
            continue
        if src.startswith("//", i):
            j = src.find("\n", i)
            j = n if j < 0 else j
            if keep_comments:
                toks.append(Tok("comment", src[i:j], i, j))
            i = j
            continue
        if src.startswith("/*", i):
            depth, j = 1, i + 2
            while j < n and depth:
                if src.startswith("/*", j):
                    depth += 1
                    j += 2
                elif src.startswith("*/", j):
                    depth -= 1
                    j += 2
                else:
                    j += 1
            if keep_comments:
                toks.append(Tok("comment", src[i:j], i, j))
            i = j
            continue
        # raw strings / byte strings
        m = re.match(r"(b|c)?r(#*)\"", src[i:i + 40])
        if m:
            hashes = m.group(2)
            close = '"' + hashes
            j = src.find(close, i + m.end())
            if j < 0:
                raise ValueError("unterminated raw string")
            j += len(close)
            toks.append(Tok("lit", src[i:j], i, j))
            i = j
            continue
        if c == '"' or (c in "bc" and i + 1 < n and src[i + 1] == '"'):
            j = i + (2 if c in "bc" else 1)
            while j < n and src[j] != '"':
                j += 2 if src[j] == "\\" else 1
            j += 1
            toks.append(Tok("lit", src[i:j], i, j))
            i = j
            continue
        if c == "'" or (c == "b" and i + 1 < n and src[i + 1] == "'"):
            k = i + (1 if c == "b" else 0)
            # char literal or lifetime?
            if src[k + 1] == "\\":
                j = k + 2
                while src[j] != "'":
                    j += 1
                j += 1
                toks.append(Tok("lit", src[i:j], i, j))
                i = j
                continue
            if k + 2 < n and src[k + 2] == "'":
                j = k + 3
                toks.append(Tok("lit", src[i:j], i, j))
                i = j
                continue
            m = _IDENT.match(src, k + 1)
            if m:
                toks.append(Tok("lifetime", src[i:m.end()], i, m.end()))
                i = m.end()
                continue
            # multi-byte char literal like '✓'
            j = src.find("'", k + 1) + 1
            toks.append(Tok("lit", src[i:j], i, j))
            i = j
            continue
        m = _IDENT.match(src, i)
        if m:
            toks.append(Tok("ident", m.group(0), i, m.end()))
            i = m.end()
            continue
        m = _NUM.match(src, i)
        if m:
            # don't swallow `0..n` as a float
            txt = m.group(0)
            if "." in txt and src[i + txt.index(".") + 1:i + txt.index(".") + 2] == ".":
                txt = txt[:txt.index(".")]
            if "." in txt and not txt.split(".")[1][0].isdigit():
                txt = txt[:txt.index(".")]
            toks.append(Tok("lit", txt, i, i + len(txt)))
            i += len(txt)
            continue
        toks.append(Tok("punct", c, i, i + 1))
        i += 1
    return toks


OPEN = {"{": "}", "(": ")", "[": "]"}
CLOSE = {v: k for k, v in OPEN.items()}


def match_close(toks, i):
    """toks[i] is an opening bracket; return index of its closer."""
    assert toks[i].text in OPEN, toks[i]
    depth = 0
    for j in range(i, len(toks)):
        t = toks[j]
        if t.kind != "punct":
            continue
        if t.text in OPEN:
            depth += 1
        elif t.text in CLOSE:
            depth -= 1
            if depth == 0:
                return j
    raise ValueError("unbalanced")


def norm(s):
    """whitespace-insensitive normal form of a code fragment: its token texts joined by one space"""
    return " ".join(t.text for t in tokenize(s))


def toks_text(toks):
    return " ".join(t.text for t in toks)


class Src:
    def __init__(self, path, text=None):
        self.path = path
        self.text = open(path).read() if text is None else text
        self.toks = tokenize(self.text)

    # ---- generic helpers
    def line_of(self, off):
        return self.text.count("\n", 0, off) + 1

    def next_open_brace(self, i, stop=None, angles=False):
        """index of the first `{` at paren/bracket depth 0 at or after token i.  angles=True (fn signatures): braces
        inside generic argument lists (`Vec<u8, { N * 2 }>`) are skipped"""
        depth = 0
        adepth = 0
        stop = len(self.toks) if stop is None else stop
        j = i
        while j < stop:
            t = self.toks[j]
            if t.kind != "punct":
                j += 1
                continue
            if angles and t.text == "<":
                adepth += 1
            elif angles and t.text == ">" and self.toks[j - 1].text not in ("-", "="):
                adepth = max(adepth - 1, 0)
            elif angles and adepth > 0 and t.text == "{":
                j = match_close(self.toks, j) + 1
                continue
            if t.text in "([":
                depth += 1
            elif t.text in ")]":
                depth -= 1
            elif t.text == "{" and depth == 0:
                return j
            elif t.text == ";" and depth == 0:
                return None
            j += 1
        return None

    def top_level_items(self, lo=0, hi=None):
        """yield token indices i in [lo,hi) that are at brace depth 0 relative to lo"""
        hi = len(self.toks) if hi is None else hi
        depth = 0
        i = lo
        while i < hi:
            t = self.toks[i]
            if t.kind == "punct" and t.text == "{":
                i = match_close(self.toks, i) + 1
                continue
            yield i
            i += 1

    # ---- impls
    def find_impl(self, header):
        """header: e.g. 'impl<P> EepromRange<P>' (where clause excluded). Returns (open_idx, close_idx)."""
        want = norm(header)
        kw = "impl"
        if want.startswith("pub trait ") or want.startswith("trait "):
            kw = "trait"
            want = want[want.index("trait"):]
        found = []
        for i in self.top_level_items():
            t = self.toks[i]
            if t.kind == "ident" and t.text == kw:
                ob = self.next_open_brace(i)
                if ob is None:
                    continue
                hdr = self.toks[i:ob]
                # cut where clause
                for k, h in enumerate(hdr):
                    if h.kind == "ident" and h.text == "where":
                        hdr = hdr[:k]
                        break
                if toks_text(hdr) == want:
                    found.append((ob, match_close(self.toks, ob)))
        if not found:
            raise LostAnchor(f"{self.path}: impl header `{header}` not found")
        return found

    def find_mod(self, name):
        for i in self.top_level_items():
            t = self.toks[i]
            if t.kind == "ident" and t.text == "mod" and self.toks[i + 1].text == name:
                if self.toks[i + 2].text == "{":
                    return (i + 2, match_close(self.toks, i + 2))
        raise LostAnchor(f"{self.path}: mod {name} not found")

    # ---- fns
    def find_fn(self, name, scope=None):
        """scope = (open_idx, close_idx) of an impl/mod block, or None for file top level.
        Returns dict(start_tok, name_tok, body_open, body_close)."""
        if scope is None:
            lo, hi = 0, len(self.toks)
        else:
            lo, hi = scope[0] + 1, scope[1]
        for i in self.top_level_items(lo, hi):
            t = self.toks[i]
            if t.kind == "ident" and t.text == "fn" and self.toks[i + 1].text == name:
                ob = self.next_open_brace(i + 2, hi, angles=True)
                if ob is None:
                    continue  # trait method declaration without body
                # walk back over qualifiers
                s = i
                while s - 1 >= lo:
                    p = self.toks[s - 1]
                    if p.kind == "ident" and p.text in ("pub", "async", "const", "unsafe", "extern", "default"):
                        s -= 1
                    elif p.kind == "lit" and self.toks[s - 2].text == "extern":
                        s -= 1
                    elif p.text == ")" :
                        # pub(crate) / pub(in path)
                        k = s - 1
                        depth = 0
                        while k >= lo:
                            if self.toks[k].text == ")":
                                depth += 1
                            elif self.toks[k].text == "(":
                                depth -= 1
                                if depth == 0:
                                    break
                            k -= 1
                        if k - 1 >= lo and self.toks[k - 1].text == "pub":
                            s = k - 1
                        else:
                            break
                    else:
                        break
                return dict(start=s, fn=i, body_open=ob, body_close=match_close(self.toks, ob))
        raise LostAnchor(f"{self.path}: fn {name} not found in scope")

    def attrs_before(self, tok_idx, lo=0):
        """return token index where the attributes (#[..]) directly preceding tok_idx start"""
        s = tok_idx
        while s - 1 >= lo and self.toks[s - 1].text == "]":
            k = s - 1
            depth = 0
            while k >= lo:
                if self.toks[k].text == "]":
                    depth += 1
                elif self.toks[k].text == "[":
                    depth -= 1
                    if depth == 0:
                        break
                k -= 1
            if k - 1 >= lo and self.toks[k - 1].text == "#":
                s = k - 1
            elif k - 2 >= lo and self.toks[k - 1].text == "!" and self.toks[k - 2].text == "#":
                break
            else:
                break
        return s

    # ---- types / consts
    def find_type(self, name, scope=None, deep=False):
        """struct / enum / union NAME. Returns dict(start (after attrs), kw, end_tok(inclusive)).
        deep=True also finds items declared inside function bodies (any brace depth)."""
        if scope is None:
            lo, hi = 0, len(self.toks)
        else:
            lo, hi = scope[0] + 1, scope[1]
        for i in (range(lo, hi - 1) if deep else self.top_level_items(lo, hi)):
            t = self.toks[i]
            if t.kind == "ident" and t.text in ("struct", "enum") and self.toks[i + 1].text == name:
                # find end: `;` or `{...}` or `(...) ;`
                j = i + 2
                depth = 0
                end = None
                while j < hi:
                    x = self.toks[j]
                    if x.text == "{" and depth == 0:
                        end = match_close(self.toks, j)
                        break
                    if x.text == "(" :
                        j = match_close(self.toks, j) + 1
                        continue
                    if x.text == ";":
                        end = j
                        break
                    j += 1
                s = i
                while s - 1 >= lo and (self.toks[s - 1].text == "pub" or self.toks[s - 1].text == ")"):
                    if self.toks[s - 1].text == ")":
                        k = s - 1
                        while self.toks[k].text != "(":
                            k -= 1
                        s = k - 1 if self.toks[k - 1].text == "pub" else s
                        if self.toks[s].text != "pub":
                            break
                    else:
                        s -= 1
                return dict(start=s, kw=i, end=end, attrs=self.attrs_before(s, lo))
        raise LostAnchor(f"{self.path}: type {name} not found")

    def find_const(self, name, scope=None):
        if scope is None:
            lo, hi = 0, len(self.toks)
        else:
            lo, hi = scope[0] + 1, scope[1]
        for i in self.top_level_items(lo, hi):
            t = self.toks[i]
            if t.kind == "ident" and t.text in ("const", "static") and self.toks[i + 1].text == name:
                j = i
                while self.toks[j].text != ";":
                    if self.toks[j].text in OPEN:
                        j = match_close(self.toks, j)
                    j += 1
                s = i
                while s - 1 >= lo and self.toks[s - 1].text in ("pub", ")"):
                    if self.toks[s - 1].text == ")":
                        k = s - 1
                        while self.toks[k].text != "(":
                            k -= 1
                        if self.toks[k - 1].text == "pub":
                            s = k - 1
                        else:
                            break
                    else:
                        s -= 1
                return dict(start=s, kw=i, end=j)
        raise LostAnchor(f"{self.path}: const {name} not found")

    # ---- loops inside a token range
    def loops_in(self, lo, hi):
        """loop keywords (`while`, `loop`, `for`) in [lo,hi) in source order, skipping `for<'a>` bounds
        and `impl X for Y`. Returns list of dict(kw_idx, kind, body_open, body_close)."""
        out = []
        for i in range(lo, hi):
            t = self.toks[i]
            if t.kind != "ident" or t.text not in ("while", "loop", "for"):
                continue
            if t.text == "for" and self.toks[i + 1].text == "<":
                continue
            ob = self.next_open_brace(i + 1, hi)
            if ob is None:
                continue
            out.append(dict(kw=i, kind=t.text, body_open=ob, body_close=match_close(self.toks, ob)))
        return out

    def find_seq(self, lo, hi, fragment, nth=1):
        """find the nth occurrence of the token sequence `fragment` in toks[lo:hi]; returns (first_idx, last_idx)"""
        want = [t.text for t in tokenize(fragment)]
        if not want:
            raise LostAnchor("empty anchor")
        cnt = 0
        for i in range(lo, hi - len(want) + 1):
            if self.toks[i].text == want[0] and all(self.toks[i + k].text == want[k] for k in range(len(want))):
                cnt += 1
                if cnt == nth:
                    return i, i + len(want) - 1
        raise LostAnchor(f"{self.path}: anchor `{fragment}` (occurrence {nth}) not found")

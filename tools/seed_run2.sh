#!/bin/bash
# seed_run2.sh <seed dir> <prop> [prop...] : run the checks against a scratch copy of /repo with the seeded change applied
SEED=$1; shift
N=$(basename $SEED)
W=/tmp/seedrepo_$N
rm -rf $W && mkdir -p $W && rsync -a --exclude target --exclude .git /repo/ $W/ && (cd $W && git init -q . 2>/dev/null; patch -p1 -s < $SEED/patch.diff) || { echo "PATCH DOES NOT APPLY"; exit 2; }
for P in "$@"; do
  echo "=== ./check $P on seeded tree ($N)"
  (cd /verif && VERIF_NO_CEX=${VERIF_NO_CEX:-1} ./check $P --repo $W 2>&1 | grep -E "failed obligation|VIOLATION|KNOWN|UNDECIDED|obligations discharged" | cut -c1-300 | head -14)
done
rm -rf $W

//! Demonstration for the TxRxResponse summary defect (C10): a SubDevice reporting state 0x00 - which is what a device that
//! has dropped off the bus "reports": its status datagram comes back zero-filled and tx_rx records SubDeviceState::None -
//! leaves no trace in the OR-ed state bitmap, so the group still counted as "all OP".
//!   echo '#[cfg(test)] #[path = "/verif/findings/summary_demo.rs"] mod verif_demo;' >> src/subdevice_group/tx_rx_response.rs
//!   cargo test --offline --lib verif_demo
use super::*;

fn resp(states: &[SubDeviceState]) -> TxRxResponse<4, ()> {
    let mut v = heapless::Vec::<SubDeviceState, 4>::new();
    for s in states {
        let _ = v.push(*s);
    }
    TxRxResponse { working_counter: 0, subdevice_states: v, extra: () }
}

#[test]
fn d25_a_device_reporting_no_state_is_not_op() {
    let r = resp(&[SubDeviceState::Op, SubDeviceState::None, SubDeviceState::Op]);
    assert!(!r.all_op(), "all_op() although one device reported state 0x00");
    assert!(!r.is_in_state(SubDeviceState::Op), "is_in_state(Op) although one device reported state 0x00");
    assert_eq!(r.group_in_single_state(), None, "single state although the devices differ");
}

#[test]
fn d25_two_different_states_are_not_a_third_one() {
    // INIT | SAFE-OP = 0x05: no device reported 0x05
    let r = resp(&[SubDeviceState::Init, SubDeviceState::SafeOp]);
    assert!(!r.is_in_state(SubDeviceState::Other(5)));
}

#[test]
fn d25_unchanged_answers() {
    assert!(resp(&[SubDeviceState::Op, SubDeviceState::Op]).all_op());
    assert!(!resp(&[SubDeviceState::Op, SubDeviceState::SafeOp]).all_op());
    assert_eq!(resp(&[SubDeviceState::PreOp, SubDeviceState::PreOp]).group_in_single_state(), Some(SubDeviceState::PreOp));
    assert_eq!(resp(&[SubDeviceState::Init, SubDeviceState::PreOp]).group_in_single_state(), None);
    assert!(resp(&[SubDeviceState::None]).is_in_state(SubDeviceState::None));
}

//! Demonstrations for the C17 no-panic clause (D15, D16 in DESIGN.md section 6): link reports that cannot come from a tree
//! must produce `Error::Topology`, not a panic.  Injected as a child test module of src/dc.rs:
//!   echo '#[cfg(test)] #[path = "/verif/findings/dc_demo.rs"] mod verif_demo;' >> src/dc.rs
//!   cargo test --offline --lib verif_demo
use super::*;
use crate::subdevice::ports::Ports;

fn dev(index: u16, p: [bool; 4]) -> SubDevice {
    let mut ports = Ports::new(p[0], p[1], p[2], p[3]);
    ports.set_receive_times(100, 200, 300, 400);
    SubDevice {
        configured_address: 0x1000 + index,
        index,
        ports,
        dc_support: crate::DcSupport::Bits64,
        ..Default::default()
    }
}

#[test]
fn d15_device_reporting_no_open_port() {
    // DL status with no port open (garbage register content): used to hit `unreachable!("Invalid topology 0")`
    let mut devs = [dev(0, [false, false, false, false])];
    assert_eq!(assign_parent_relationships(&mut devs), Err(Error::Topology));
}

#[test]
fn d15_second_device_reporting_no_open_port() {
    let mut devs = [dev(0, [true, true, false, false]), dev(1, [false, false, false, false])];
    assert_eq!(assign_parent_relationships(&mut devs), Err(Error::Topology));
}

#[test]
fn d16_more_line_ends_than_fork_ports() {
    // a 3-port fork followed by four line ends: the fourth finds no free port on the fork.
    // used to panic with "no free ports on parent"
    let mut devs = [
        dev(0, [true, true, true, false]),
        dev(1, [true, false, false, false]),
        dev(2, [true, false, false, false]),
        dev(3, [true, false, false, false]),
        dev(4, [true, false, false, false]),
    ];
    assert_eq!(assign_parent_relationships(&mut devs), Err(Error::Topology));
}

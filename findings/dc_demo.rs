//! Demonstrations for the C17 no-panic clause (D15, D16 in DESIGN.md section 6): link reports that cannot come from a tree
//! must produce `Error::Topology`, not a panic.  Injected as a child test module of src/dc.rs:
//!   echo '#[cfg(test)] #[path = "/verif/findings/dc_demo.rs"] mod verif_demo;' >> src/dc.rs
//!   cargo test --offline --lib verif_demo
use super::*;
use crate::subdevice::ports::Ports;

fn dev(index: u16, p: [bool; 4]) -> SubDevice {
    let mut ports = Ports::new(p[0], p[1], p[2], p[3]);
    ports.set_receive_times(100, 200, 300, 400);
    SubDevice {
        configured_address: 0x1000 + index,
        index,
        ports,
        dc_support: crate::DcSupport::Bits64,
        ..Default::default()
    }
}

#[test]
fn d15_device_reporting_no_open_port() {
    // DL status with no port open (garbage register content): used to hit `unreachable!("Invalid topology 0")`
    let mut devs = [dev(0, [false, false, false, false])];
    assert_eq!(assign_parent_relationships(&mut devs), Err(Error::Topology));
}

#[test]
fn d15_second_device_reporting_no_open_port() {
    let mut devs = [dev(0, [true, true, false, false]), dev(1, [false, false, false, false])];
    assert_eq!(assign_parent_relationships(&mut devs), Err(Error::Topology));
}

#[test]
fn d16_more_line_ends_than_fork_ports() {
    // a 3-port fork followed by four line ends: the fourth finds no free port on the fork.
    // used to panic with "no free ports on parent"
    let mut devs = [
        dev(0, [true, true, true, false]),
        dev(1, [true, false, false, false]),
        dev(2, [true, false, false, false]),
        dev(3, [true, false, false, false]),
        dev(4, [true, false, false, false]),
    ];
    assert_eq!(assign_parent_relationships(&mut devs), Err(Error::Topology));
}

/// D26: the system-time offset is computed as `-(receive_time as i64) + now as i64`; a latched receive time with the top
/// bit set (0x0918 is read from the device as 8 raw bytes) overflowed the negation or the sum and panicked before anything
/// was sent.  Drives the real write_dc_parameters against a PDU loop nobody answers: the call must end in a timeout error,
/// not in a panic.
fn d26_run(receive_time: u64, now: u64) -> std::thread::Result<Result<(), Error>> {
    use crate::{MainDevice, MainDeviceConfig, PduStorage, RetryBehaviour, Timeouts};
    let storage: &'static PduStorage<2, { PduStorage::element_size(32) }> = Box::leak(Box::new(PduStorage::new()));
    let (_tx, _rx, pdu_loop) = storage.try_split().unwrap();
    let timeouts = Timeouts { pdu: core::time::Duration::from_millis(5), ..Timeouts::default() };
    let md = MainDevice::new(pdu_loop, timeouts, MainDeviceConfig { retry_behaviour: RetryBehaviour::None, ..MainDeviceConfig::default() });
    let sd = SubDevice { configured_address: 0x1000, dc_receive_time: receive_time, propagation_delay: 7, ..Default::default() };
    std::panic::catch_unwind(std::panic::AssertUnwindSafe(|| cassette::block_on(write_dc_parameters(&md, &sd, 0, now))))
}

#[test]
fn d26_receive_time_with_the_top_bit_set() {
    let now = 800_000_000_000_000_000u64; // ~ 25 years after the DC epoch
    assert!(d26_run(1 << 63, now).is_ok(), "panicked for receive time 2^63 (negation of i64::MIN)");
    assert!(d26_run((1 << 63) + 5, now).is_ok(), "panicked for receive time 2^63 + 5 (sum overflows i64)");
    // ordinary values behave as before (no panic either way)
    assert!(d26_run(123_456, now).is_ok());
}

//! TOOL NOTE (not a defect of ethercrab): Kani 0.68.0 / CBMC 6.11.0 answer this harness wrongly.
//! `write` copies 1 or 2 bytes into a two-byte staging word that is never re-zeroed, inside an `async fn` loop, and hands the word to a
//! nested `async fn`.  For the 3-byte payload [b0, b1, b2] the second word is [b2, b1] (the stale high byte) - a native run shows it,
//! and Kani shows it too when the slice LENGTH is a constant.  With a symbolic length (constrained to 3 on the path) Kani reports
//! "STALE" as failing on every path, i.e. it believes the stale byte is never there.  Variants that answer correctly: the same loop in a
//! plain fn; a byte-by-byte copy instead of `copy_from_slice`; a nested future that takes no `&mut self`.
//! Found through the seeded change C14_write_pad_not_rezeroed, which the bounded harness `range_write` (symbolic payload length) let
//! through; that harness now calls the real `EepromRange::write` once per CONSTANT payload length.  `range_write` is the only harness
//! of /verif that drives a compiler-generated coroutine; every other Kani harness runs synchronous code or hand-written `poll` fns.
//! Reproduce: put this file in src/lib.rs of an empty edition-2021 crate, `cargo kani` -> h_symbolic: Failed Checks: "STALE" (wrong);
//! h_constant: Failed Checks: "ZERO" (right).
use core::future::Future;
struct St { writes: u8, last: [[u8; 2]; 4] }
struct Mock<'a> { st: &'a mut St }
impl Mock<'_> {
    async fn write_word(&mut self, data: [u8; 2]) {
        let st = &mut *self.st;
        if (st.writes as usize) < 4 { st.last[st.writes as usize] = data; }
        st.writes += 1;
    }
}
async fn write(m: &mut Mock<'_>, mut buf: &[u8]) -> usize {
    let mut written = 0;
    let mut word = [0u8; 2];
    loop {
        if buf.is_empty() { break; }
        let (chunk, rest) = buf.split_at(buf.len().min(word.len()));
        word[..chunk.len()].copy_from_slice(chunk);
        m.write_word(word).await;
        written += buf.len() - rest.len();
        buf = rest;
    }
    written
}
fn run<F: Future>(f: F) -> F::Output {
    let mut f = core::pin::pin!(f);
    let w = core::task::Waker::noop();
    let mut cx = core::task::Context::from_waker(&w);
    match f.as_mut().poll(&mut cx) { core::task::Poll::Ready(x) => x, core::task::Poll::Pending => panic!() }
}
#[cfg(kani)]
#[kani::proof]
#[kani::unwind(6)]
fn h_symbolic() {
    let buf: [u8; 6] = kani::any();
    let n: usize = kani::any();
    kani::assume(n <= 6);
    if n != 3 || buf[1] == 0 { return; }
    let mut st = St { writes: 0, last: [[0; 2]; 4] };
    let r = { let mut m = Mock { st: &mut st }; run(write(&mut m, &buf[..n])) };
    assert!(r == 3 && st.writes == 2);
    assert!(st.last[1][1] == buf[1], "STALE"); // true natively; Kani says it fails on every path
    assert!(st.last[1][1] == 0, "ZERO");
}
#[cfg(kani)]
#[kani::proof]
#[kani::unwind(6)]
fn h_constant() {
    let buf: [u8; 3] = kani::any();
    kani::assume(buf[1] != 0);
    let mut st = St { writes: 0, last: [[0; 2]; 4] };
    let r = { let mut m = Mock { st: &mut st }; run(write(&mut m, &buf[..])) };
    assert!(r == 3 && st.writes == 2);
    assert!(st.last[1][1] == buf[1], "STALE");
    assert!(st.last[1][1] == 0, "ZERO"); // fails, as it must
}

//! Demonstration for D28 (C13): the PDO bit-length sums of SubDeviceRef::configure_pdos_eeprom.  An EEPROM whose TxPDOs on one
//! sync manager add up to more than 65535 bits (two PDOs of 255 entries x 255 bits: the "255x255-bit PDO sums" of the property's
//! quantifier) made `.sum::<u16>()` overflow: a panic with overflow checks, a silently wrapped SM / FMMU length without.
//! Child test module of src/subdevice/configuration.rs:
//!   echo '#[cfg(test)] #[path = "/verif/findings/pdo_sum_demo.rs"] mod verif_demo;' >> src/subdevice/configuration.rs
//!   cargo test --offline --lib verif_demo
//! (the simulated SubDevice - register memory + SII interface behind a scripted PDU loop - is the one an independent sub-agent wrote
//!  for the seeded change C08_window_end_not_rebased)
use super::PdoDirection;
use crate::{MainDevice, MainDeviceConfig, PduStorage, SubDevice, SubDeviceRef, Timeouts, pdi::PdiOffset};
use core::time::Duration;
use std::{sync::{Arc, atomic::{AtomicBool, Ordering}}, thread};

/// SII image: no mailbox, SM0 = process data inputs @ 0x1100; `n_pdos` TxPDOs on SM0, each with 255 entries of 255 bits
fn eeprom_image(two_pdos: u8) -> Vec<u8> {
    let mut e = vec![0u8; 0x80];
    let mut cat = |ty: u16, data: &[u8]| {
        assert_eq!(data.len() % 2, 0);
        e.extend_from_slice(&ty.to_le_bytes());
        e.extend_from_slice(&((data.len() / 2) as u16).to_le_bytes());
        e.extend_from_slice(data);
    };
    cat(40, &[0x02, 0x00]);
    cat(41, &[0x00, 0x11, 0x03, 0x00, 0x00, 0x00, 0x01, 0x04]);
    let mut pdos = Vec::new();
    // variant 1: one PDO of 255 x 255 bits; 2: two of them; 3: one of them plus a PDO of 2 x 255 bits (65535 bits in all)
    let entries: &[u8] = match two_pdos { 1 => &[255], 2 => &[255, 255], _ => &[255, 2] };
    for (k, n) in entries.iter().enumerate() {
        pdos.extend_from_slice(&[k as u8, 0x1a, *n, 0x00, 0x00, 0x00, 0x00, 0x00]);
        for i in 0..*n {
            pdos.extend_from_slice(&[0x00, 0x60, i, 0x00, 0x00, 255, 0x00, 0x00]);
        }
    }
    cat(50, &pdos);
    e.extend_from_slice(&[0xff, 0xff, 0x00, 0x00]);
    e.resize(e.len() + 64, 0xff);
    e
}

struct SimDevice {
    address: u16,
    regs: Vec<u8>,
    eeprom: Vec<u8>,
}

impl SimDevice {
    fn new(address: u16, two_pdos: u8) -> Self {
        let mut regs = vec![0u8; 0x10000];

        // AL status: PRE-OP
        regs[0x0130] = 0x02;

        Self {
            address,
            regs,
            eeprom: eeprom_image(two_pdos),
        }
    }

    fn read(&self, ado: u16, out: &mut [u8]) {
        let ado = usize::from(ado);
        out.copy_from_slice(&self.regs[ado..ado + out.len()]);
    }

    fn write(&mut self, ado: u16, data: &[u8]) {
        // SII control/address: a read request loads 4 octets into the SII data register. The
        // control register itself is left at zero: never busy, no errors, 4 octet reads.
        if ado == 0x0502 {
            let is_read = data.len() >= 4 && data[1] & 0x01 != 0;

            if is_read {
                let word = usize::from(u16::from_le_bytes([data[2], data[3]]));

                for i in 0..4 {
                    self.regs[0x0508 + i] = self.eeprom.get(word * 2 + i).copied().unwrap_or(0xff);
                }
            }

            return;
        }

        let ado = usize::from(ado);
        self.regs[ado..ado + data.len()].copy_from_slice(data);
    }
}

/// Answer every PDU in an EtherCAT frame like the simulated devices would.
fn respond(devices: &mut [SimDevice], frame: &mut [u8]) {
    // Pretend the first SubDevice set the U/L bit so the frame isn't ignored as our own.
    frame[6] |= 0x02;

    let payload_len = usize::from(u16::from_le_bytes([frame[14], frame[15]]) & 0x07ff);
    let pdus = &mut frame[16..16 + payload_len];

    let mut pos = 0;

    loop {
        let cmd = pdus[pos];
        let adp = u16::from_le_bytes([pdus[pos + 2], pdus[pos + 3]]);
        let ado = u16::from_le_bytes([pdus[pos + 4], pdus[pos + 5]]);
        let flags = u16::from_le_bytes([pdus[pos + 6], pdus[pos + 7]]);
        let len = usize::from(flags & 0x07ff);
        let more_follows = flags & 0x8000 != 0;

        let data_start = pos + 10;
        let wkc_pos = data_start + len;

        if let Some(dev) = devices.iter_mut().find(|d| d.address == adp) {
            let wkc = match cmd {
                // FPRD
                0x04 => {
                    dev.read(ado, &mut pdus[data_start..wkc_pos]);
                    1u16
                }
                // FPWR
                0x05 => {
                    dev.write(ado, &pdus[data_start..wkc_pos]);
                    1
                }
                other => panic!("simulated device: unsupported command {:#04x}", other),
            };

            pdus[wkc_pos..wkc_pos + 2].copy_from_slice(&wkc.to_le_bytes());
        }

        pos = wkc_pos + 2;

        if !more_follows {
            break;
        }
    }
}


fn run(two_pdos: u8) -> std::thread::Result<Result<PdiOffset, crate::error::Error>> {
    let storage: &'static PduStorage<4, 128> = Box::leak(Box::new(PduStorage::new()));
    let (mut tx, mut rx, pdu_loop) = storage.try_split().expect("can only split once");
    let stop = Arc::new(AtomicBool::new(false));
    let stop1 = stop.clone();
    let net = thread::spawn(move || {
        let mut devices = [SimDevice::new(0x1000, two_pdos)];
        while !stop1.load(Ordering::Relaxed) {
            let mut sent = None;
            while let Some(frame) = tx.next_sendable_frame() {
                frame.send_blocking(|bytes| { sent = Some(bytes.to_vec()); Ok(bytes.len()) }).unwrap();
                if let Some(mut bytes) = sent.take() {
                    respond(&mut devices, &mut bytes);
                    rx.receive_frame(&bytes).expect("receive frame");
                }
            }
            thread::sleep(Duration::from_micros(50));
        }
    });
    let maindevice = MainDevice::new(
        pdu_loop,
        Timeouts { pdu: Duration::from_secs(5), eeprom: Duration::from_secs(5), wait_loop_delay: Duration::ZERO, ..Timeouts::default() },
        MainDeviceConfig::default(),
    );
    let mut sd = SubDevice { configured_address: 0x1000, ..SubDevice::default() };
    let res = std::panic::catch_unwind(std::panic::AssertUnwindSafe(|| {
        futures_lite::future::block_on(async {
            SubDeviceRef::new(&maindevice, 0x1000, &mut sd)
                .configure_fmmus(PdiOffset { start_address: 0 }, 0, PdoDirection::MasterRead)
                .await
        })
    }));
    stop.store(true, Ordering::Relaxed);
    let _ = net.join();
    res
}

#[test]
fn d28_one_maximal_pdo_is_fine() {
    // 255 x 255 bits = 65025 bits = 8129 bytes: representable, configured as before
    let r = run(1).expect("panicked");
    assert_eq!(r.expect("configure_fmmus").start_address, 8129);
}

#[test]
fn d28_pdo_sum_past_16_bits_is_an_error_not_a_panic() {
    // two such PDOs on one sync manager: 130050 bits do not fit the 16-bit SM / FMMU length arithmetic
    let r = run(2).expect("configure_fmmus panicked on an EEPROM whose PDO bit lengths add up past 65535");
    assert!(r.is_err(), "an unrepresentable sync manager length must be refused, got {:?}", r);
}

#[test]
fn d28_pdo_sum_of_exactly_65535_bits() {
    // 65025 + 510 bits: representable, but rounding up to bytes as (bits + 7) / 8 overflowed (twice: SM length and PDI offset)
    let r = run(3).expect("configure_fmmus panicked on a PDO bit length of 65535");
    assert_eq!(r.expect("configure_fmmus").start_address, 8192);
}

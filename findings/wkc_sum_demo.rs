//! Demonstration for D20 (C07): `lrw_wkc_sum += wkc` overflows u16 when the working counters returned for the LRW
//! datagrams of one cycle add up past 65535 (arbitrary device answers are inside C07's quantifier).
//!   echo '#[cfg(test)] #[path = "/verif/findings/wkc_sum_demo.rs"] mod verif_demo;' >> src/subdevice_group/mod.rs
//!   cargo test --offline --lib verif_demo
use super::*;
use crate::{
    MainDeviceConfig, PduStorage, Timeouts,
    ethernet::{EthernetAddress, EthernetFrame},
};
use core::sync::atomic::{AtomicBool, Ordering};
use std::{sync::Arc, thread};

#[test]
fn d20_lrw_counters_sum_past_u16() {
    const MAX_SUBDEVICES: usize = 4;
    const MAX_PDU_DATA: usize = PduStorage::element_size(256);
    const MAX_PDI: usize = 512;
    static PDU_STORAGE: PduStorage<8, MAX_PDU_DATA> = PduStorage::new();

    let (mock_net_tx, mock_net_rx) = std::sync::mpsc::sync_channel::<Vec<u8>>(16);
    let (mut tx, mut rx, pdu_loop) = PDU_STORAGE.try_split().expect("can only split once");
    let maindevice = Arc::new(MainDevice::new(pdu_loop, Timeouts::default(), MainDeviceConfig::default()));
    let stop = Arc::new(AtomicBool::new(false));
    let stop1 = stop.clone();
    let tx_handle = thread::spawn(move || {
        while !stop1.load(Ordering::Relaxed) {
            while let Some(frame) = tx.next_sendable_frame() {
                frame.send_blocking(|bytes| { mock_net_tx.send(bytes.to_vec()).unwrap(); Ok(bytes.len()) }).unwrap();
                thread::yield_now();
            }
        }
    });
    let stop1 = stop.clone();
    let rx_handle = thread::spawn(move || {
        while let Ok(ethernet_frame) = mock_net_rx.recv() {
            let mut ethernet_frame = {
                let mut frame = EthernetFrame::new_checked(ethernet_frame).unwrap();
                frame.set_src_addr(EthernetAddress([0x12, 0x10, 0x10, 0x10, 0x10, 0x10]));
                frame.into_inner()
            };
            // the segment answers the first datagram (the LRW) with working counter 0x8000
            let len = (u16::from_le_bytes([ethernet_frame[22], ethernet_frame[23]]) & 0x7ff) as usize;
            ethernet_frame[16 + 10 + len..16 + 10 + len + 2].copy_from_slice(&0x8000u16.to_le_bytes());
            while rx.receive_frame(&ethernet_frame).is_err() {}
            thread::yield_now();
            if stop1.load(Ordering::Relaxed) { break; }
        }
    });

    let group = SubDeviceGroup::<MAX_SUBDEVICES, MAX_PDI, crate::DefaultLock, Op, NoDc> {
        id: GroupId(0),
        pdi: RwLock::new(MySyncUnsafeCell::new([0u8; MAX_PDI])),
        read_pdi_len: 300,
        pdi_len: 474, // two LRW chunks with 256-byte frames
        inner: MySyncUnsafeCell::new(GroupInner { subdevices: heapless::Vec::new(), pdi_start: PdiOffset { start_address: 0 } }),
        dc_conf: NoDc,
        _state: PhantomData::<Op>,
    };

    let md = maindevice.clone();
    let res = thread::spawn(move || cassette::block_on(group.tx_rx(&md)).map(|r| r.working_counter)).join();
    stop.store(true, Ordering::Relaxed);
    let _ = tx_handle.join();
    let _ = rx_handle.join();
    assert!(res.is_ok(), "tx_rx panicked on working counters 0x8000 + 0x8000");
}

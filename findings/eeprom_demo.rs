//! Demonstrations for the EEPROM defects found by the C12/C13 contracts (D6-D10 in DESIGN.md section 6).
//! Injected as a child test module of src/subdevice/eeprom.rs in a scratch worktree:
//!   echo '#[cfg(test)] #[path = "/verif/findings/eeprom_demo.rs"] mod verif_demo;' >> src/subdevice/eeprom.rs
//!   cargo test --offline --lib verif_demo
//! Every test fails (panics) on the tree before the `fix:` commits and passes after them.
use super::*;
use crate::eeprom::{EepromDataProvider, EepromRange};
use crate::error::{EepromError, Error};

/// 128 KiB flat memory, 8-byte chunks, never panics itself.
#[derive(Clone)]
struct Mem(std::sync::Arc<Vec<u8>>);

impl Mem {
    fn with(patches: &[(usize, &[u8])]) -> Self {
        let mut v = vec![0u8; 0x20010];
        for (at, b) in patches {
            v[*at..*at + b.len()].copy_from_slice(b);
        }
        Mem(std::sync::Arc::new(v))
    }
}

impl EepromDataProvider for Mem {
    async fn read_chunk(&mut self, start_word: u16) -> Result<impl core::ops::Deref<Target = [u8]>, Error> {
        let s = usize::from(start_word) * 2;
        Ok(self.0[s..s + 8].to_vec())
    }
    async fn write_word(&mut self, _start_word: u16, _data: [u8; 2]) -> Result<(), Error> {
        Ok(())
    }
    async fn clear_errors(&self) -> Result<(), Error> {
        Ok(())
    }
}

#[test]
fn d7_range_new_high_start_word() {
    // a category found at word address >= 0x8000 (device-supplied chain) used to overflow `start_word * 2`
    let _ = EepromRange::new(Mem::with(&[]), 0x8000, 1);
    let _ = EepromRange::new(Mem::with(&[]), 0x7fff, 0xffff);
}

#[test]
fn d9_skip_ahead_overflow() {
    let mut r = EepromRange::new(Mem::with(&[]), 0x7000, 0x10);
    // string length bytes come from the device: byte_pos + skip used to overflow u16
    assert_eq!(r.skip_ahead_bytes(0xffff), Err(EepromError::SectionOverrun));
}

#[tokio::test]
async fn read_byte_stays_inside_the_window() {
    // window of one word; the third read_byte used to return a byte from beyond the window
    let mut r = EepromRange::new(Mem::with(&[(0x80, &[1, 2, 3, 4])]), 0x40, 1);
    assert_eq!(r.read_byte().await, Ok(1));
    assert_eq!(r.read_byte().await, Ok(2));
    assert!(r.read_byte().await.is_err(), "read past the end of the permitted range");
}

#[tokio::test]
async fn d6_category_length_overflow() {
    // first category header at word 0x40: type 1 (device specific), length 0xffff words
    let e = SubDeviceEeprom::new(Mem::with(&[(0x80, &[1, 0, 0xff, 0xff])]));
    // debug builds: `word_addr += len_words` panics; release builds: wraps and walks garbage
    assert!(matches!(e.category(CategoryType::General).await, Ok(None)));
}

#[tokio::test]
async fn d6_category_wrap_to_self_terminates() {
    // length 0xfffe wraps the chain back onto the same header: an endless loop without overflow checks
    let e = SubDeviceEeprom::new(Mem::with(&[(0x80, &[1, 0, 0xfe, 0xff])]));
    assert!(matches!(e.category(CategoryType::General).await, Ok(None)));
}

#[tokio::test]
async fn d8_size_word_511() {
    // size word 0x01ff = 512 kbit - 1  ->  (511 + 1) * 128 = 65536 bytes does not fit the u16 it was computed in
    let e = SubDeviceEeprom::new(Mem::with(&[(0x7c, &[0xff, 0x01])]));
    assert_eq!(e.size().await, Ok(65536));
    let e = SubDeviceEeprom::new(Mem::with(&[(0x7c, &[0xff, 0xff])]));
    assert_eq!(e.size().await, Ok(65536 * 128));
}

#[tokio::test]
async fn d10_string_index_one_past_the_table() {
    // Strings category (type 10), 2 words: [count = 1, len = 1, 'A', pad 0xff]; then the end marker
    let e = SubDeviceEeprom::new(Mem::with(&[(0x80, &[10, 0, 2, 0, 1, 1, b'A', 0xff, 0xff, 0xff, 0, 0])]));
    assert_eq!(e.find_string::<64>(1).await, Ok(Some("A".try_into().unwrap())));
    // index 2 does not exist: must be `None`, used to read the pad byte as a length
    assert_eq!(e.find_string::<64>(2).await, Ok(None));
}

#[tokio::test]
async fn d22_odd_length_ranges() {
    use embedded_io_async::{Read, Write};
    // SubDevice::eeprom_read::<[u8; 3]> / eeprom_read_raw with an odd buffer / eeprom_write_dangerously::<u8> all go through
    // `start_at(word, len_bytes)`, which used to size the window as len_bytes / 2 words (rounding DOWN).
    let e = SubDeviceEeprom::new(Mem::with(&[(0x10, &[1, 2, 3, 4])]));
    let mut buf = [0u8; 3];
    // used to fail with SectionOverrun: the window was one byte shorter than the requested length
    assert_eq!(e.start_at(8, 3).read_exact(&mut buf).await, Ok(()));
    assert_eq!(buf, [1, 2, 3]);
    // used to panic inside embedded-io's write_all ("write() returned Ok(0)"): the window for a 1-byte value was empty
    assert_eq!(e.start_at(8, 1).write_all(&[0xab]).await, Ok(()));
}

#[tokio::test]
async fn d23_write_last_word_of_address_space() {
    use embedded_io_async::Write;
    // eeprom_write_dangerously(md, 0x7fff, 0u16): the window is the last word of the u16 byte address space
    let mut r = EepromRange::new(Mem::with(&[]), 0x7fff, 1);
    // `self.byte_pos += 2` used to overflow u16 after the word at 0xfffe was written
    let _ = r.write(&[1, 2]).await;
}

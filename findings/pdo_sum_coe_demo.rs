//! Demonstration for D29 (C13 mechanism "PDO bit-length sums feeding SM/FMMU lengths", configuration.rs CoE path; device-supplied
//! values reach it through SDO replies - C16): SubDeviceRef::configure_pdos_coe added the bit lengths a device reports for the PDOs
//! assigned to one sync manager with plain `+=` / `*` / `+ 7` on u16.  A device that assigns two PDOs of 255 mappings x 255 bits to
//! one sync manager (2 x 65025 bits) made `sm_bit_len += ..` overflow: a panic with overflow checks, a silently wrapped SM / FMMU
//! length without.  After the repair the call returns an error.
//! Child test module of src/subdevice/configuration.rs:
//!   echo '#[cfg(test)] #[path = "/verif/findings/pdo_sum_coe_demo.rs"] mod verif_coe_demo;' >> src/subdevice/configuration.rs
//!   cargo test --offline --lib verif_coe_demo
//! (the scripted mailbox device is adapted from the one an independent sub-agent wrote for the seeded change
//!  C16_abort_code_unchecked_index: every frame the MainDevice sends is answered in-thread and fed back through receive_frame)
use super::PdoDirection;
use crate::{
    MainDevice, MainDeviceConfig, PduStorage, SubDevice, SubDeviceRef, Timeouts,
    eeprom::types::{FmmuUsage, SyncManager, SyncManagerEnable, SyncManagerType},
    ethernet::{EthernetAddress, EthernetFrame},
    pdi::PdiOffset,
    pdu_loop::{PduRx, PduTx},
    register::RegisterAddress,
    subdevice::types::Mailbox,
    sync_manager_channel::Control,
};
use core::{
    future::Future,
    pin::pin,
    task::{Context, Poll, Waker},
    time::Duration,
};
use std::panic::{AssertUnwindSafe, catch_unwind};

const ADDR: u16 = 0x1001;
const WRITE_MAILBOX: u16 = 0x1000;
const READ_MAILBOX: u16 = 0x1080;
const MBX_LEN: u16 = 32;
const FPRD: u8 = 0x04;
const FPWR: u8 = 0x05;

/// A device whose object dictionary assigns `n_pdos` PDOs (0x1600..) to SM2 (0x1c12), each with `n_map` mappings of `bits` bits.
struct Device { n_pdos: u8, n_map: u8, bits: u8, reply: Vec<u8>, ready: bool }

impl Device {
    /// value of an object as the 4 data bytes of an expedited upload + its size
    fn object(&self, index: u16, sub: u8) -> ([u8; 4], usize) {
        match (index, sub) {
            (0x1c12, 0) => ([self.n_pdos, 0, 0, 0], 1),
            (0x1c12, k) => { let p = 0x1600u16 + u16::from(k - 1); ([p as u8, (p >> 8) as u8, 0, 0], 2) }
            (0x1600..=0x16ff, 0) => ([self.n_map, 0, 0, 0], 1),
            // Mapping { mapping_bit_len, sub_index, index } little endian
            (0x1600..=0x16ff, k) => ([self.bits, k, 0x00, 0x70], 4),
            other => panic!("device has no object {:x?}", other),
        }
    }

    fn answer(&mut self, sent: &[u8]) -> Vec<u8> {
        let mut frame = sent.to_vec();
        let command = frame[16];
        let register = u16::from_le_bytes([frame[20], frame[21]]);
        let len = usize::from(u16::from_le_bytes([frame[22], frame[23]]) & 0x07ff);
        let d0 = 26;
        let sm0_status = RegisterAddress::sync_manager_status(0);
        let sm1_status = RegisterAddress::sync_manager_status(1);
        {
            let data = &mut frame[d0..d0 + len];
            match (command, register) {
                (FPRD, r) if r == sm0_status => data[0] = 0x00,
                (FPRD, r) if r == sm1_status => data[0] = if self.ready { 0x08 } else { 0x00 },
                (FPWR, WRITE_MAILBOX) => {
                    // mailbox header (6) + CoE header (2) + SDO header: command, index (2), sub index
                    let counter = (data[5] >> 4) & 0x07;
                    let index = u16::from_le_bytes([data[9], data[10]]);
                    let sub = data[11];
                    let (value, size) = self.object(index, sub);
                    // upload response, expedited, size indicated: (2 << 5) | ((4 - size) << 2) | 0b11
                    let sdo_flags = 0x40u8 | (((4 - size) as u8) << 2) | 0x03;
                    self.reply = vec![
                        0x0a, 0x00, 0x00, 0x00, 0x00, 0x03 | (counter << 4), // mailbox header: 10 bytes, CoE, same counter
                        0x00, 0x30,                                             // CoE header: SDO response
                        sdo_flags, data[9], data[10], sub,
                        value[0], value[1], value[2], value[3],
                    ];
                    self.ready = true;
                }
                (FPRD, READ_MAILBOX) => {
                    data.fill(0);
                    let n = len.min(self.reply.len());
                    data[..n].copy_from_slice(&self.reply[..n]);
                    self.ready = false;
                }
                other => panic!("device does not know how to answer {:x?}", other),
            }
        }
        frame[d0 + len..d0 + len + 2].copy_from_slice(&1u16.to_le_bytes());
        let mut frame = EthernetFrame::new_checked(frame).unwrap();
        frame.set_src_addr(EthernetAddress([0x12, 0x10, 0x10, 0x10, 0x10, 0x10]));
        frame.into_inner()
    }
}

fn run<T>(fut: impl Future<Output = T>, tx: &mut PduTx<'_>, rx: &mut PduRx<'_>, device: &mut Device) -> T {
    let mut fut = pin!(fut);
    let mut cx = Context::from_waker(Waker::noop());
    for _ in 0..1_000_000 {
        if let Poll::Ready(out) = fut.as_mut().poll(&mut cx) {
            return out;
        }
        while let Some(frame) = tx.next_sendable_frame() {
            let mut sent = Vec::new();
            frame.send_blocking(|bytes| { sent = bytes.to_vec(); Ok(bytes.len()) }).expect("send");
            let reply = device.answer(&sent);
            rx.receive_frame(&reply).expect("receive");
        }
    }
    panic!("request did not finish");
}

fn sm(usage_type: SyncManagerType, start_addr: u16) -> SyncManager {
    SyncManager { start_addr, length: 0, control: Control::default(), enable: SyncManagerEnable::ENABLE, usage_type }
}

/// configure_pdos_coe for the outputs of a device whose SM2 carries `n_pdos` PDOs of `n_map` x `bits` bits
fn coe_outputs(n_pdos: u8, n_map: u8, bits: u8) -> std::thread::Result<Result<crate::pdi::PdiSegment, crate::error::Error>> {
    // (leaked: one storage per call, the demo runs three of them)
    let storage: &'static PduStorage<4, { PduStorage::element_size(128) }> = Box::leak(Box::new(PduStorage::new()));
    let (mut tx, mut rx, pdu_loop) = storage.try_split().expect("split");
    let maindevice = MainDevice::new(
        pdu_loop,
        Timeouts { pdu: Duration::from_secs(5), mailbox_echo: Duration::from_secs(5), mailbox_response: Duration::from_secs(5), wait_loop_delay: Duration::ZERO, ..Timeouts::default() },
        MainDeviceConfig::default(),
    );
    let mut subdevice = SubDevice { configured_address: ADDR, ..SubDevice::default() };
    subdevice.config.mailbox.has_coe = true;
    subdevice.config.mailbox.write = Some(Mailbox { address: WRITE_MAILBOX, len: MBX_LEN, sync_manager: 0 });
    subdevice.config.mailbox.read = Some(Mailbox { address: READ_MAILBOX, len: MBX_LEN, sync_manager: 1 });
    let sms = [sm(SyncManagerType::MailboxWrite, WRITE_MAILBOX), sm(SyncManagerType::MailboxRead, READ_MAILBOX), sm(SyncManagerType::ProcessDataWrite, 0x1100)];
    let fmmus = [FmmuUsage::Outputs, FmmuUsage::Inputs];
    let mut device = Device { n_pdos, n_map, bits, reply: Vec::new(), ready: false };
    catch_unwind(AssertUnwindSafe(|| {
        let sd = SubDeviceRef::new(&maindevice, ADDR, &mut subdevice);
        let mut offset = PdiOffset::default();
        run(sd.configure_pdos_coe(&sms, &fmmus, PdoDirection::MasterWrite, &mut offset), &mut tx, &mut rx, &mut device)
    }))
}

#[test]
fn d29_coe_pdo_sums_beyond_16_bits_are_refused_not_overflowed() {
    // two PDOs of 255 mappings x 255 bits on one sync manager: 130050 bits
    match coe_outputs(2, 255, 255) {
        Err(_) => panic!("D29: configure_pdos_coe panicked (u16 overflow) on PDO lengths reported by the device"),
        Ok(r) => assert!(r.is_err(), "more bits than a 16-bit SM/FMMU length can hold must be refused, got {:?}", r),
    }
}

//! Demonstrations for the CoE defects D11-D14 (C15/C16): a scripted SubDevice answers SDO requests with crafted mailbox
//! contents.  Child test module of src/mailbox/coe/mod.rs:
//!   echo '#[cfg(test)] #[path = "/verif/findings/sdo_demo.rs"] mod verif_demo;' >> src/mailbox/coe/mod.rs
//!   cargo test --offline --lib verif_demo -- --test-threads 1
use crate::{
    MainDevice, MainDeviceConfig, PduStorage, SubDevice, SubDeviceRef, Timeouts,
    error::{Error, MailboxError},
    subdevice::Mailbox,
};
use std::sync::{Arc, Mutex, atomic::{AtomicBool, AtomicUsize, Ordering}};
use std::thread;
use std::time::Duration;

/// when set, the device puts a new reply into its mailbox as soon as the previous one has been read (endless stream)
static REFILL: AtomicBool = AtomicBool::new(false);
static READS: AtomicUsize = AtomicUsize::new(0);

const WR_MBX: u16 = 0x1000;
const RD_MBX: u16 = 0x1080;
const MBX_LEN: u16 = 32;
/// mailbox size configured for the device (tests that need the smallest mailbox of C15's quantifier set 16)
static MBX_CFG: std::sync::atomic::AtomicU16 = std::sync::atomic::AtomicU16::new(MBX_LEN);

/// mailbox header (6) + CoE header (2): `len` = mailbox length field, service in the top nibble of byte 7
fn mbx(len: u16, service: u8) -> Vec<u8> {
    let mut v = vec![0u8; MBX_LEN as usize];
    v[0..2].copy_from_slice(&len.to_le_bytes());
    v[5] = 0x03 | (1 << 4); // type CoE, counter 1
    v[7] = service << 4;
    v
}

/// normal (non expedited) upload response announcing `complete` bytes, carrying none of them
fn upload_normal(index: u16, sub: u8, complete: u32) -> Vec<u8> {
    let mut v = mbx(0x0a, 0x03);
    v[8] = 2 << 5; // command Upload, not expedited
    v[9..11].copy_from_slice(&index.to_le_bytes());
    v[11] = sub;
    v[12..16].copy_from_slice(&complete.to_le_bytes());
    v
}

/// upload segment response with the given mailbox length field
fn segment(len: u16, last: bool) -> Vec<u8> {
    let mut v = mbx(len, 0x03);
    v[8] = (3 << 5) | last as u8;
    v
}

/// Runs `f` against a device that answers the i-th mailbox request with `script(i)`. Returns (result of f, #requests).
fn with_device<R: Send + 'static>(
    script: impl Fn(usize) -> Vec<u8> + Send + 'static,
    f: impl FnOnce(Arc<MainDevice<'static>>, &SubDevice) -> R + Send + 'static,
) -> (std::thread::Result<R>, usize) {
    // leak one storage per call so tests don't share state
    let storage: &'static PduStorage<8, { PduStorage::element_size(64) }> = Box::leak(Box::new(PduStorage::new()));
    let (mut tx, mut rx, pdu_loop) = storage.try_split().unwrap();
    let timeouts = Timeouts { pdu: Duration::from_millis(2000), mailbox_echo: Duration::from_millis(1500), mailbox_response: Duration::from_millis(1500), ..Timeouts::default() };
    let maindevice = Arc::new(MainDevice::new(pdu_loop, timeouts, MainDeviceConfig { retry_behaviour: crate::RetryBehaviour::Count(10), ..MainDeviceConfig::default() }));
    let stop = Arc::new(AtomicBool::new(false));
    let requests = Arc::new(AtomicUsize::new(0));
    let pending: Arc<Mutex<Option<Vec<u8>>>> = Arc::new(Mutex::new(None));
    let (net_tx, net_rx) = std::sync::mpsc::sync_channel::<Vec<u8>>(16);

    let stop1 = stop.clone();
    let txh = thread::spawn(move || {
        while !stop1.load(Ordering::Relaxed) {
            while let Some(frame) = tx.next_sendable_frame() {
                frame.send_blocking(|b| { let _ = net_tx.send(b.to_vec()); Ok(b.len()) }).unwrap();
            }
            thread::yield_now();
        }
    });
    let stop1 = stop.clone();
    let req1 = requests.clone();
    let rxh = thread::spawn(move || {
        while let Ok(mut f) = net_rx.recv_timeout(Duration::from_secs(2)) {
            if stop1.load(Ordering::Relaxed) { break; }
            f[6] = 0x12; // answered by the first SubDevice
            let cmd = f[16];
            let reg = u16::from_le_bytes([f[20], f[21]]);
            let len = (u16::from_le_bytes([f[22], f[23]]) & 0x7ff) as usize;
            let data = 26;
            let mut p = pending.lock().unwrap();
            match (cmd, reg) {
                // FPWR into the write mailbox: the device now has a reply ready
                (0x05, WR_MBX) => { let n = req1.fetch_add(1, Ordering::SeqCst); *p = Some(script(n)); }
                // FPRD SM1 (read mailbox) status: mailbox full iff a reply is pending
                (0x04, 0x080d) => f[data] = if p.is_some() { 0x08 } else { 0x00 },
                // FPRD SM0 (write mailbox) status: never full
                (0x04, 0x0805) => f[data] = 0x00,
                // FPRD of the read mailbox
                (0x04, RD_MBX) => {
                    if let Some(r) = p.take() { f[data..data + len.min(r.len())].copy_from_slice(&r[..len.min(r.len())]); }
                    let n = READS.fetch_add(1, Ordering::SeqCst);
                    if REFILL.load(Ordering::SeqCst) && n < 200_000 { *p = Some(script(n + 1)); }
                }
                _ => {}
            }
            f[data + len..data + len + 2].copy_from_slice(&1u16.to_le_bytes());
            drop(p);
            // the TX thread may not have marked the frame as sent yet: retry like the crate's own tests do
            let mut tries = 0;
            while rx.receive_frame(&f).is_err() && tries < 1_000_000 { tries += 1; }
        }
    });

    let md = maindevice.clone();
    let res = thread::Builder::new().stack_size(256 << 20).spawn(move || {
        let mut sd = SubDevice { configured_address: 0x1001, ..Default::default() };
        let mlen = MBX_CFG.load(Ordering::SeqCst);
        sd.config.mailbox.read = Some(Mailbox { address: RD_MBX, len: mlen, sync_manager: 1 });
        sd.config.mailbox.write = Some(Mailbox { address: WR_MBX, len: mlen, sync_manager: 0 });
        sd.config.mailbox.has_coe = true;
        f(md, &sd)
    })
    .unwrap()
    .join();
    stop.store(true, Ordering::Relaxed);
    let _ = txh.join();
    let _ = rxh.join();
    (res, requests.load(Ordering::SeqCst))
}

fn read16(md: Arc<MainDevice<'static>>, sd: &SubDevice) -> Result<[u8; 16], Error> {
    let r = SubDeviceRef::new(&md, 0x1001, sd);
    cassette::block_on(r.sdo_read::<[u8; 16]>(0x1234, 1))
}

#[test]
fn d11_emergency_reply_is_an_error_not_a_panic() {
    // an emergency message (service 1) sitting in the mailbox when an SDO reply is expected
    let (res, _) = with_device(
        |_| { let mut v = mbx(0x0a, 0x01); v[8..10].copy_from_slice(&0x8130u16.to_le_bytes()); v[10] = 0x11; v },
        read16,
    );
    let res = res.expect("sdo_read panicked on an emergency reply");
    assert!(matches!(res, Err(Error::Mailbox(MailboxError::Emergency { .. }))), "{:?}", res);
}

#[test]
fn d24_emergency_is_decoded_where_it_is() {
    // ETG1000.6 table 50: mailbox header (6) + CoE header (2) + error code (2) + error register (1) + data (5) = 16 bytes.
    // The code skipped 12 bytes (the SDO header shape) before decoding: the reported code came from the data bytes ...
    let emcy = |_| { let mut v = mbx(0x0a, 0x01); v[8..10].copy_from_slice(&0x8130u16.to_le_bytes()); v[10] = 0x11; v[11..16].copy_from_slice(&[1, 2, 3, 4, 5]); v };
    let (res, _) = with_device(emcy, read16);
    let res = res.expect("panicked");
    assert!(matches!(res, Err(Error::Mailbox(MailboxError::Emergency { error_code: 0x8130, error_register: 0x11 }))), "32-byte mailbox: {:?}", res);
    // ... and in a 16-byte mailbox (the smallest that holds an emergency message) it was not an emergency error at all
    MBX_CFG.store(16, Ordering::SeqCst);
    let (res, _) = with_device(emcy, read16);
    MBX_CFG.store(MBX_LEN, Ordering::SeqCst);
    let res = res.expect("panicked");
    assert!(matches!(res, Err(Error::Mailbox(MailboxError::Emergency { error_code: 0x8130, error_register: 0x11 }))), "16-byte mailbox: {:?}", res);
}

#[test]
fn d12_segment_with_length_below_three() {
    // segmented upload whose segment reply claims a mailbox length of 2: `length - 3` underflowed
    let (res, _) = with_device(|i| if i == 0 { upload_normal(0x1234, 1, 16) } else { segment(2, true) }, read16);
    assert!(res.expect("sdo_read panicked on a segment with length < 3").is_err());
}

#[test]
fn d14_endless_empty_segments_terminate() {
    // every segment carries no data and says "more follows": the transfer must end with an error, not run for ever
    let (res, n) = with_device(
        |i| if i == 0 { upload_normal(0x1234, 1, 16) } else if i < 200 { segment(3, false) } else { segment(3, true) },
        read16,
    );
    let _ = res;
    assert!(n < 50, "sdo_read kept requesting segments that make no progress ({} requests)", n);
}

/// SDO info "get OD list" response: mailbox length `len`, op code 2, `incomplete` flag
fn od_list(len: u16, incomplete: bool) -> Vec<u8> {
    let mut v = mbx(len, 0x08);
    v[8] = 0x02 | ((incomplete as u8) << 7);
    v
}

fn od_query(md: Arc<MainDevice<'static>>, sd: &SubDevice) -> Result<bool, Error> {
    let r = SubDeviceRef::new(&md, 0x1001, sd);
    cassette::block_on(r.sdo_info_object_description_list(crate::subdevice::ObjectDescriptionListQuery::All)).map(|x| x.is_some())
}

#[test]
fn d13_sdo_info_length_smaller_than_its_headers() {
    // mailbox length 4 < the 8 bytes of CoE + SDO info header + list type: `length as usize - 8` underflowed
    let (res, _) = with_device(|_| od_list(4, false), od_query);
    assert!(res.is_ok(), "SDO info request panicked on a length field below 8");
}

#[test]
fn d13_sdo_info_length_larger_than_the_reply() {
    // mailbox length claims 200 data bytes, the mailbox holds 32: `response[..length]` indexed out of bounds
    let (res, _) = with_device(|_| od_list(208, false), od_query);
    assert!(res.is_ok(), "SDO info request panicked on a length field larger than the reply");
}

#[test]
fn d14_sdo_info_endless_fragments_terminate() {
    // fragments that carry nothing and always say "more follow", one after the other for as long as they are read
    REFILL.store(true, Ordering::SeqCst);
    READS.store(0, Ordering::SeqCst);
    let (res, _) = with_device(|_| od_list(8, true), od_query);
    REFILL.store(false, Ordering::SeqCst);
    let reads = READS.load(Ordering::SeqCst);
    eprintln!("reads = {}, result = {:?}", reads, res.as_ref().map(|r| r.as_ref().map(|_| ()).map_err(|e| *e)).map_err(|_| ()));
    assert!(res.is_ok());
    assert!(reads <= 70_000, "the request kept reading fragments that make no progress ({} reads)", reads);
}

/// normal upload response carrying `data` completely (complete size = data.len())
fn upload_normal_with(index: u16, sub: u8, data: &[u8]) -> Vec<u8> {
    let mut v = mbx(0x0a + data.len() as u16, 0x03);
    v[8] = 2 << 5; // command Upload, not expedited
    v[9..11].copy_from_slice(&index.to_le_bytes());
    v[11] = sub;
    v[12..16].copy_from_slice(&(data.len() as u32).to_le_bytes());
    v[16..16 + data.len()].copy_from_slice(data);
    v
}

#[test]
fn d27_array_of_words_as_sdo_destination() {
    // an 8-byte object read into [u16; 4]: `<[u16; 4] as EtherCrabWireSized>::buffer()` was only 4 bytes long (N instead of
    // N * 2), so sdo_read refused every such object as "too long" (and eeprom_read / register_read of such a type got a
    // buffer that cannot hold the value)
    assert_eq!(<[u16; 4] as ethercrab_wire::EtherCrabWireSized>::PACKED_LEN, 8);
    assert_eq!(<[u16; 4] as ethercrab_wire::EtherCrabWireSized>::buffer().as_ref().len(), 8, "buffer() must hold PACKED_LEN bytes");
    let (res, _) = with_device(
        |_| upload_normal_with(0x1234, 1, &[1, 0, 2, 0, 3, 0, 4, 0]),
        |md, sd| { let r = SubDeviceRef::new(&md, 0x1001, sd); cassette::block_on(r.sdo_read::<[u16; 4]>(0x1234, 1)) },
    );
    assert_eq!(res.expect("panicked"), Ok([1u16, 2, 3, 4]));
}

//! Demonstration for D18b (C13/C08): `fmmu_config.length_bytes += sm_config.length_bytes` overflows u16 when the FMMU
//! length read back from the device plus the sync manager length exceeds 65535 (both are device / EEPROM supplied).
//! Child test module of src/subdevice/configuration.rs:
//!   echo '#[cfg(test)] #[path = "/verif/findings/fmmu_demo.rs"] mod verif_demo;' >> src/subdevice/configuration.rs
use super::*;
use crate::{MainDevice, MainDeviceConfig, PduStorage, SubDevice, Timeouts};
use std::sync::{Arc, atomic::{AtomicBool, Ordering}};
use std::thread;
use std::time::Duration;

#[test]
fn d18_fmmu_length_overflow() {
    let storage: &'static PduStorage<4, { PduStorage::element_size(32) }> = Box::leak(Box::new(PduStorage::new()));
    let (mut tx, mut rx, pdu_loop) = storage.try_split().unwrap();
    let maindevice = Arc::new(MainDevice::new(pdu_loop, Timeouts { pdu: Duration::from_millis(2000), ..Timeouts::default() }, MainDeviceConfig::default()));
    let stop = Arc::new(AtomicBool::new(false));
    let (net_tx, net_rx) = std::sync::mpsc::sync_channel::<Vec<u8>>(16);
    let stop1 = stop.clone();
    let txh = thread::spawn(move || {
        while !stop1.load(Ordering::Relaxed) {
            while let Some(frame) = tx.next_sendable_frame() {
                frame.send_blocking(|b| { let _ = net_tx.send(b.to_vec()); Ok(b.len()) }).unwrap();
            }
            thread::yield_now();
        }
    });
    let rxh = thread::spawn(move || {
        while let Ok(mut f) = net_rx.recv_timeout(Duration::from_secs(2)) {
            f[6] = 0x12;
            let cmd = f[16];
            let reg = u16::from_le_bytes([f[20], f[21]]);
            let len = (u16::from_le_bytes([f[22], f[23]]) & 0x7ff) as usize;
            // FPRD of FMMU0: an already enabled mapping of 0xffff bytes
            if cmd == 0x04 && reg == 0x0600 {
                f[26 + 4..26 + 6].copy_from_slice(&0xffffu16.to_le_bytes());
                f[26 + 12] = 0x01;
            }
            f[26 + len..26 + len + 2].copy_from_slice(&1u16.to_le_bytes());
            let mut tries = 0;
            while rx.receive_frame(&f).is_err() && tries < 1_000_000 { tries += 1; }
        }
    });
    let md = maindevice.clone();
    let res = thread::spawn(move || {
        let mut sd = SubDevice { configured_address: 0x1001, ..Default::default() };
        let r = SubDeviceRef::new(&md, 0x1001, &mut sd);
        let mut offset = PdiOffset::default();
        let sm = SyncManagerChannel { physical_start_address: 0x1100, length_bytes: 2, ..Default::default() };
        cassette::block_on(r.write_fmmu_config(16, 0, &mut offset, SyncManagerType::ProcessDataRead, &sm)).is_ok()
    })
    .join();
    stop.store(true, Ordering::Relaxed);
    let _ = txh.join();
    let _ = rxh.join();
    assert!(res.is_ok(), "write_fmmu_config panicked: FMMU length 0xffff + SM length 2 overflows u16");
}

//! Demonstrations (single-threaded, deterministic) of the KNOWN FINDINGS recorded for C01 / C06.  Every test states the
//! property and therefore FAILS on the current tree.  Injected as a child test module of src/pdu_loop/mod.rs:
//!   echo '#[cfg(test)] #[path = "/verif/findings/pdu_loop_demo.rs"] mod verif_demo;' >> src/pdu_loop/mod.rs
//!   cargo test --offline --lib verif_demo
use super::*;
use crate::pdu_loop::frame_element::FrameState;
use crate::timer_factory::{MAX_TIMEOUT, MIN_TIMEOUT};
use crate::{Command, PduStorage};
use core::future::Future;
use core::task::{Context, Poll, Waker};
use std::pin::pin;

fn brd_bytes(frame: &[u8]) -> Vec<u8> {
    frame.to_vec()
}

/// C01 (D2): the view returned by `first_pdu` must keep showing the returned bytes while the caller holds it.
#[test]
fn d2_view_outlives_its_slot() {
    let storage = PduStorage::<1, { PduStorage::element_size(8) }>::new();
    let (mut tx, mut rx, pdu_loop) = storage.try_split().unwrap();
    let waker = Waker::noop();
    let mut cx = Context::from_waker(&waker);

    let mut frame = pdu_loop.alloc_frame().unwrap();
    let handle = frame.push_pdu(Command::fprd(0x1000, 0x0130).into(), (), Some(4)).unwrap();
    let mut fut = pin!(frame.mark_sendable(&pdu_loop, MAX_TIMEOUT, 0));
    assert!(fut.as_mut().poll(&mut cx).is_pending());
    let mut wire = Vec::new();
    tx.next_sendable_frame().unwrap().send_blocking(|b| { wire = b.to_vec(); Ok(b.len()) }).unwrap();
    // the network answers with data aa bb cc dd
    wire[6] = 0x12;
    wire[26..30].copy_from_slice(&[0xaa, 0xbb, 0xcc, 0xdd]);
    rx.receive_frame(&wire).unwrap();
    let Poll::Ready(Ok(received)) = fut.as_mut().poll(&mut cx) else { panic!("no response") };
    let view = received.first_pdu(handle).unwrap();
    assert_eq!(&*view, &[0xaa, 0xbb, 0xcc, 0xdd]);

    // the caller still holds `view`; somebody (this task or another one) issues the next request
    if let Ok(mut next) = pdu_loop.alloc_frame() {
        // the slot was handed to a new request while a view still points into it
        next.push_pdu(Command::fpwr(0x2000, 0x0120).into(), [0x11u8, 0x22, 0x33, 0x44], None).unwrap();
    }
    assert_eq!(&*view, &[0xaa, 0xbb, 0xcc, 0xdd], "the held view no longer shows the returned bytes");
}

/// C06 (D3 / U4): abandoning a request while the transmit side is inside its buffer must not give the buffer away.
#[test]
fn d3_abandon_while_tx_inside() {
    let storage = PduStorage::<1, { PduStorage::element_size(8) }>::new();
    let (mut tx, _rx, pdu_loop) = storage.try_split().unwrap();
    let waker = Waker::noop();
    let mut cx = Context::from_waker(&waker);

    let mut frame = pdu_loop.alloc_frame().unwrap();
    frame.push_pdu(Command::fpwr(0x1000, 0x0120).into(), [0xa1u8, 0xa2, 0xa3, 0xa4], None).unwrap();
    let mut fut = Box::pin(frame.mark_sendable(&pdu_loop, MAX_TIMEOUT, 0));
    assert!(fut.as_mut().poll(&mut cx).is_pending());

    // TX claims the frame (state Sending) and is about to hand the bytes to the NIC ...
    let sending = tx.next_sendable_frame().unwrap();
    // ... when the application abandons the request
    drop(fut);
    // and a second request gets the same slot while TX still holds it
    let mut second = pdu_loop.alloc_frame();
    if let Ok(second) = second.as_mut() {
        // slot reallocated while the transmit side is inside its buffer
        second.push_pdu(Command::fpwr(0x2000, 0x0120).into(), [0xb1u8, 0xb2, 0xb3, 0xb4], None).unwrap();
    }
    sending
        .send_blocking(|bytes| {
            assert_eq!(&bytes[26..30], &[0xa1, 0xa2, 0xa3, 0xa4], "TX transmitted another request's bytes");
            Ok(bytes.len())
        })
        .unwrap();
}

/// C06 (D5 / U5, D4 / U3): expiry / retry while the receive side is inside the buffer.
#[test]
fn d4_retry_while_rx_inside() {
    let storage = PduStorage::<1, { PduStorage::element_size(8) }>::new();
    let (mut tx, _rx, pdu_loop) = storage.try_split().unwrap();
    let waker = Waker::noop();
    let mut cx = Context::from_waker(&waker);

    let mut frame = pdu_loop.alloc_frame().unwrap();
    frame.push_pdu(Command::fprd(0x1000, 0x0130).into(), (), Some(4)).unwrap();
    // 1 ms timeout, one retry configured
    let t = crate::timer_factory::LabeledTimeout { duration: core::time::Duration::from_millis(1), kind: crate::timer_factory::TimeoutKind::Pdu };
    let mut fut = Box::pin(frame.mark_sendable(&pdu_loop, t, 1));
    assert!(fut.as_mut().poll(&mut cx).is_pending());
    tx.next_sendable_frame().unwrap().send_blocking(|b| Ok(b.len())).unwrap();
    // the receive side has claimed the slot and is copying the response in (state RxBusy)
    let receiving = pdu_loop.storage.claim_receiving(0).expect("claim");
    // the deadline is examined now: the retry path marks the slot sendable although RX is inside
    std::thread::sleep(std::time::Duration::from_millis(5));
    let r = fut.as_mut().poll(&mut cx);
    assert!(r.is_pending(), "retry path taken");
    let tx_claim = tx.next_sendable_frame();
    assert!(tx_claim.is_none(), "TX was given the buffer while RX is still copying into it");
    assert!(receiving.mark_received().is_ok(), "the receive task fails on its own claim");
}
